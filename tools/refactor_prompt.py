"""Prompt for an independent *behaviour-preserving refactoring* agent for one property (used to measure false alarms)."""
import json, sys
pid = sys.argv[1]
prop = None
for l in open('/verif/properties.jsonl'):
    p = json.loads(l)
    if p['id'] == pid:
        prop = p
wt = f"/tmp/refac_{pid}"
out = f"/tmp/refac_{pid}_out"
print(f"""You are a maintainer of the open-source Python library PorePy doing ordinary, behaviour-preserving clean-up work. You work alone in your own scratch git worktree of the repository at {wt} (already created; source under {wt}/src/porepy, tests under {wt}/tests). Do not read or touch anything under /verif, and do not modify /repo (the main checkout). NEVER use `git stash` (it is shared between worktrees); toggle changes with `git -C {wt} apply` / `git -C {wt} apply -R` / `git -C {wt} checkout -- .`.

Run code with `cd {wt} && PYTHONPATH={wt}/src /venv/bin/python script.py` and tests with `cd {wt} && PYTHONPATH={wt}/src /venv/bin/python -m pytest -q -p no:cacheprovider --no-cov -n 4 <test paths>` (only the relevant test files/directories, not the whole suite; a few gmsh/exporter tests are flaky in parallel - rerun failures serially before concluding).

CONTEXT - the part of the library you are cleaning up implements this property (id {pid}): {prop['title']}
Statement: {prop['statement']}
Where it lives: {json.dumps(prop['anchors'])}

TASK: produce FOUR different, independent refactorings of the mechanism code listed above (the functions/methods named under "mechanism"/"where"), each of which
 (a) preserves the behaviour exactly for every input (same results, same exceptions for invalid input, same side effects and the same order of side effects as far as callers can observe) - the property above must keep holding exactly as before,
 (b) is the kind of change a maintainer really makes: e.g. rename local variables; introduce or inline a temporary; extract a small private helper function/method and call it; reorder statements that do not depend on each other; merge two loops or split one loop into two; replace an idiom by an equivalent one (`.T` vs `.transpose()`, `@` vs `*` for sparse products where equivalent, list comprehension vs loop, `if not x: ... else: ...` with swapped arms, early return instead of else, `dict.get`/`in` vs try/except KeyError, keyword vs positional arguments, f-string vs format, np.concatenate vs np.hstack on 1-d arrays, enumerate vs manual counter, etc.); convert an if/elif chain to a differently ordered but equivalent chain; add type annotations or comments; move a constant to a module-level name,
 (c) is non-trivial: each refactoring should touch at least 5 lines of real code in one or two of the mechanism functions and the four should use different kinds of rewrites and (where possible) touch different functions,
 (d) passes the tests that exercise the touched files (run them; report exact commands and counts).
Additionally write, for each refactoring k, an equivalence demo `demo{{k}}.py` that exercises the touched functions on several (random or varied) inputs and checks a digest of the results against values you recorded from the ORIGINAL code (hard-code the expected values/digests obtained from the clean tree into the demo) - it must print PASS and exit 0 on BOTH the clean tree and the refactored tree.

For each k = 1..4 write into {out}/ (create it): patch{{k}}.diff (`git -C {wt} diff` of that refactoring alone, each made on a clean tree), demo{{k}}.py, meta{{k}}.json = {{"property": "{pid}", "kind": "behaviour-preserving refactoring", "summary": "...", "files": [...], "rewrites_used": [...], "tests_run": "... commands and pass/fail counts ...", "demo_clean": "PASS", "demo_refactored": "PASS"}}. Leave the worktree clean when you finish (do not delete it).

Final answer: one line per refactoring.""")
