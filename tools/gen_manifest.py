"""Generate /verif/MANIFEST.json from the rule modules that exist (claimed) and the
not-applicable table.  Run:  /venv/bin/python tools/gen_manifest.py"""
import importlib
import json
import os
import sys

VERIF = os.path.dirname(os.path.dirname(os.path.abspath(__file__)))
sys.path.insert(0, VERIF)

NA = {
    "C11": "MPFA linear exactness is a statement about the result of local dense solves over interaction regions; its truth depends on geometry-dependent floating-point values that no static argument in reach can bound (the bookkeeping of the split is claimed under C14).",
    "C12": "TPFA symmetry / M-matrix / agreement with MPFA are algebraic facts about assembled sparse values (harmonic means, signs per grid); no code-shape clause short of re-deriving the scheme.",
    "C13": "MPSA linear exactness: numerical result of local solves (as C11).",
    "C15": "Biot coupling consistency: numerical identity between assembled matrices (as C11).",
    "C16": "TPSA translation invariance: numerical identity of assembled matrices.",
    "C18": "RT0/MVEM exactness and SPD mass matrices: numerical properties of element matrices.",
    "C19": "Divergence-theorem identities of computed geometry: numerical identities over node coordinates.",
    "C20": "Rigid-motion equivariance of geometry: numerical; orientation fallbacks are data-dependent branches.",
    "C21": "Connectivity queries are one-line sparse-matrix formulas; any static rule would be a frozen source fragment. The one cross-module convention in it (row 0 of cell_faces_as_dense <-> positive sign) is checked where it is consumed, under C17.",
    "C22": "Subgrid extraction/partitioning: values of index maps and recomputed geometry; overlap growth is a graph fact about data.",
    "C23": "Refinement/extrusion measure and nesting: numerical/geometric.",
    "C25": "Conforming fractured grids: output of gmsh plus geometric matching with tolerances.",
    "C28": "Segment intersection vs exact arithmetic: tolerance-laden floating-point predicates.",
    "C29": "Segment splitting vs exact arithmetic: tolerance-laden floating-point predicates.",
    "C30": "Distance computations: numerical.",
    "C31": "Geometric predicates and point orderings: numerical with tolerances.",
    "C32": "Orthonormal maps: numerical.",
    "C33": "Tessellation overlaps: numerical.",
    "C35": "Sparse utilities vs dense semantics: round-trip equality of values over CSR/CSC internals for all matrices; runtime-value quantification.",
    "C37": "Block-diagonal inversion: numerical inverse and data-dependent permutation discovery.",
    "C41": "Interpolation tables: numerical.",
    "C42": "Saturations and fraction chain rule: numerical (numba kernels).",
    "C44": "Clipping: geometric set equality.",
}


def main() -> None:
    props = [json.loads(l) for l in open(os.path.join(VERIF, "properties.jsonl"))]
    ids = [p["id"] for p in props]
    checks = []
    claimed = []
    for pid in ids:
        path = os.path.join(VERIF, "sa", "rules", f"{pid.lower()}.py")
        if not os.path.isfile(path):
            continue
        mod = importlib.import_module(f"sa.rules.{pid.lower()}")
        meta = getattr(mod, "META", {})
        claimed.append(pid)
        checks.append({
            "property_id": pid,
            "quick_cmd": f"./check {pid} --tier quick",
            "thorough_cmd": f"./check {pid} --tier thorough",
            "evidence_file": f"/verif/evidence/{pid}.json",
            "replay_cmd_template": f"./check {pid} --replay {{path}}",
            "engine": "sa",
            "level_claimed": {
                "category": "other",
                "text": meta.get("level_text") or (
                    "Static analysis (no execution): decides structural necessary conditions of the property on every "
                    "path/call site/sibling of the anchored code. " + meta.get("explanation", "")),
                "design_ref": f"DESIGN.md section 6 ({pid})",
            },
            "level_note": meta.get("level_note") or (
                "Trusted: python ast, the checker's own resolver/CFG (sa/core), the rule's enumerated idioms. "
                "Decides the named structural clauses only, not the numerical behaviour. "
                + " ".join(meta.get("assumptions", []))),
            "technique": meta.get("technique", "static analysis: custom AST/CFG/dataflow rules specific to porepy"),
        })
    na = []
    for pid in ids:
        if pid in claimed:
            continue
        if pid not in NA:
            # property planned as claimed in DESIGN.md but rule not built yet
            na.append({"property_id": pid, "reason": "static rule planned in DESIGN.md section 6 but not implemented yet in this revision; not claimed until the check exists."})
        else:
            na.append({"property_id": pid, "reason": NA[pid]})
    man = {
        "version": 1,
        "setup_cmd": "/venv/bin/python -B -m sa.selfcheck",
        "hooks": {
            "guard": "POREPY_VERIF",
            "enable": "not needed: the checks are static (ast-based) and never import or run porepy; no source hooks exist",
            "baseline_off_cmd": "cd /repo && /venv/bin/python -m pytest -ra -q -p no:cacheprovider --timeout=900 --continue-on-collection-errors",
            "source_commits": [],
            "add_only": True,
        },
        "engines": [{
            "name": "sa",
            "path": "/verif/sa",
            "serves_properties": claimed,
            "kind_free_text": "repository-specific static analyser: python ast + hand-built statement CFG (networkx dominators) + def-use / abstract interpretation over small domains + sympy as term normaliser for expressions extracted from source; in-memory mutant overlays as positive controls",
        }],
        "checks": checks,
        "notes": "All checks parse /repo's current working tree on every run; exit 0/1/2 = holds / violation / analysis broken. See DESIGN.md.",
        "not_applicable": na,
    }
    with open(os.path.join(VERIF, "MANIFEST.json"), "w") as fh:
        json.dump(man, fh, indent=1)
    print(f"claimed={len(claimed)} not_applicable={len(na)}")


if __name__ == "__main__":
    main()
