"""Generate /verif/MANIFEST.json from the rule modules that exist (claimed) and the
not-applicable table.  Run:  /venv/bin/python tools/gen_manifest.py"""
import importlib
import json
import os
import sys

VERIF = os.path.dirname(os.path.dirname(os.path.abspath(__file__)))
sys.path.insert(0, VERIF)

NA = {
    "C11": "MPFA linear exactness is a statement about the result of local dense solves over interaction regions (the inverse of a geometry-dependent matrix); there is no closed form to extract and no static argument in reach bounds the values (the bookkeeping of the split is claimed under C14).",
    "C13": "MPSA linear exactness: numerical result of local dense solves (as C11).",
    "C15": "Biot coupling consistency: numerical identity between matrices assembled through the same local solves as C11/C13.",
    "C18": "RT0/MVEM exactness and SPD mass matrices: element matrices involve per-cell dense solves and a norm-dependent stabilisation weight; SPD-ness is a spectral fact.",
    "C25": "Conforming fractured grids: output of gmsh plus geometric matching with tolerances.",
    "C28": "Segment intersection vs exact arithmetic: tolerance-laden floating-point predicates; the property is stated away from the tolerance band, i.e. about rounding.",
    "C29": "Segment splitting vs exact arithmetic: tolerance-laden floating-point predicates (as C28).",
    "C31": "Geometric predicates and point orderings: floating-point predicates with tolerances (as C28).",
    "C33": "Tessellation overlaps: polygon clipping through an external library (shapely) and tolerance-based point matching.",
    "C44": "Clipping: geometric set equality of the output of iterative clipping with tolerances.",
}


def main() -> None:
    props = [json.loads(l) for l in open(os.path.join(VERIF, "properties.jsonl"))]
    ids = [p["id"] for p in props]
    checks = []
    claimed = []
    for pid in ids:
        path = os.path.join(VERIF, "sa", "rules", f"{pid.lower()}.py")
        if not os.path.isfile(path):
            continue
        mod = importlib.import_module(f"sa.rules.{pid.lower()}")
        meta = getattr(mod, "META", {})
        claimed.append(pid)
        checks.append({
            "property_id": pid,
            "quick_cmd": f"./check {pid} --tier quick",
            "thorough_cmd": f"./check {pid} --tier thorough",
            "evidence_file": f"/verif/evidence/{pid}.json",
            "replay_cmd_template": f"./check {pid} --replay {{path}}",
            "engine": "sa",
            "level_claimed": {
                "category": "other",
                "text": meta.get("level_text") or (
                    "Static analysis (no execution): decides structural necessary conditions of the property on every "
                    "path/call site/sibling of the anchored code. " + meta.get("explanation", "")),
                "design_ref": f"DESIGN.md sections 6 and 11 ({pid})",
            },
            "level_note": meta.get("level_note") or (
                "Trusted: python ast, the checker's own resolver/CFG (sa/core), the rule's enumerated idioms. "
                "Decides the named structural clauses only, not the numerical behaviour. "
                + " ".join(meta.get("assumptions", []))),
            "technique": meta.get("technique", "static analysis: custom AST/CFG/dataflow rules specific to porepy"),
        })
    na = []
    for pid in ids:
        if pid in claimed:
            continue
        if pid not in NA:
            # property planned as claimed in DESIGN.md but rule not built yet
            na.append({"property_id": pid, "reason": "static rule planned in DESIGN.md section 6 but not implemented yet in this revision; not claimed until the check exists."})
        else:
            na.append({"property_id": pid, "reason": NA[pid]})
    man = {
        "version": 1,
        "setup_cmd": "/venv/bin/python -B -m sa.selfcheck",
        "hooks": {
            "guard": "POREPY_VERIF",
            "enable": "not needed: the checks are static (ast-based) and never import or run porepy; no source hooks exist",
            "baseline_off_cmd": "cd /repo && /venv/bin/python -m pytest -ra -q -p no:cacheprovider --timeout=900 --continue-on-collection-errors",
            "source_commits": [],
            "add_only": True,
        },
        "engines": [{
            "name": "sa",
            "path": "/verif/sa",
            "serves_properties": claimed,
            "kind_free_text": "repository-specific static analyser: python ast + hand-built statement CFG (networkx dominators) + def-use / abstract interpretation over small domains + sympy as term normaliser for expressions extracted from source; in-memory mutant overlays as positive controls",
        }],
        "checks": checks,
        "notes": "All checks parse /repo's current working tree on every run; exit 0/1/2 = holds / violation / analysis broken. See DESIGN.md.",
        "not_applicable": na,
    }
    with open(os.path.join(VERIF, "MANIFEST.json"), "w") as fh:
        json.dump(man, fh, indent=1)
    print(f"claimed={len(claimed)} not_applicable={len(na)}")


if __name__ == "__main__":
    main()
