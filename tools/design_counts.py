"""Insert the current per-property numbers (from the thorough-tier evidence files) into DESIGN.md between the markers
<!-- COUNTS:BEGIN --> and <!-- COUNTS:END -->.  Run after `./check <ID> --tier thorough` for every claimed property."""
import json, os, re
V = "/verif"
rows = []
man = json.load(open(f"{V}/MANIFEST.json"))
known = json.load(open(f"{V}/known_findings.json"))["findings"]
for c in man["checks"]:
    pid = c["property_id"]
    e = json.load(open(f"{V}/evidence/{pid}.json"))
    cov = e["coverage"]
    st = cov.get("selftest") or {}
    sr = cov.get("seeded_regression") or {}
    rules = ", ".join(f"{r}:{v['obligations']}" for r, v in sorted(cov.get("per_rule", {}).items(), key=lambda kv: (len(kv[0]), kv[0])))
    nk = sum(1 for k in known if k["property"] == pid and k["status"] == "known")
    nf = sum(1 for k in known if k["property"] == pid and k["status"] == "fixed")
    rows.append(f"| {pid} | {e['tier']} | {cov['obligations']} | {cov['discharged']} | {nk} | {nf} | {st.get('detected', '-')}/{st.get('applied', '-')} | "
                f"{sr.get('detected', '-')}/{sr.get('applied', '-')}{' (+%d stale)' % len(sr.get('stale', [])) if sr.get('stale') else ''} | {rules} |")
tab = ("| property | tier of the evidence | obligations | discharged | known findings (entries) | fixed entries | mutants detected | kept seeds detected | obligations per rule |\n"
       "|---|---|---|---|---|---|---|---|---|\n" + "\n".join(rows) + "\n")
p = f"{V}/DESIGN.md"
s = open(p).read()
b, e_ = "<!-- COUNTS:BEGIN -->", "<!-- COUNTS:END -->"
if b not in s:
    raise SystemExit("markers missing in DESIGN.md")
s = s[:s.index(b) + len(b)] + "\n" + tab + s[s.index(e_):]
open(p, "w").write(s)
print(tab)
