#!/bin/sh
# Run the repo's pinned test-suite in parallel, then rerun (serially) the stable tests that
# did not pass (gmsh/exporter tests race on files in cwd when run in parallel), and compare
# with /root/.vp/BASELINE.json. Usage: tools/run_baseline.sh [tag]
TAG=${1:-run}
OUT=/tmp/porepy_baseline_$TAG
mkdir -p $OUT
cd /repo || exit 2
/venv/bin/python -m pytest -q -p no:cacheprovider --timeout=900 --continue-on-collection-errors -n 14 --junitxml=$OUT/par.xml > $OUT/par.log 2>&1
/venv/bin/python /verif/tools/baseline_compare.py $OUT/par.xml > $OUT/cmp1.txt
grep '^MISSING' $OUT/cmp1.txt | sed 's/^MISSING //' > $OUT/missing.txt
if [ -s $OUT/missing.txt ]; then
  /venv/bin/python - "$OUT" <<'PY'
import sys, subprocess, re
out = sys.argv[1]
ids = []
for l in open(out + '/missing.txt'):
    l = l.strip()
    cls, name = l.split('::', 1)
    parts = cls.split('.')
    # find file boundary: parts up to the one starting with test_ is the module
    for i, p in enumerate(parts):
        if p.startswith('test_'):
            break
    path = '/'.join(parts[:i + 1]) + '.py'
    rest = parts[i + 1:]
    ids.append('::'.join([path] + rest + [name]))
subprocess.run(['/venv/bin/python', '-m', 'pytest', '-q', '-p', 'no:cacheprovider', '--timeout=900',
                '--junitxml=' + out + '/ser.xml'] + ids, stdout=open(out + '/ser.log', 'w'), stderr=subprocess.STDOUT)
PY
  /venv/bin/python /verif/tools/baseline_compare.py $OUT/par.xml $OUT/ser.xml > $OUT/cmp2.txt
else
  cp $OUT/cmp1.txt $OUT/cmp2.txt
fi
cat $OUT/cmp2.txt
git -C /repo status --short | head
