"""Confirm seeded changes produced by independent sub-agents and run our checks against them.

usage: eval_seed.py <PID> <outdir> [--no-tests] [--offset N]
For each patch<k>.diff in outdir:
  1. fresh scratch worktree of /repo HEAD under /tmp (removed afterwards)
  2. demo<k>.py on the clean tree must exit 0; after `git apply` it must exit != 0
  3. the tests of the touched packages must still pass with the patch (parallel run, failures rerun serially)
  4. ./check <PID> --tier quick --root <worktree>  -> detected iff exit 1 with a VIOLATION line
  5. confirmed changes are stored as /verif/seeded/<PID>-<k>/{patch.diff,demo.py,meta.json}
"""
import json
import os
import re
import shutil
import subprocess
import sys

VERIF = "/verif"


def sh(cmd, cwd=None, env=None, timeout=3600):
    e = dict(os.environ)
    if env:
        e.update(env)
    p = subprocess.run(cmd, shell=True, cwd=cwd, env=e, capture_output=True, text=True, timeout=timeout)
    return p.returncode, (p.stdout or "") + (p.stderr or "")


def touched_files(patch):
    return re.findall(r"^\+\+\+ b/(.*)$", open(patch).read(), flags=re.M)


def test_targets(wt, files):
    out = set()
    for f in files:
        if not f.startswith("src/porepy/"):
            continue
        rel = f[len("src/porepy/"):]
        d = os.path.dirname(rel)
        base = os.path.basename(rel)[:-3]
        cand = os.path.join("tests", d)
        while cand and not os.path.isdir(os.path.join(wt, cand)):
            cand = os.path.dirname(cand)
        if cand and cand != "tests":
            out.add(cand)
        # direct test file
        for dp, dn, fn in os.walk(os.path.join(wt, "tests")):
            for x in fn:
                if x == f"test_{base}.py":
                    out.add(os.path.relpath(os.path.join(dp, x), wt))
    return sorted(out)


def run_tests(wt, targets):
    if not targets:
        return True, "no test targets"
    env = {"PYTHONPATH": f"{wt}/src"}
    xml = f"{wt}/.seed_junit.xml"
    rc, out = sh(f"/venv/bin/python -m pytest -q -p no:cacheprovider --timeout=900 --no-cov -n 6 --junitxml={xml} " + " ".join(targets), cwd=wt, env=env, timeout=5400)
    tail = out.strip().splitlines()[-1] if out.strip() else ""
    if rc == 0:
        return True, f"parallel: {tail}"
    failed = re.findall(r"^(?:FAILED|ERROR) (\S+)", out, flags=re.M)
    failed = sorted(set(failed))
    if not failed:
        return False, f"parallel rc={rc}: {tail}"
    rc2, out2 = sh("/venv/bin/python -m pytest -q -p no:cacheprovider --timeout=900 " + " ".join(f"'{f}'" for f in failed), cwd=wt, env=env, timeout=5400)
    tail2 = out2.strip().splitlines()[-1] if out2.strip() else ""
    return rc2 == 0, f"parallel: {tail}; serial rerun of {len(failed)} failures: {tail2}"


def main():
    pid, outdir = sys.argv[1], sys.argv[2]
    no_tests = "--no-tests" in sys.argv
    offset = int(sys.argv[sys.argv.index("--offset") + 1]) if "--offset" in sys.argv else 0  # second seeding round: k + offset
    results = []
    ks = sorted(int(m.group(1)) for f in os.listdir(outdir) if (m := re.match(r"patch(\d+)\.diff$", f)))
    for k in ks:
        patch = os.path.join(outdir, f"patch{k}.diff")
        demo = os.path.join(outdir, f"demo{k}.py")
        meta = os.path.join(outdir, f"meta{k}.json")
        if not os.path.isfile(demo):
            print(f"[{pid}-{k}] no demo; skipped")
            continue
        wt = f"/tmp/evalwt_{pid}_{k}"
        sh(f"git -C /repo worktree remove --force {wt}")
        rc, out = sh(f"git -C /repo worktree add -q --detach {wt} HEAD")
        rec = {"property": pid, "k": k}
        try:
            env = {"PYTHONPATH": f"{wt}/src"}
            rc, out = sh(f"/venv/bin/python {demo}", cwd=wt, env=env, timeout=900)
            rec["demo_clean_rc"] = rc
            rc, out = sh(f"git -C {wt} apply {patch}")
            rec["apply_rc"] = rc
            if rc != 0:
                rec["apply_err"] = out[-300:]
                results.append(rec)
                continue
            rc, out = sh(f"/venv/bin/python {demo}", cwd=wt, env=env, timeout=900)
            rec["demo_patched_rc"] = rc
            rec["demo_patched_tail"] = out.strip().splitlines()[-3:] if out.strip() else []
            files = touched_files(patch)
            rec["files"] = files
            rc, out = sh(f"./check {pid} --tier quick --root {wt} --no-evidence", cwd=VERIF)
            rec["check_rc"] = rc
            rec["check_lines"] = [l for l in out.splitlines() if l.startswith("VIOLATION") or l.startswith("ANALYSIS-ERROR") or l.startswith("  src/")][:6]
            # other properties' checks must stay silent or also fire legitimately; just record
            if not no_tests:
                targets = test_targets(wt, files)
                ok, msg = run_tests(wt, targets)
                rec["tests_ok"], rec["tests_msg"], rec["test_targets"] = ok, msg, targets
            else:
                rec["tests_ok"], rec["tests_msg"] = None, "not run"
            confirmed = rec["demo_clean_rc"] == 0 and rec["demo_patched_rc"] != 0 and rec.get("tests_ok") in (True, None)
            rec["confirmed"] = confirmed
            rec["detected"] = rc == 1 if False else rec["check_rc"] == 1
            if confirmed and rec.get("tests_ok") is True:
                dst = os.path.join(VERIF, "seeded", f"{pid}-{k + offset}")
                os.makedirs(dst, exist_ok=True)
                shutil.copy(patch, os.path.join(dst, "patch.diff"))
                shutil.copy(demo, os.path.join(dst, "demo.py"))
                m = json.load(open(meta)) if os.path.isfile(meta) else {}
                m.update({"property": pid, "confirmed_by_coordinator": {
                    "demo_on_clean_tree": "exit 0", "demo_with_patch": f"exit {rec['demo_patched_rc']}",
                    "tests": rec["tests_msg"], "test_targets": rec.get("test_targets"),
                    "check_cmd": f"./check {pid} --tier quick --root <scratch worktree with patch applied>",
                    "check_exit": rec["check_rc"], "check_report": rec["check_lines"]}})
                json.dump(m, open(os.path.join(dst, "meta.json"), "w"), indent=1)
        finally:
            sh(f"git -C /repo worktree remove --force {wt}")
            shutil.rmtree(wt, ignore_errors=True)
        results.append(rec)
        print(json.dumps(rec, indent=1))
    print("SUMMARY", pid, [(r["k"], "confirmed" if r.get("confirmed") else "unconfirmed", "DETECTED" if r.get("detected") else "missed") for r in results])


if __name__ == "__main__":
    main()
