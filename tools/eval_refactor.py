"""Run the checks against behaviour-preserving refactorings (false-alarm measurement).
usage: eval_refactor.py PID outdir  -> each patch applied to a scratch worktree; demo must pass; ./check PID must exit 0"""
import json, os, re, subprocess, sys
def sh(cmd, cwd=None, env=None):
    e = dict(os.environ); e.update(env or {})
    p = subprocess.run(cmd, shell=True, cwd=cwd, env=e, capture_output=True, text=True)
    return p.returncode, p.stdout + p.stderr
pid, outdir = sys.argv[1], sys.argv[2]
res = []
for k in sorted(int(m.group(1)) for f in os.listdir(outdir) if (m := re.match(r"patch(\d+)\.diff$", f))):
    wt = f"/tmp/refwt_{pid}_{k}"
    sh(f"git -C /repo worktree remove --force {wt}"); sh(f"git -C /repo worktree add -q --detach {wt} HEAD")
    rc, out = sh(f"git -C {wt} apply {outdir}/patch{k}.diff")
    if rc != 0:
        res.append((k, "no-apply", out[-150:])); sh(f"git -C /repo worktree remove --force {wt}"); continue
    demo = f"{outdir}/demo{k}.py"
    drc = sh(f"/venv/bin/python {demo}", cwd=wt, env={"PYTHONPATH": f"{wt}/src"})[0] if os.path.isfile(demo) else None
    rc, out = sh(f"./check {pid} --tier quick --root {wt} --no-evidence", cwd="/verif")
    lines = [l.strip()[:260] for l in out.splitlines() if l.startswith("VIOLATION") or l.startswith("ANALYSIS-ERROR") or l.startswith("  src/")][:3]
    res.append((k, f"demo_rc={drc} check_exit={rc}", lines))
    sh(f"git -C /repo worktree remove --force {wt}")
for r in res: print(pid, r)
print("SUMMARY", pid, [(r[0], r[1]) for r in res])
