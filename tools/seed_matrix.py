"""Re-run the checks against every confirmed seeded change in /verif/seeded/<PID>-<k>/ and write
/verif/seeded/RESULTS.md (which check catches which change).  Static: each patch is applied to a scratch
worktree of /repo HEAD (removed afterwards) and ./check <PID> --tier quick --root <worktree> is run.
usage: seed_matrix.py [--all-checks]   (--all-checks: also run every other property's check to record cross-detections
and to verify that unrelated checks stay silent)"""
import json, os, subprocess, sys, re
VERIF = "/verif"
sys.path.insert(0, VERIF)

def sh(cmd, cwd=None):
    p = subprocess.run(cmd, shell=True, cwd=cwd, capture_output=True, text=True)
    return p.returncode, p.stdout + p.stderr

def main():
    allc = "--all-checks" in sys.argv
    man = json.load(open(f"{VERIF}/MANIFEST.json"))
    claimed = [c["property_id"] for c in man["checks"]]
    rows = []
    sd = f"{VERIF}/seeded"
    for d in sorted(os.listdir(sd)):
        pdir = os.path.join(sd, d)
        if not os.path.isfile(os.path.join(pdir, "patch.diff")):
            continue
        pid = d.split("-")[0]
        wt = f"/tmp/seedmx_{d}"
        sh(f"git -C /repo worktree remove --force {wt}")
        sh(f"git -C /repo worktree add -q --detach {wt} HEAD")
        rc, out = sh(f"git -C {wt} apply {pdir}/patch.diff")
        meta = json.load(open(os.path.join(pdir, "meta.json")))
        if rc != 0:
            rows.append((d, "patch no longer applies on HEAD (anchor changed by a later fix)", "-", "-"))
            sh(f"git -C /repo worktree remove --force {wt}")
            continue
        rc, out = sh(f"./check {pid} --tier quick --root {wt} --no-evidence", cwd=VERIF)
        rep = [l.strip() for l in out.splitlines() if l.startswith("  src/")][:2]
        rule = ", ".join(sorted(set(re.findall(r"\[(R\w+|W)\]", " ".join(rep))))) or ("exit 2 (undecided)" if rc == 2 else "-")
        others = []
        if allc:
            for q in claimed:
                if q == pid:
                    continue
                rc2, out2 = sh(f"./check {q} --tier quick --root {wt} --no-evidence --no-selftest", cwd=VERIF)
                if rc2 != 0:
                    others.append(f"{q}:exit{rc2}")
        rows.append((d, meta.get("summary", "")[:150].replace("|", "/"), {0: "MISSED (exit 0)", 1: "detected", 2: "refused (exit 2)"}.get(rc, str(rc)) + (f" [{rule}]" if rc == 1 else ""), ", ".join(others) or "-"))
        meta.setdefault("confirmed_by_coordinator", {})["latest_check"] = {"exit": rc, "report": rep}
        json.dump(meta, open(os.path.join(pdir, "meta.json"), "w"), indent=1)
        sh(f"git -C /repo worktree remove --force {wt}")
    with open(os.path.join(sd, "RESULTS.md"), "w") as fh:
        fh.write("# Independently seeded changes vs. the checks\n\nEach change was produced by a sub-agent that saw only the property text, breaks the property, "
                 "passes the touched packages' tests and comes with a demo that fails only with the change (all confirmed by the coordinator, see meta.json). "
                 "Column 3: result of `./check <PID> --tier quick` on a scratch worktree with the patch applied. Column 4: other properties' checks that also left exit 0.\n\n")
        fh.write("| seeded change | what it does | own check | other checks |\n|---|---|---|---|\n")
        for r in rows:
            fh.write("| " + " | ".join(r) + " |\n")
        det = sum(1 for r in rows if r[2].startswith("detected"))
        fh.write(f"\nDetected {det} of {len(rows)}.\n")
    print(open(os.path.join(sd, "RESULTS.md")).read()[-1500:])

if __name__ == "__main__":
    main()
