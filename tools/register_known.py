"""Register the current, unlisted findings of one rule of one property as known findings.
usage: register_known.py PID RULE "what fails (with the concrete failing input)"   -- use deliberately, after confirming the defect"""
import sys, json, importlib
sys.path.insert(0, '/verif')
from sa.core.loader import Repo
from sa.core.report import Ctx, norm_construct, load_known, match_known, KNOWN_FILE
pid, rule, what = sys.argv[1], sys.argv[2], sys.argv[3]
mod = importlib.import_module(f"sa.rules.{pid.lower()}")
ctx = Ctx(pid, Repo(), "quick"); mod.run(ctx)
k = json.load(open(KNOWN_FILE)); known = k["findings"]
n = 0; seen = set()
for f in ctx.findings:
    if f.rule != rule or f.key() in seen or match_known(f, known): continue
    seen.add(f.key())
    known.append({"status": "known", "property": pid, "rule": rule, "file": f.file, "qualname": f.qualname,
                  "construct": norm_construct(f.construct), "what": what + " [" + norm_construct(f.construct)[:120] + "]"})
    n += 1
json.dump(k, open(KNOWN_FILE, 'w'), indent=1)
print("registered", n)
