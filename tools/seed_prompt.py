"""Print the prompt for an independent fault-seeding sub-agent for one property (property text only)."""
import json, sys
pid = sys.argv[1]
suffix = sys.argv[2] if len(sys.argv) > 2 else ""
prop = None
for l in open('/verif/properties.jsonl'):
    p = json.loads(l)
    if p['id'] == pid:
        prop = p
wt = f"/tmp/seed{suffix}_{pid}"
out = f"/tmp/seed{suffix}_{pid}_out"
print(f"""You are an independent fault-seeding tester for the open-source Python library PorePy (simulation of flow/mechanics in fractured porous media). Your job is to craft realistic *semantic bugs* that break one stated property of the library while slipping past its existing test-suite. You work alone in your own scratch git worktree of the repository at {wt} (already created; it contains the full source under {wt}/src/porepy and tests under {wt}/tests). Do not read or touch anything under /verif, and do not modify /repo (the main checkout) in any way.

How to run code against your worktree: `cd {wt} && PYTHONPATH={wt}/src /venv/bin/python your_script.py` and `cd {wt} && PYTHONPATH={wt}/src /venv/bin/python -m pytest -q -p no:cacheprovider -x <test paths>` (add `--no-cov -n 4` for parallel runs of bigger subsets - the machine is shared, do not use more workers and do not run the whole test-suite, only the relevant sub-directories; a few gmsh/exporter tests are flaky when run in parallel - rerun those serially before concluding anything). Always check `python -c "import porepy; print(porepy.__file__)"` resolves into {wt}.

THE PROPERTY (id {pid}): {prop['title']}
Statement: {prop['statement']}
Quantified over: {prop['quantifier']['text']}
Where it lives: {json.dumps(prop['anchors'])}
Why the tests cannot settle it: {prop.get('why_tests_cant')}

TASK: produce up to THREE different, independent changes to the library source ({wt}/src/porepy/...), each of which
 (a) breaks the property above for some input / history / configuration,
 (b) still compiles/imports, and still passes the existing tests: at minimum run every test file that exercises the files you touched (grep the tests directory for the module / class / function names) and the whole tests/ sub-directory that corresponds to the touched package; report exactly what you ran and the pass/fail counts. A change that makes an existing test fail is NOT acceptable - pick another,
 (c) needs something specific to manifest - a particular multi-step sequence of operations, an unusual but legal input (e.g. non-matching grids, a 0-d subdomain, mixed cell types, duplicate entries, a reflected operand order, more than 1000 entries, a failed-then-retried step), a particular branch, or two cooperating sites that each look fine alone - not something ordinary use would expose at once,
 (d) looks like a plausible developer mistake or refactoring slip (wrong sibling used, swapped arguments, dropped copy, missing reset, off-by-one in an index map, wrong sign in one branch, one of two parallel updates forgotten, stale cache...), small (a few lines), and is NOT a syntactic oddity.
Prefer changes in the mechanism files listed above; different changes should hit different mechanisms/clauses of the property.

For each change k = 1..3 write into {out}/ (create the directory):
  patch{{k}}.diff   - `git -C {wt} diff` of exactly that change alone (apply each change on a clean tree: `git -C {wt} checkout -- .` between changes),
  demo{{k}}.py      - a small self-contained script that exits 0 (prints PASS) on the unmodified library and exits 1 (prints FAIL and what differed) with the change applied; it must use only the public behaviour described by the property (no reference to your patch), run in well under a minute, and be run as `PYTHONPATH=<tree>/src /venv/bin/python demo{{k}}.py`,
  meta{{k}}.json    - {{"property": "{pid}", "summary": "...", "files": [...], "needs_to_manifest": "...", "tests_run": "... exact commands and pass/fail counts ...", "demo_result_clean": "PASS", "demo_result_patched": "FAIL ..."}}.
Verify both directions of every demo yourself (clean tree -> PASS, patched tree -> FAIL) before writing the meta file. NEVER use `git stash` (the stash is shared by all worktrees of the repository and gets mixed up with other agents); toggle with `git apply` / `git apply -R` / `git checkout -- .`. Leave the worktree clean (`git -C {wt} checkout -- .`) when you finish; do not delete it.

Final answer: a short list of the changes you produced (one line each) and anything notable (e.g. if you discovered that the UNMODIFIED library already violates the property for some input - give that input).""")
