"""False-alarm measurement on the final tree: every kept behaviour-preserving refactoring (refactorings/<ID>-<k>/patch.diff)
is applied as an in-memory overlay of the current /repo tree (tolerant hunk placement, as the seeded regression does) and the
rules of its property are run on it.  Required outcome: no new finding (exit-0 equivalent).  'refused' = Undecided/AnchorError
(exit-2 equivalent), 'stale' = the patch no longer applies (a later fix rewrote its lines).  Writes refactorings/RESULTS.md.
usage: refactor_matrix.py [ID ...]"""
import os, sys, json
from concurrent.futures import ProcessPoolExecutor
sys.path.insert(0, "/verif")

def one(d):
    from sa.core.loader import Repo, AnchorError, Undecided
    from sa.cli import load_rule, run_rules, _apply_unified_diff
    pid = d.split("-")[0]
    repo = Repo("/repo")
    mod = load_rule(pid)
    try:
        base = {f.key() for f in run_rules(mod, pid, repo, "quick").findings}
    except Exception as e:
        return d, f"base run failed: {e}"
    ov = _apply_unified_diff(repo, open(f"/verif/refactorings/{d}/patch.diff").read())
    if ov is None:
        return d, "stale"
    try:
        for rel, txt in ov.items():
            compile(txt, rel, "exec")
        ctx = run_rules(mod, pid, repo.with_overlay(ov), "quick")
    except (AnchorError, Undecided) as e:
        return d, f"refused: {str(e)[:140]}"
    except SyntaxError:
        return d, "stale"
    new = [f for f in ctx.findings if f.key() not in base]
    return d, ("silent" if not new else "FALSE ALARM: " + new[0].short()[:160])

def main():
    sel = set(sys.argv[1:])
    ds = sorted(d for d in os.listdir("/verif/refactorings") if os.path.isfile(f"/verif/refactorings/{d}/patch.diff") and (not sel or d.split("-")[0] in sel))
    with ProcessPoolExecutor(max_workers=8) as ex:
        res = list(ex.map(one, ds))
    with open("/verif/refactorings/RESULTS.md", "w") as fh:
        fh.write("# Behaviour-preserving refactorings vs. the checks (final tree, in-memory overlays)\n\n| refactoring | result |\n|---|---|\n")
        for d, r in res:
            fh.write(f"| {d} | {r} |\n")
        from collections import Counter
        c = Counter(r.split(":")[0] for _, r in res)
        fh.write("\n" + ", ".join(f"{k}: {v}" for k, v in sorted(c.items())) + f" (of {len(res)})\n")
    print(open("/verif/refactorings/RESULTS.md").read()[-600:])

if __name__ == "__main__":
    main()
