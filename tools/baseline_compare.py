"""Compare a junit xml of the repo's test-suite with /root/.vp/BASELINE.json stable_pass.
usage: baseline_compare.py <junit.xml> [more.xml ...]   -> prints stable tests that did not pass"""
import json, sys, xml.etree.ElementTree as ET
base = json.load(open('/root/.vp/BASELINE.json'))
stable = set(base['stable_pass'])
passed = set()
for f in sys.argv[1:]:
    for tc in ET.parse(f).getroot().iter('testcase'):
        tid = f"{tc.get('classname')}::{tc.get('name')}"
        bad = any(ch.tag in ('failure', 'error', 'skipped') for ch in tc)
        if not bad:
            passed.add(tid)
missing = sorted(stable - passed)
print(f"stable_pass={len(stable)} passed_now={len(passed)} stable_not_passed={len(missing)}")
for m in missing:
    print("MISSING", m)
