"""Re-base the kept seeded changes on the current /repo HEAD.
For every /verif/seeded/<PID>-<k>/patch.diff that no longer applies with `git apply`, try `patch -p1 --fuzz=3` in a scratch
worktree; if that works and the demo still discriminates (exit 0 on the clean HEAD, non-zero with the change), the patch is
rewritten from `git diff` (the original is kept as patch.orig.diff). Otherwise meta.json gets "stale_on_head": reason.
usage: refresh_seeds.py [--all]   (--all: also re-verify the demos of the patches that still apply)"""
import json, os, shutil, subprocess, sys

def sh(cmd, cwd=None, env=None, timeout=1800):
    e = dict(os.environ); e.update(env or {})
    p = subprocess.run(cmd, shell=True, cwd=cwd, env=e, capture_output=True, text=True, timeout=timeout)
    return p.returncode, p.stdout + p.stderr

def main():
    sd = "/verif/seeded"
    allp = "--all" in sys.argv
    for d in sorted(os.listdir(sd)):
        pdir = os.path.join(sd, d)
        pf = os.path.join(pdir, "patch.diff")
        if not os.path.isfile(pf):
            continue
        wt = f"/tmp/reseed_{d}"
        sh(f"git -C /repo worktree remove --force {wt}")
        sh(f"git -C /repo worktree add -q --detach {wt} HEAD")
        try:
            rc, _ = sh(f"git -C {wt} apply --check {pf}")
            meta_f = os.path.join(pdir, "meta.json")
            meta = json.load(open(meta_f)) if os.path.isfile(meta_f) else {}
            if rc == 0 and not allp:
                meta.pop("stale_on_head", None)
                json.dump(meta, open(meta_f, "w"), indent=1)
                continue
            env = {"PYTHONPATH": f"{wt}/src"}
            demo = os.path.join(pdir, "demo.py")
            rc_clean, out_clean = sh(f"/venv/bin/python {demo}", cwd=wt, env=env)
            if rc == 0:
                sh(f"git -C {wt} apply {pf}")
            else:
                rcp, outp = sh(f"patch -p1 --fuzz=3 --no-backup-if-mismatch < {pf}", cwd=wt)
                if rcp != 0:
                    sh(f"git -C {wt} checkout -- .")
                    meta["stale_on_head"] = "patch does not apply on the current HEAD (a later fix rewrote the lines it touches); covered by the ported `seed-` mutant of the rule module"
                    json.dump(meta, open(meta_f, "w"), indent=1)
                    print(d, "STALE (patch rejected)")
                    continue
                sh(f"find {wt} -name '*.orig' -delete; find {wt} -name '*.rej' -delete")
            rcc, _ = sh(f"/venv/bin/python -m py_compile $(git -C {wt} diff --name-only | sed 's#^#{wt}/#')")
            rc_pat, out_pat = sh(f"/venv/bin/python {demo}", cwd=wt, env=env)
            ok = rc_clean == 0 and rc_pat != 0 and rcc == 0
            if ok and rc != 0:
                _, diff = sh(f"git -C {wt} diff")
                if not os.path.isfile(os.path.join(pdir, "patch.orig.diff")):
                    shutil.copy(pf, os.path.join(pdir, "patch.orig.diff"))
                open(pf, "w").write(diff)
                meta.pop("stale_on_head", None)
                meta["rebased_on_head"] = sh("git -C /repo rev-parse --short HEAD")[1].strip()
                print(d, "REBASED")
            elif ok:
                meta.pop("stale_on_head", None)
                print(d, "ok")
            else:
                meta["stale_on_head"] = (f"demo no longer discriminates on the current HEAD (clean exit {rc_clean}, with the change exit {rc_pat}): "
                                         "a later fix changed the behaviour the demo relies on; covered by the ported `seed-` mutant")
                print(d, "STALE (demo)", rc_clean, rc_pat)
            json.dump(meta, open(meta_f, "w"), indent=1)
        finally:
            sh(f"git -C /repo worktree remove --force {wt}")
            shutil.rmtree(wt, ignore_errors=True)

if __name__ == "__main__":
    main()
