"""C39 - boundary conditions: one-hot lock-step of is_dir/is_neu/is_rob per keyword arm, the
faces-subset-of-boundary check dominating every flag write, default initialisation, unknown
keyword raises, scalar/vectorial sibling agreement."""
from __future__ import annotations

import ast

from ..core import cfg as cfgmod
from ..core.astutil import (u, dotted, walk_local, calls_in, call_name, kwarg, methods, names_in, stmts_local,
                            assigned_targets, body_nodoc)
from ..core.loader import AnchorError, Undecided
from ..core.report import Ctx
from .c36 import Normalizer  # refactoring-tolerant normalisation (helper inlining, alias/constant propagation, idioms)

BC = "src/porepy/params/bc.py"
FLAGS = ("is_dir", "is_neu", "is_rob")
KW2FLAG = {"dir": "is_dir", "neu": "is_neu", "rob": "is_rob"}
# (class, function holding the keyword arms)
SITES = [("BoundaryCondition", "__init__"), ("BoundaryConditionVectorial", "set_bc")]

META = {
    "explanation": (
        "Structural analysis of BoundaryCondition.__init__ and BoundaryConditionVectorial.__init__/set_bc. "
        "R1 defaults: each of is_dir/is_neu/is_rob starts as an all-False boolean array; exactly the faces returned by "
        "<grid>.get_all_boundary_faces() are set Neumann; zero-initialisation precedes the default, which precedes every "
        "keyword arm (for the vectorial class: precedes the set_bc call, which forwards faces and cond). "
        "R2: a raising test `not np.all(np.isin(faces, self.bf))` dominates (CFG dominators) every flag write of the arms, "
        "the checked array is the one the writes index with and it is not reassigned after the check. "
        "R3 one-hot lock-step: every arm that writes a flag sets the flag of its keyword True and the other two False, all "
        "three on the same index expression (a 'neu' arm without writes keeps the face's single type and is accepted). "
        "R4: the arms cover exactly 'dir'/'neu'/'rob' and anything else raises. R5: scalar and vectorial siblings perform "
        "the same set of flag writes per keyword and both convert boolean masks to indices before the subset check. "
        "R6: every other method that switches a flag on clears the other two on the same index. The methods are analysed on "
        "normalised deep copies (private one-level helpers inlined, aliases/constants propagated, tuple assignments split); the "
        "keyword dispatch may be an elif chain, a run of guard-continue ifs or end in a `!=` test. "
        "Not decided: correctness of the grid's boundary tags (get_all_boundary_faces), and flag edits done by callers "
        "directly on the arrays or by other methods (internal_to_dirichlet is reported as a note)."),
    "rule_text": "one obligation per (flag initialisation | default | flag write | arm | keyword | class)",
    "trusted_base": ["python ast", "sa.core (loader, astutil, cfg dominators)"],
    "assumptions": ["flag arrays are written only through subscript stores self.is_X[...] = True/False inside the anchored functions",
                    "np.isin/np.all have numpy semantics", "an explicit raise is the only way the subset test rejects input"],
    "technique": "AST normalisation (one-level helper inlining, copy propagation, tuple-assignment splitting) + keyword-arm extraction (elif chains, guard-continue runs) + CFG dominance + sibling table comparison",
}
MIN_INSTANCES = {"R1": 13, "R2": 18, "R3": 6, "R4": 4, "R5": 4, "R6": 1}


# ----------------------------------------------------------------------------------------

def _params(fn) -> list[str]:
    a = fn.args
    return [x.arg for x in a.posonlyargs + a.args + a.kwonlyargs]


def _kw_of_test(t: ast.expr, op=ast.Eq) -> str | None:
    """`s.lower() == "dir"` / `s == "dir"` / `"dir" == s.lower()` -> 'dir' (op=ast.NotEq for `!=`)."""
    if isinstance(t, ast.Compare) and len(t.ops) == 1 and isinstance(t.ops[0], op):
        for a, b in ((t.left, t.comparators[0]), (t.comparators[0], t.left)):
            if isinstance(b, ast.Constant) and isinstance(b.value, str):
                if isinstance(a, ast.Name) or (isinstance(a, ast.Call) and isinstance(a.func, ast.Attribute)
                                               and a.func.attr in ("lower", "casefold", "strip")):
                    return b.value
    return None


def _is_kw_if(n: ast.AST) -> bool:
    return isinstance(n, ast.If) and (_kw_of_test(n.test) is not None or _kw_of_test(n.test, ast.NotEq) is not None)


def _ends_flow(body: list[ast.stmt]) -> bool:
    return bool(body) and isinstance(body[-1], (ast.Continue, ast.Return, ast.Raise))


def _chain(fn: ast.FunctionDef):
    """The dispatch over the condition keyword: -> (anchor node, [(kw, body)], else body).  Understands an
    if/elif/else chain, a run of sibling `if kw == ...: ...; continue` statements followed by the fallback, and
    a final `elif kw != "x": <fallback>` (the arm for "x" is then empty)."""
    from ..core.astutil import parent_map
    pm = parent_map(fn)
    kwifs = [n for n in walk_local(fn) if _is_kw_if(n)]
    inner = {n.orelse[0] for n in kwifs if len(n.orelse) == 1 and _is_kw_if(n.orelse[0])}
    roots = [n for n in kwifs if n not in inner]
    if not roots:
        raise Undecided("no dispatch over the condition keyword found")
    blk = None
    for r in roots:
        par = pm[r]
        b = next((getattr(par, f) for f in ("body", "orelse", "finalbody") if isinstance(getattr(par, f, None), list)
                  and any(x is r for x in getattr(par, f))), None)
        if b is None or (blk is not None and b is not blk):
            raise Undecided(f"keyword tests are spread over {len(roots)} unrelated places")
        blk = b
    pos = {id(x): i for i, x in enumerate(blk)}
    roots.sort(key=lambda r: pos[id(r)])
    arms: list[tuple[str, list[ast.stmt]]] = []
    else_body: list[ast.stmt] = []
    for idx, r in enumerate(roots):
        last = idx == len(roots) - 1
        own: list[list[ast.stmt]] = []
        cur = r
        fallback = rest = None
        while True:
            kw = _kw_of_test(cur.test)
            if kw is not None:
                arms.append((kw, cur.body))
                own.append(cur.body)
                rest = cur.orelse
                if len(rest) == 1 and _is_kw_if(rest[0]):
                    cur = rest[0]
                    continue
            else:  # `kw != "x"`: the body is the fallback, the (plain) orelse is the arm of "x"
                if any(_is_kw_if(x) for x in cur.orelse):
                    raise Undecided("keyword chain continues under a `!=` test")
                arms.append((_kw_of_test(cur.test, ast.NotEq), cur.orelse))
                fallback, rest = cur.body, None
            break
        if not last:
            if fallback is not None or rest or not all(_ends_flow(b) for b in own):
                raise Undecided("sibling keyword tests whose arms fall through to the next test")
            continue
        if fallback is not None:
            else_body = fallback
        elif rest:
            else_body = rest
        else:
            tail = blk[pos[id(r)] + 1:]
            if tail and all(_ends_flow(b) for b in own):
                else_body = tail
    return roots[0], arms, else_body


def _flag_store(s: ast.stmt):
    """`self.is_X[IDX] = <const bool>` -> (flag, value, IDX node); ('?') markers for odd stores."""
    tg = []
    if isinstance(s, (ast.Assign, ast.AugAssign, ast.AnnAssign)):
        tg = assigned_targets(s)
    for t in tg:
        if not isinstance(t, ast.Subscript):
            continue  # re-binding of the whole attribute: see _rebinds
        base = t
        while isinstance(base, ast.Subscript):
            base = base.value
        if isinstance(base, ast.Attribute) and u(base.value) == "self" and base.attr in FLAGS:
            if isinstance(t, ast.Subscript) and isinstance(t.value, ast.Attribute) and isinstance(s, ast.Assign) and len(s.targets) == 1 \
                    and isinstance(s.value, ast.Constant) and isinstance(s.value.value, bool):
                return base.attr, s.value.value, t.slice
            return base.attr, "?", None
    return None


def _rebinds(node: ast.AST) -> list[ast.stmt]:
    """Statements that re-bind a whole flag attribute (self.is_X = ...)."""
    return [s for s in ast.walk(node) if isinstance(s, (ast.Assign, ast.AugAssign, ast.AnnAssign)) and getattr(s, "value", None) is not None
            and any(isinstance(t, ast.Attribute) and u(t.value) == "self" and t.attr in FLAGS for t in assigned_targets(s))]


def _face_index(idx: ast.expr) -> ast.expr:
    """Face component of a flag index: `f` for `[f]`, `f` for `[:, f]` / `[c, f]`."""
    if isinstance(idx, ast.Tuple) and len(idx.elts) == 2:
        return idx.elts[1]
    return idx


def _subset_test(test: ast.expr):
    """-> (strength, F, B): strength 'all' for a test that is true iff some element of F is not in B,
    'weak' for a recognisably weaker test; None if not an isin test."""
    neg = False
    t = test
    if isinstance(t, ast.UnaryOp) and isinstance(t.op, ast.Not):
        neg, t = True, t.operand
    # np.setdiff1d(F, B).size [> 0 | != 0] / len(np.setdiff1d(F, B)) [> 0]: true iff some element of F is not in B
    core = t
    if isinstance(core, ast.Compare) and len(core.ops) == 1 and isinstance(core.ops[0], (ast.Gt, ast.NotEq)) \
            and isinstance(core.comparators[0], ast.Constant) and core.comparators[0].value == 0:
        core = core.left
    if isinstance(core, ast.Attribute) and core.attr == "size":
        core = core.value
    elif isinstance(core, ast.Call) and isinstance(core.func, ast.Name) and core.func.id == "len" and len(core.args) == 1:
        core = core.args[0]
    else:
        core = None
    if core is not None and isinstance(core, ast.Call) and call_name(core) == "setdiff1d" and len(core.args) >= 2:
        return ("other" if neg else "all"), core.args[0], core.args[1]
    if not isinstance(t, ast.Call):
        return None
    red = None
    arg = None
    if call_name(t) in ("all", "any") and isinstance(t.func, ast.Attribute):
        red = call_name(t)
        if dotted(t.func.value) in ("np", "numpy") and len(t.args) == 1:
            arg = t.args[0]
        elif not t.args:
            arg = t.func.value
    if arg is None:
        return None
    inv = False
    if isinstance(arg, ast.UnaryOp) and isinstance(arg.op, ast.Invert):
        inv, arg = True, arg.operand
    if isinstance(arg, ast.Call) and call_name(arg) == "logical_not" and len(arg.args) == 1:
        inv, arg = True, arg.args[0]
    if not (isinstance(arg, ast.Call) and call_name(arg) in ("isin", "in1d") and len(arg.args) >= 2):
        return None
    if kwarg(arg, "invert") is not None:
        return None
    F, B = arg.args[0], arg.args[1]
    # rejects iff exists f not in B:  not all(isin)  |  any(~isin)
    if (neg and red == "all" and not inv) or (not neg and red == "any" and inv):
        return "all", F, B
    if (neg and red == "any" and not inv) or (not neg and red == "all" and inv):
        return "weak", F, B
    return "other", F, B


# ----------------------------------------------------------------------------------------

def run(ctx: Ctx) -> None:
    mod = ctx.repo.module(BC)
    norm = Normalizer(mod)
    tables: dict[str, dict[str, set]] = {}
    conv: dict[str, bool] = {}
    for cname, fname in SITES:
        cls = mod.cls(cname)
        # deep copies with private helpers inlined (one level), aliases / module constants propagated, tuple
        # assignments split
        meths = norm.methods(cls, inline=True)
        if "__init__" not in meths or fname not in meths:
            raise AnchorError(f"{BC}:{cname}.{fname} missing")
        init, armfn = meths["__init__"], meths[fname]
        bf_attr = _r1_defaults(ctx, mod, cname, init, armfn, fname)
        root, arms, else_body = _chain(armfn)
        writes = _r3_arms(ctx, mod, cname, fname, armfn, arms)
        _r4_keywords(ctx, mod, cname, fname, root, arms, else_body)
        conv[cname] = _r2_subset_check(ctx, mod, cname, fname, armfn, arms, bf_attr)
        tables[cname] = writes
    _r5_siblings(ctx, mod, tables, conv)
    _r6_other_mutators(ctx, mod, norm)
    if ctx.tier == "thorough":
        _notes(ctx, mod)


# ---------------- R1 ---------------------------------------------------------------------------

def _r1_defaults(ctx: Ctx, mod, cname, init, armfn, fname) -> str:
    q = f"{cname}.__init__"
    ps = _params(init)
    if len(ps) < 2:
        raise AnchorError(f"{q}: grid parameter missing")
    sd = ps[1]
    c = cfgmod.build(init)
    inits: dict[str, ast.stmt] = {}
    init_val: dict[str, ast.expr] = {}
    default = None
    others = []
    in_arms = set()
    if armfn is init:
        root, arms, els = _chain(init)
        in_arms = {s for _, b in arms for x in (b or []) for s in ast.walk(x) if isinstance(s, ast.stmt)}
        in_arms |= {s for x in els for s in ast.walk(x) if isinstance(s, ast.stmt)}
    for s in stmts_local(init):
        if s in in_arms:
            continue
        if isinstance(s, (ast.Assign, ast.AnnAssign)) and getattr(s, "value", None) is not None:
            tg = assigned_targets(s)
            for t in tg:
                if isinstance(t, ast.Attribute) and u(t.value) == "self" and t.attr in FLAGS:
                    if t.attr in inits:
                        raise Undecided(f"{q}: self.{t.attr} assigned more than once")
                    inits[t.attr] = s
                    v = s.value
                    if len(tg) > 1 and isinstance(v, (ast.GeneratorExp, ast.ListComp)):
                        v = v.elt     # a, b, c = (np.zeros(...) for _ in range(3))
                    init_val[t.attr] = v
        if isinstance(s, ast.For) and isinstance(s.target, ast.Name) and isinstance(s.iter, (ast.Tuple, ast.List)) \
                and all(isinstance(e, ast.Constant) for e in s.iter.elts):
            for st in s.body:   # for name in ("is_neu", ...): setattr(self, name, np.zeros(...))
                if isinstance(st, ast.Expr) and isinstance(st.value, ast.Call) and u(st.value.func) == "setattr" and len(st.value.args) == 3 \
                        and u(st.value.args[0]) == "self" and u(st.value.args[1]) == s.target.id:
                    for e in s.iter.elts:
                        if e.value in FLAGS:
                            if e.value in inits:
                                raise Undecided(f"{q}: self.{e.value} assigned more than once")
                            inits[e.value] = s
                            init_val[e.value] = st.value.args[2]
        fs = _flag_store(s)
        if fs is not None:
            if fs[0] == "is_neu" and fs[1] is True and default is None:
                default = (s, fs[2])
            else:
                others.append(s)
    if others:
        raise Undecided(f"{q}: flag store outside the keyword arms and the Neumann default: {u(others[0])}")
    for fl in FLAGS:
        s = inits.get(fl)
        if s is None:
            ctx.check("R1", False, mod, q, init, f"self.{fl} is not initialised in __init__", construct=f"init {fl} <- missing")
            continue
        v = init_val[fl]
        if not (isinstance(v, ast.Call) and call_name(v) in ("zeros", "ones", "full", "zeros_like", "ones_like", "empty")):
            raise Undecided(f"{q}: initialisation of self.{fl} not recognised: {u(v)}")
        dt = kwarg(v, "dtype") or (v.args[1] if call_name(v) in ("zeros", "ones", "empty") and len(v.args) > 1 else None)
        all_false = call_name(v) in ("zeros", "zeros_like") or (call_name(v) == "full" and len(v.args) > 1 and u(v.args[1]) == "False")
        if all_false and call_name(v) != "full" and (dt is None or u(dt) not in ("bool", "np.bool_", "np.bool")):
            raise Undecided(f"{q}: self.{fl} is not a boolean array: {u(v)}")
        ctx.check("R1", all_false, mod, q, s, f"self.{fl} must start all-False (every face untyped until a default/keyword sets it); "
                  f"found {u(v)}", construct=f"init {fl} = {u(v)}")
    if default is None:
        ctx.check("R1", False, mod, q, init, "no default `self.is_neu[<boundary faces>] = True`: unassigned boundary faces carry no type",
                  construct="default Neumann <- missing")
        raise Undecided(f"{q}: boundary-face attribute unknown without the Neumann default")
    ds, didx = default
    fidx = _face_index(didx)
    # attribute of self holding the boundary faces of the grid
    from ..core.astutil import inline_locals

    def grid_call(e: ast.expr):
        e = inline_locals(init, e, stop=ps)
        if isinstance(e, ast.Call) and isinstance(e.func, ast.Attribute) and u(e.func.value) == sd and "boundary_faces" in e.func.attr \
                and not e.args:
            return e.func.attr
        return None

    cands = []
    for s in stmts_local(init):
        if isinstance(s, (ast.Assign, ast.AnnAssign)) and getattr(s, "value", None) is not None and grid_call(s.value):
            for t in assigned_targets(s):
                if isinstance(t, ast.Attribute) and u(t.value) == "self":
                    cands.append((t.attr, grid_call(s.value)))
    if len(cands) != 1:
        raise Undecided(f"{q}: expected one attribute holding {sd}.<...boundary_faces>(), found {cands}")
    bf_attr, src = cands[0]
    # the default's index: self.<bf>, or a local / direct call that is the very value stored in self.<bf>
    on_bf = u(fidx) == f"self.{bf_attr}" or (not isinstance(fidx, ast.Slice) and (
        grid_call(fidx) == src or u(inline_locals(init, fidx, stop=ps)) == f"self.{bf_attr}"))
    if not on_bf and not (isinstance(fidx, ast.Slice) or isinstance(fidx, (ast.Attribute, ast.Call))):
        raise Undecided(f"{q}: index of the Neumann default `{u(ds)}` not recognised")
    ctx.check("R1", on_bf, mod, q, ds,
              f"default `{u(ds)}` must mark exactly the boundary faces self.{bf_attr} Neumann (interior faces carry no type, every "
              f"boundary face carries one)", construct=f"default Neumann: {u(ds)}")
    ctx.check("R1", src == "get_all_boundary_faces", mod, q, ds,
              f"boundary faces come from {sd}.{src}(); the boundary of a (fractured) grid is domain boundary + fracture + tip "
              f"faces, i.e. get_all_boundary_faces()", construct=f"boundary faces: self.{bf_attr} = {sd}.{src}()")
    # ordering: zeros -> default -> arms / set_bc call
    dn = c.node_for(ds)
    order_ok = all(c.dominates(c.node_for(s), dn) for s in inits.values())
    if armfn is init:
        wnodes = [c.node_for(s) for s in in_arms if _flag_store(s) is not None]
        order_ok = order_ok and all(c.dominates(dn, w) for w in wnodes)
        what = "every keyword arm"
    else:
        calls = [s for s in stmts_local(init) if isinstance(s, ast.Expr) and isinstance(s.value, ast.Call) and u(s.value.func) == f"self.{fname}"]
        if len(calls) != 1:
            raise Undecided(f"{q}: expected one call of self.{fname}")
        order_ok = order_ok and c.dominates(dn, c.node_for(calls[0]))
        what = f"the self.{fname}(...) call"
        call = calls[0].value
        fwd = [u(a) for a in call.args] + [f"{k.arg}={u(k.value)}" for k in call.keywords]
        ap = _params(armfn)[1:]
        want_pos = ps[2:2 + len(ap)]
        ok_fwd = [u(a) for a in call.args] == want_pos and not call.keywords or \
            (not call.args and {k.arg: u(k.value) for k in call.keywords} == dict(zip(ap, want_pos)))
        ctx.check("R1", ok_fwd, mod, q, calls[0], f"__init__ must forward its faces and cond to {fname} (found {fwd})",
                  construct=f"{fname}({', '.join(fwd)})")
    ctx.check("R1", order_ok, mod, q, ds,
              f"all-False initialisation must precede the Neumann default, which must precede {what} (a default applied after an "
              f"arm re-marks Dirichlet/Robin faces as Neumann too)", construct=f"order: zeros -> default -> {what}")
    ctx.sample({"rule": "R1", "class": cname, "boundary_attr": bf_attr, "source": src})
    return bf_attr


# ---------------- R3 ---------------------------------------------------------------------------

def _r3_arms(ctx: Ctx, mod, cname, fname, armfn, arms) -> dict[str, set]:
    q = f"{cname}.{fname}"
    table: dict[str, set] = {}
    if armfn.name != "__init__" and _rebinds(armfn):
        raise Undecided(f"{q}: flag attribute re-bound outside __init__: {u(_rebinds(armfn)[0])}")
    for kw, body in arms:
        if any(_rebinds(s) for s in body):
            raise Undecided(f"{q}: flag attribute re-bound inside the '{kw}' arm")
        writes: dict[str, tuple] = {}
        for s in body:
            fs = _flag_store(s)
            if fs is None:
                if isinstance(s, (ast.Pass, ast.Expr)):
                    continue
                if any(_flag_store(x) for x in ast.walk(s) if isinstance(x, ast.stmt)):
                    raise Undecided(f"{q}: conditional flag store in the '{kw}' arm")
                continue
            fl, val, idx = fs
            if val == "?":
                raise Undecided(f"{q}: '{kw}' arm stores into self.{fl} with a non-literal value or shape: {u(s)}")
            if fl in writes and writes[fl][0] != val:
                raise Undecided(f"{q}: '{kw}' arm writes self.{fl} twice with different values")
            writes[fl] = (val, u(idx), s)
        table[kw] = {(fl, v[0]) for fl, v in writes.items()}
        node = body[0] if body else armfn
        if kw not in KW2FLAG:
            continue  # reported by R4
        if not writes:
            ok = kw == "neu"
            ctx.check("R3", ok, mod, q, node,
                      f"'{kw}' arm writes no flag: the face keeps its previous type instead of becoming {KW2FLAG[kw]}",
                      construct=f"arm '{kw}': no writes",
                      desc=f"'{kw}' arm: no flag is touched, the face keeps exactly one type")
            continue
        problems = []
        want_true = KW2FLAG[kw]
        for fl in FLAGS:
            if fl not in writes:
                problems.append(f"self.{fl} is left untouched (a face that already is {fl[3:]} keeps that flag as well)")
            elif writes[fl][0] != (fl == want_true):
                problems.append(f"self.{fl} is set {writes[fl][0]} (must be {fl == want_true})")
        idxs = {v[1] for v in writes.values()}
        if len(idxs) > 1:
            problems.append(f"the flags are written on different index expressions {sorted(idxs)}")
        ctx.check("R3", not problems, mod, q, node,
                  f"'{kw}' arm must set {want_true} True and the other two flags False on one index: " + "; ".join(problems),
                  construct=f"arm '{kw}': " + ", ".join(f"{fl}[{writes[fl][1]}]={writes[fl][0]}" for fl in FLAGS if fl in writes),
                  facts={"writes": {fl: (v[0], v[1]) for fl, v in writes.items()}},
                  desc=f"'{kw}' arm sets {want_true} True and the other two False on one index")
        ctx.sample({"rule": "R3", "site": q, "kw": kw, "writes": {fl: [v[0], v[1]] for fl, v in writes.items()}})
    return table


# ---------------- R4 ---------------------------------------------------------------------------

def _r4_keywords(ctx: Ctx, mod, cname, fname, root, arms, else_body) -> None:
    q = f"{cname}.{fname}"
    kws = [k for k, _ in arms]
    extra = [k for k in kws if k not in KW2FLAG]
    if extra:
        raise Undecided(f"{q}: arm for unknown keyword(s) {extra}")
    missing = sorted(set(KW2FLAG) - set(kws))
    ctx.check("R4", not missing, mod, q, root, f"no arm for keyword(s) {missing}: a documented condition type falls to the else branch",
              construct=f"keyword arms {sorted(kws)}", desc=f"arms cover the keywords {sorted(KW2FLAG)}")
    raises = bool(else_body) and isinstance(else_body[-1], ast.Raise) and all(isinstance(s, (ast.Raise, ast.Expr, ast.Assign)) for s in else_body)
    ctx.check("R4", raises, mod, q, else_body[0] if else_body else root,
              "an unknown condition keyword must raise (otherwise the face silently keeps the default type)",
              construct="unknown keyword: " + ("raises" if raises else (u(else_body[0])[:60] if else_body else "no else branch")))


# ---------------- R2 ---------------------------------------------------------------------------

def _name_classes(fn: ast.FunctionDef) -> dict[str, set[str]]:
    """Names connected by plain `a = b` assignments (flow-insensitive; used to follow a helper's parameter/return)."""
    parent: dict[str, str] = {}

    def find(x: str) -> str:
        parent.setdefault(x, x)
        while parent[x] != x:
            parent[x] = parent[parent[x]]
            x = parent[x]
        return x

    for s in stmts_local(fn):
        if isinstance(s, ast.Assign) and len(s.targets) == 1 and isinstance(s.targets[0], ast.Name) and isinstance(s.value, ast.Name):
            parent[find(s.targets[0].id)] = find(s.value.id)
    out: dict[str, set[str]] = {}
    for x in list(parent):
        out.setdefault(find(x), set()).add(x)
    return {x: out[find(x)] for x in parent}


def _derives(fn: ast.FunctionDef, e: ast.expr, params: set[str], depth: int = 0) -> set[str]:
    """Parameters an expression derives from, through single-assignment locals and loop variables."""
    out: set[str] = set()
    if depth > 5:
        return out
    for nm in names_in(e):
        if nm in params:
            out.add(nm)
            continue
        srcs: list[ast.expr] = []
        for s in stmts_local(fn):
            if isinstance(s, (ast.Assign, ast.AnnAssign)) and getattr(s, "value", None) is not None \
                    and any(isinstance(t, ast.Name) and t.id == nm for t in assigned_targets(s)):
                srcs.append(s.value)
            if isinstance(s, ast.For) and any(isinstance(t, ast.Name) and t.id == nm for t in assigned_targets(s)):
                it = s.iter
                # position-wise for zip(a, b) / enumerate(a)
                if isinstance(it, ast.Call) and call_name(it) == "zip" and isinstance(s.target, ast.Tuple) and len(s.target.elts) == len(it.args):
                    it = next((a for t, a in zip(s.target.elts, it.args) if nm in names_in(t)), it)
                elif isinstance(it, ast.Call) and call_name(it) == "enumerate" and isinstance(s.target, ast.Tuple) and len(s.target.elts) == 2 \
                        and it.args:
                    it = it.args[0] if nm in names_in(s.target.elts[1]) else ast.Constant(value=0)
                srcs.append(it)
        for x in srcs:
            if nm not in names_in(x):
                out |= _derives(fn, x, params, depth + 1)
    return out


def _r2_subset_check(ctx: Ctx, mod, cname, fname, armfn, arms, bf_attr) -> bool:
    q = f"{cname}.{fname}"
    if any(isinstance(n, ast.Try) for n in walk_local(armfn)):
        raise Undecided(f"{q}: try/except around the validation")
    c = cfgmod.build(armfn)
    writes = [s for _, b in arms for x in (b or []) for s in ast.walk(x) if isinstance(s, ast.stmt) and _flag_store(s) is not None]
    if not writes:
        raise AnchorError(f"{q}: no flag writes")
    classes = _name_classes(armfn)
    params = set(_params(armfn))
    # the array the writes index with
    fvars: dict[str, int] = {}
    per_write: dict[int, set[str]] = {}
    for s in writes:
        fs = _flag_store(s)
        if fs[2] is None:
            raise Undecided(f"{q}: flag store of unrecognised shape: {u(s)}")
        fi = _face_index(fs[2])
        nm = _derives(armfn, fi, params) - {"self"}
        if len(nm) > 1:
            raise Undecided(f"{q}: face index `{u(fi)}` derives from several parameters {sorted(nm)}")
        per_write[id(s)] = nm
        for n in nm:
            fvars[n] = fvars.get(n, 0) + 1
    if len(fvars) != 1:
        raise Undecided(f"{q}: flag writes do not index with one parameter array: {sorted(fvars)}")
    fv = next(iter(fvars))
    fclass = classes.get(fv, {fv})
    stray = [s for s in writes if fv not in per_write[id(s)]]
    ctx.check("R2", not stray, mod, q, stray[0] if stray else armfn,
              f"flag write `{u(stray[0]) if stray else ''}` indexes with something that does not derive from the checked array `{fv}`",
              construct=(u(stray[0]) if stray else f"all flag writes index through `{fv}`"),
              desc=f"all flag writes index through the checked array `{fv}`")
    from ..core.astutil import inline_locals, single_assign_value
    checks = []
    unknown = []
    where_tested: dict[int, ast.stmt] = {}   # id(if) -> statement that evaluates the membership test
    for n in walk_local(armfn):
        if isinstance(n, ast.If):
            # the test may go through boolean temporaries (`on_boundary = np.isin(...)`): resolve single-assignment,
            # non-parameter locals; the membership is then evaluated where the (first) temporary is assigned
            test = inline_locals(armfn, n.test, stop=list(params) + sorted(fclass))
            temps = [single for nm in names_in(n.test) if nm not in params and nm not in fclass
                     for single in [st_ for st_ in stmts_local(armfn) if isinstance(st_, (ast.Assign, ast.AnnAssign))
                                    and [u(t) for t in assigned_targets(st_)] == [nm]]]
            st = _subset_test(test)
            if st is not None and u(st[2]) == f"self.{bf_attr}":
                checks.append((n, st))
                where_tested[id(n)] = temps[0] if len(temps) == 1 and u(test) != u(n.test) else n
            elif st is None and n.body and isinstance(n.body[-1], ast.Raise) and (names_in(test) & fclass) and \
                    any(isinstance(x, ast.Attribute) and x.attr == bf_attr for x in ast.walk(test)):
                unknown.append(n)
    effective = []
    why = f"no test of `{fv}` against self.{bf_attr} found"
    for iff, (strength, F, B) in checks:
        if strength == "other":
            raise Undecided(f"{q}: polarity of `{u(iff.test)}` not recognised")
        if u(F) not in fclass:
            why = f"`{u(iff.test)}` tests `{u(F)}`, the writes index with `{fv}`"
            continue
        if strength == "weak":
            why = f"`{u(iff.test)}` only rejects when *no* face is on the boundary"
            continue
        if not (iff.body and isinstance(iff.body[-1], ast.Raise)):
            why = f"`{u(iff.test)}` does not raise (body: {u(iff.body[-1])[:50]})"
            continue
        effective.append(iff)
    if not effective and unknown:
        raise Undecided(f"{q}: raising test `{u(unknown[0].test)}` relates `{fv}` to self.{bf_attr} in a form that is not recognised")
    ctx.check("R2", bool(effective), mod, q, checks[0][0] if checks else armfn,
              f"faces must be checked to be a subset of the boundary faces with a raising test before any flag is written: {why}",
              construct="subset check: " + (u(effective[0].test) if effective else why),
              desc=f"raising test `{u(effective[0].test)}` present" if effective else None)
    for s in writes:
        wn = c.node_for(s)
        dom = [e for e in effective if c.dominates(c.node_for(e), wn)]
        msg = (f"flag write `{u(s)}` is not dominated by the faces-subset-of-boundary check" +
               (" (the check runs after the write or on another path)" if effective else f" ({why})"))
        ctx.check("R2", bool(dom), mod, q, s, msg + ": a face outside the boundary gets a condition type",
                  construct=f"check dominates {u(s)}", desc=f"subset check dominates `{u(s)}`")
    # the checked array is not re-bound after the check (handing the same object on under another name is fine)
    rebinds = [s for s in stmts_local(armfn) if any(isinstance(t, ast.Name) and t.id in fclass for t in assigned_targets(s))]
    real = [s for s in rebinds if not (isinstance(s, ast.Assign) and isinstance(s.value, ast.Name) and s.value.id in fclass)]
    bad = []
    for e in effective:
        en = c.node_for(where_tested.get(id(e), e))
        bad += [s for s in real if c.reachable(en, c.node_for(s))]
    ctx.check("R2", not bad, mod, q, bad[0] if bad else armfn,
              f"`{fv}` is re-bound after it was checked against the boundary: the checked and the written faces differ",
              construct=(u(bad[0]) if bad else f"`{fv}` not re-bound after the check"),
              desc=f"`{fv}` is not re-bound between the subset check and the flag writes")
    # mask -> index conversion guarded by dtype == bool (sibling fact for R5)
    conv = any(isinstance(s, ast.Assign) and isinstance(s.value, ast.Call) and call_name(s.value) in ("argwhere", "flatnonzero", "nonzero", "where")
               for s in real)
    return conv


# ---------------- R5 ---------------------------------------------------------------------------

def _r5_siblings(ctx: Ctx, mod, tables, conv) -> None:
    (a, fa), (b, fb) = SITES
    for kw in sorted(KW2FLAG):
        ta, tb = tables[a].get(kw), tables[b].get(kw)
        if ta is None or tb is None:
            continue
        if not ta or not tb:
            # a no-op arm next to an explicit one: both keep the face one-hot; nothing to compare
            ctx.check("R5", True, mod, f"{b}.{fb}", None, "", construct=f"sibling '{kw}': no-op arm",
                      desc=f"'{kw}': at least one sibling arm is a no-op (nothing to compare)")
            continue
        ctx.check("R5", ta == tb, mod, f"{b}.{fb}", None,
                  f"'{kw}': {a}.{fa} writes {sorted(ta)} but {b}.{fb} writes {sorted(tb)}; the siblings implement the same "
                  f"assignment (per component) and must touch the same flags",
                  construct=f"sibling '{kw}': scalar {sorted(ta)} vectorial {sorted(tb)}",
                  desc=f"'{kw}': scalar and vectorial arms write the same flags")
    ctx.check("R5", conv[a] == conv[b], mod, f"{b}.{fb}", None,
              f"boolean masks are converted to indices in {'only ' + (a if conv[a] else b) if conv[a] != conv[b] else 'both'}; "
              f"the sibling would test/iterate the mask itself", construct=f"mask conversion: scalar {conv[a]} vectorial {conv[b]}",
              desc="both siblings convert boolean face masks to indices")


# ---------------- notes ---------------------------------------------------------------------------

def _r6_other_mutators(ctx: Ctx, mod, norm) -> None:
    """R6 (added by the coordinator): every other method of the boundary-condition classes that switches a
    flag on for an index set must switch the other two off for the same index expression (one-hot is an
    invariant of the object, not only of the constructor).  Today: internal_to_dirichlet."""
    n = 0
    site_fns = {f for _, f in SITES}
    for cq, cls in mod.classes():
        for name, fn in norm.methods(cls, inline=False).items():
            if (cq, name) in SITES or name == "__init__":
                continue
            if name.startswith("_") and any(isinstance(c.func, ast.Attribute) and c.func.attr == name
                                            for c2, f2 in SITES for c in calls_in(methods(mod.cls(c2)).get(f2) or ast.Pass())):
                continue  # a private helper of an anchored constructor: analysed inlined there
            ws = [(_flag_store(s), s) for s in stmts_local(fn)]
            ws = [(w, s) for w, s in ws if w is not None]
            for w, st in ws:
                if w[1] is not True:
                    continue
                n += 1
                idx = u(w[2]) if w[2] is not None else None
                off = {x[0] for x, _ in ws if x[1] is False and x[2] is not None and u(x[2]) == idx}
                miss = [f for f in FLAGS if f != w[0] and f not in off]
                ctx.check("R6", not miss, mod, f"{cq}.{name}", st,
                          f"{name} sets {w[0]} True on `{idx}` but does not clear {miss} on the same faces: a face previously of that "
                          f"type ends up with two condition types", construct=f"{cq}.{name}: {w[0]}[{idx}] = True without clearing {miss}",
                          facts={"index": idx, "cleared": sorted(off)})
    if n == 0:
        raise AnchorError("no flag-setting mutator besides the constructors found (internal_to_dirichlet expected)")


def _notes(ctx: Ctx, mod) -> None:
    for cq, cls in mod.classes():
        for name, fn in methods(cls).items():
            if (cq, name) in SITES or name == "__init__":
                continue
            ws = [(_flag_store(s), s) for s in stmts_local(fn)]
            ws = [(w, s) for w, s in ws if w is not None]
            if not ws:
                continue
            trues = [w[0] for w, _ in ws if w[1] is True]
            falses = {w[0] for w, _ in ws if w[1] is False}
            for t in trues:
                miss = [f for f in FLAGS if f != t and f not in falses]
                if miss:
                    ctx.note(f"observation (outside the anchored constructors): {cq}.{name} sets {t} True but leaves {miss} untouched "
                             f"(a face previously marked {', '.join(m[3:] for m in miss)} ends up with two types)")
        if "copy" in methods(cls):
            fn = methods(cls)["copy"]
            al = [s for s in stmts_local(fn) if isinstance(s, ast.Assign) and isinstance(s.targets[0], ast.Attribute)
                  and s.targets[0].attr in FLAGS and u(s.value) == f"self.{s.targets[0].attr}"]
            if al:
                ctx.note(f"observation: {cq}.copy is documented as a deep copy but aliases the flag arrays ({u(al[0])}); it also "
                         f"always builds a scalar BoundaryCondition")


# ----------------------------------------------------------------------------------------
def _m(name, old, new, rule, control=False, count=1):
    return dict(name=name, file=BC, old=old, new=new, rule=rule, control=control, count=count)


_V_CHECK = ("            if not np.all(np.isin(faces, self.bf)):\n"
            "                raise ValueError(\"Give boundary condition only on the boundary.\")\n")
_V_REST = ("            if isinstance(cond, str):\n                cond = [cond] * faces.size\n"
           "            if faces.size != len(cond):\n                raise ValueError(str(self.dim) + \" BC per face\")\n\n"
           "            for j in np.arange(faces.size):\n                s = cond[j]\n"
           "                if s.lower() == \"neu\":\n                    pass  # Neumann is already default\n"
           "                elif s.lower() == \"dir\":\n                    self.is_dir[:, faces[j]] = True\n"
           "                    self.is_neu[:, faces[j]] = False\n                    self.is_rob[:, faces[j]] = False\n"
           "                elif s.lower() == \"rob\":\n                    self.is_rob[:, faces[j]] = True\n"
           "                    self.is_neu[:, faces[j]] = False\n                    self.is_dir[:, faces[j]] = False\n"
           "                else:\n                    raise ValueError(f\"Unknown boundary condition {s}\")\n")

MUTANTS = [
    _m("revert-fix-internal-to-dirichlet-rob", "        self.is_rob[:, frac_face] = False\n", "", "R6", control=True),
    _m("revert-fix-vectorial-dir-keeps-rob",
       "                    self.is_neu[:, faces[j]] = False\n                    self.is_rob[:, faces[j]] = False\n                elif s.lower() == \"rob\":",
       "                    self.is_neu[:, faces[j]] = False\n                elif s.lower() == \"rob\":", "R3", control=True),
    _m("scalar-rob-keeps-dir", "                    self.is_dir[faces[ind]] = False\n                    self.is_neu[faces[ind]] = False\n                    self.is_rob[faces[ind]] = True\n",
       "                    self.is_neu[faces[ind]] = False\n                    self.is_rob[faces[ind]] = True\n", "R3"),
    _m("vectorial-rob-keeps-dir", "                    self.is_neu[:, faces[j]] = False\n                    self.is_dir[:, faces[j]] = False\n",
       "                    self.is_neu[:, faces[j]] = False\n", "R3"),
    _m("scalar-dir-clears-neu-on-loop-index", "                    self.is_dir[faces[ind]] = True\n                    self.is_neu[faces[ind]] = False\n",
       "                    self.is_dir[faces[ind]] = True\n                    self.is_neu[ind] = False\n", "R3"),
    _m("vectorial-rob-leaves-neu-true", "                    self.is_rob[:, faces[j]] = True\n                    self.is_neu[:, faces[j]] = False\n",
       "                    self.is_rob[:, faces[j]] = True\n                    self.is_neu[:, faces[j]] = True\n", "R3"),
    _m("vectorial-check-after-writes", _V_CHECK + _V_REST, _V_REST + _V_CHECK, "R2", control=True),
    _m("scalar-check-any-instead-of-all", "            if not np.all(np.isin(faces, self.bf)):\n                raise ValueError(\n                    \"Give boundary condition only on the \\\n",
       "            if not np.any(np.isin(faces, self.bf)):\n                raise ValueError(\n                    \"Give boundary condition only on the \\\n", "R2"),
    _m("vectorial-check-warns", "                raise ValueError(\"Give boundary condition only on the boundary.\")\n",
       "                warnings.warn(\"Give boundary condition only on the boundary.\")\n", "R2"),
    _m("scalar-mask-converted-after-check",
       "                faces = np.argwhere(faces)\n            if not np.all(np.isin(faces, self.bf)):\n                raise ValueError(\n                    \"Give boundary condition only on the \\\n                                 boundary\"\n                )\n",
       "            if not np.all(np.isin(faces, self.bf)):\n                raise ValueError(\n                    \"Give boundary condition only on the \\\n                                 boundary\"\n                )\n            if faces.dtype == bool:\n                faces = np.argwhere(faces)\n", "R2"),
    _m("scalar-default-all-faces", "        self.is_neu[self.bf] = True\n", "        self.is_neu[:] = True\n", "R1"),
    _m("scalar-boundary-without-fractures", "        self.bf: np.ndarray = sd.get_all_boundary_faces()\n", "        self.bf: np.ndarray = sd.get_boundary_faces()\n", "R1"),
    _m("vectorial-default-after-set-bc", "        self.is_neu[:, self.bf] = True\n        self.set_bc(faces, cond)\n",
       "        self.set_bc(faces, cond)\n        self.is_neu[:, self.bf] = True\n", "R1"),
    _m("vectorial-rob-starts-true", "        self.is_rob = np.zeros((sd.dim, self.num_faces), dtype=bool)\n", "        self.is_rob = np.ones((sd.dim, self.num_faces), dtype=bool)\n", "R1"),
    _m("vectorial-init-drops-cond", "        self.set_bc(faces, cond)\n", "        self.set_bc(faces, \"neu\")\n", "R1"),
    _m("scalar-unknown-keyword-warns", "                    raise ValueError(\"Boundary should be Dirichlet, Neumann or Robin\")\n",
       "                    warnings.warn(\"Boundary should be Dirichlet, Neumann or Robin\")\n", "R4"),
    _m("vectorial-unknown-keyword-ignored", "                    raise ValueError(f\"Unknown boundary condition {s}\")\n", "                    pass\n", "R4"),
    _m("vectorial-mask-not-converted", "                faces = np.argwhere(faces)\n\n            if not np.all(np.isin(faces, self.bf)):\n                raise ValueError(\"Give boundary condition only on the boundary.\")",
       "                pass\n\n            if not np.all(np.isin(faces, self.bf)):\n                raise ValueError(\"Give boundary condition only on the boundary.\")", "R5"),
    _m("scalar-dir-keeps-rob-sibling", "                    self.is_neu[faces[ind]] = False\n                    self.is_rob[faces[ind]] = False\n                elif s.lower() == \"rob\":",
       "                    self.is_neu[faces[ind]] = False\n                elif s.lower() == \"rob\":", "R5"),
]
