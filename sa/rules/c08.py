"""C08 - stored time-step / iterate histories behave as sliding windows.

Structural necessary conditions, decided on the AST / statement CFG of
`ad_utils.{set,get,shift}_solution_values`, the `EquationSystem` wrappers and the model
hooks that drive them:

R1  copy discipline (no aliasing between callers' arrays, stored slots and returned arrays)
W   who-may-write: slot stores into data[TIME_STEP_SOLUTIONS|ITERATE_SOLUTIONS][name][i]
    happen only in set_solution_values / shift_solution_values
R2  the in-place additive write is dominated by the membership test that raises
R3  shift direction, lower end and depth cap of the shift loop
R4  model depth pairing (time<->time_step_indices, iterate<->iterate_indices) and
    shift-before-write order in the hooks and at every shift call site in src/porepy
R5  index-kind wiring (location constant <-> index parameter) through the helper layers
"""
from __future__ import annotations

import ast
from typing import Optional

from ..core import cfg as cfgmod
from ..core.astutil import (u, dotted, walk_local, call_name, kwarg, arg_or_kw, find_assign,
                            single_assign_value, parent_map, assigned_targets, subst)
from ..core.loader import AnchorError, Undecided
from ..core.report import Ctx

AD_UTILS = "src/porepy/numerics/ad/ad_utils.py"
EQSYS = "src/porepy/numerics/ad/equation_system.py"
SOLSTRAT = "src/porepy/models/solution_strategy.py"
CONSTS = "src/porepy/utils/common_constants.py"
PKG = "src/porepy"

LOC_KIND = {"TIME_STEP_SOLUTIONS": "time", "ITERATE_SOLUTIONS": "iterate"}
KIND_INDEX_PARAM = {"time": "time_step_index", "iterate": "iterate_index"}
KIND_INDICES_ATTR = {"time": "time_step_indices", "iterate": "iterate_indices"}
OTHER = {"time": "iterate", "iterate": "time"}
ALLOWED_SLOT_WRITERS = {(AD_UTILS, "set_solution_values"), (AD_UTILS, "shift_solution_values")}

META = {
    "explanation": (
        "Static aliasing / dominance / direction analysis of the solution-history storage. "
        "R1: every value stored into a history slot and every value handed out by get_solution_values / "
        "EquationSystem.get_variable_values is a fresh object (.copy(), np.array, arithmetic, concatenate), decided "
        "by a small freshness table over the expression after inlining single-assignment locals. "
        "W: a sweep over all of src/porepy classifies every subscript store / del / mutating dict call / dict literal "
        "whose target chain passes through pp.TIME_STEP_SOLUTIONS or pp.ITERATE_SOLUTIONS: slot-level writes occur only "
        "in ad_utils.set_solution_values and shift_solution_values, anything else may only create an empty dict. "
        "R2: on the statement CFG the in-place `+=` on a slot is reachable from the `index not in data[loc][name]` test "
        "only through the arm that does not raise, the test dominates it, and `+=`/`=` sit on the additive/non-additive "
        "side of the flag. R3: the shift loop copies slot i from slot i-1, iterates with step -1 down to slot 1, and "
        "its start is exactly num_stored (growing / uncapped arms) resp. max_index-1 (capped arm), by linear-form "
        "comparison of the range() arguments under the enclosing branch conditions. R4: the model hooks pass "
        "len(self.time_step_indices) to the time shift and len(self.iterate_indices) to the iterate shift and the "
        "shift dominates (and is post-dominated by) the write to index 0; the same kind pairing and "
        "order is checked at every shift call site of src/porepy. R5: location constants are paired with the index parameter of "
        "the same kind in _validate_indices and forwarded name-to-name through the EquationSystem wrappers. "
        "Not decided: the sliding-window equality for concrete interleavings of set/shift/get, contiguity of the "
        "stored index set, and aliasing created by callers that read the data dictionary directly."),
    "rule_text": "one obligation per (slot store | returned value | store site in src/porepy | additive write | "
                 "range definition of the shift loop | shift call site | forwarded index argument)",
    "trusted_base": ["python ast", "sa.core (loader, astutil, cfg)", "numpy copy semantics table (copy/array/arithmetic "
                     "are fresh; names, subscripts, asarray, ravel, reshape are aliases or views)"],
    "assumptions": ["history locations are referred to through pp.TIME_STEP_SOLUTIONS / pp.ITERATE_SOLUTIONS (or their "
                    "string values) inside the function that writes them; a writer reaching the slots through an opaque "
                    "alias of data[loc][name] passed in from elsewhere is not seen",
                    "dict iteration / len(data[loc][name]) reflects a contiguous index set 0..n-1"],
    "technique": "AST dataflow (freshness table, def-use inlining) + statement-CFG dominance + linear-form comparison",
}
MIN_INSTANCES = {"R1": 4, "W": 6, "R2": 3, "R3": 8, "R4": 20, "R5": 12}


# ------------------------------------------------------------------ generic helpers

def _header_roots(s: ast.AST) -> list[ast.AST]:
    """Expression roots evaluated at the CFG node that stands for statement s."""
    if isinstance(s, (ast.If, ast.While)):
        return [s.test]
    if isinstance(s, (ast.For, ast.AsyncFor)):
        return [s.iter]
    if isinstance(s, (ast.With, ast.AsyncWith)):
        return [i.context_expr for i in s.items]
    if isinstance(s, ast.Match):
        return [s.subject]
    if isinstance(s, (ast.match_case, ast.ExceptHandler, ast.FunctionDef, ast.AsyncFunctionDef, ast.ClassDef)):
        return []
    return [s]


def _calls_at(g: cfgmod.CFG, n: int) -> list[ast.Call]:
    out = []
    for r in _header_roots(g.stmt[n]):
        out += [c for c in walk_local(r) if isinstance(c, ast.Call)]
    return out


def _call_nodes(g: cfgmod.CFG, pred) -> list[tuple[int, ast.Call]]:
    out = []
    for n in sorted(g.stmt):
        for c in _calls_at(g, n):
            if pred(c):
                out.append((n, c))
    return out


def _resolve(fn: ast.AST, e: ast.expr, depth: int = 6) -> ast.expr:
    """Follow single-assignment locals: `v = expr; ... v` -> expr."""
    for _ in range(depth):
        if isinstance(e, ast.Name):
            v = single_assign_value(fn, e.id)
            if v is None:
                return e
            e = v
        else:
            return e
    return e


def _params(fn: ast.FunctionDef) -> list[str]:
    a = fn.args
    return [x.arg for x in a.posonlyargs + a.args]


def _callee_arg(call: ast.Call, callee_params: list[str], name: str, skip_self: bool = False) -> Optional[ast.expr]:
    ps = [p for p in callee_params if not (skip_self and p == "self")]
    if name not in ps:
        return None
    return arg_or_kw(call, ps.index(name), name)


def _path_conds(pm: dict, stmt: ast.AST, stop: ast.AST) -> list[tuple[ast.expr, bool]]:
    """(test, polarity) of the enclosing if-statements of stmt inside function `stop`."""
    out = []
    cur = stmt
    while cur is not stop and cur in pm:
        par = pm[cur]
        if isinstance(par, ast.If):
            if any(cur is s for s in par.body):
                out.append((par.test, True))
            elif any(cur is s for s in par.orelse):
                out.append((par.test, False))
        cur = par
    return out


def _ev(e: ast.expr, env: dict[str, bool]) -> Optional[bool]:
    """Three-valued evaluation of a test over the atoms in env (keys are unparsed atoms)."""
    t = u(e)
    if t in env:
        return env[t]
    if isinstance(e, ast.Constant) and isinstance(e.value, bool):
        return e.value
    if isinstance(e, ast.UnaryOp) and isinstance(e.op, ast.Not):
        v = _ev(e.operand, env)
        return None if v is None else (not v)
    if isinstance(e, ast.BoolOp):
        vals = [_ev(v, env) for v in e.values]
        if isinstance(e.op, ast.And):
            if any(v is False for v in vals):
                return False
            return True if all(v is True for v in vals) else None
        if any(v is True for v in vals):
            return True
        return False if all(v is False for v in vals) else None
    return None


# ------------------------------------------------------------------ location constants / chains

class _Loc:
    def __init__(self, ctx: Ctx):
        mod = ctx.repo.module(CONSTS)
        self.values: dict[str, str] = {}
        for s in mod.tree.body:
            if isinstance(s, ast.Assign) and len(s.targets) == 1 and isinstance(s.targets[0], ast.Name) \
                    and s.targets[0].id in LOC_KIND and isinstance(s.value, ast.Constant) and isinstance(s.value.value, str):
                self.values[s.value.value] = LOC_KIND[s.targets[0].id]
        if len(self.values) != 2:
            raise AnchorError(f"{CONSTS}: TIME_STEP_SOLUTIONS / ITERATE_SOLUTIONS string constants not found")

    def kind(self, e: ast.AST) -> Optional[str]:
        d = dotted(e)
        if d is not None and d.split(".")[-1] in LOC_KIND:
            return LOC_KIND[d.split(".")[-1]]
        if isinstance(e, ast.Constant) and isinstance(e.value, str) and e.value in self.values:
            return self.values[e.value]
        return None

    def is_loc_collection(self, e: ast.AST) -> bool:
        return isinstance(e, (ast.List, ast.Tuple, ast.Set)) and bool(e.elts) and all(self.kind(x) for x in e.elts)

    def loc_names(self, scope: ast.AST, extra: Optional[set] = None) -> set[str]:
        """Local names that hold a location key inside `scope` (a function or module).  `extra`: parameters
        known to receive a location key from a caller in the same module."""
        names: set[str] = set(extra or ())
        vi: set[str] = set()  # names holding the result of _validate_indices(...)
        for n in walk_local(scope):
            if isinstance(n, ast.Assign) and isinstance(n.value, ast.Call) and call_name(n.value) == "_validate_indices":
                vi |= {t.id for t in n.targets if isinstance(t, ast.Name)}
        for n in walk_local(scope):
            if isinstance(n, (ast.For, ast.AsyncFor, ast.comprehension)):
                if isinstance(n.target, ast.Name) and self.is_loc_collection(n.iter):
                    names.add(n.target.id)
                from_vi = (isinstance(n.iter, ast.Name) and n.iter.id in vi) or (
                    isinstance(n.iter, ast.Call) and call_name(n.iter) == "_validate_indices")
                if isinstance(n.target, ast.Tuple) and n.target.elts and isinstance(n.target.elts[0], ast.Name) and from_vi:
                    names.add(n.target.elts[0].id)
            elif isinstance(n, ast.Assign):
                if self.kind(n.value):
                    names |= {t.id for t in n.targets if isinstance(t, ast.Name)}
                if isinstance(n.value, ast.Subscript) and isinstance(n.value.value, ast.Name) and n.value.value.id in vi:
                    for t in n.targets:
                        if isinstance(t, ast.Tuple) and t.elts and isinstance(t.elts[0], ast.Name):
                            names.add(t.elts[0].id)
                if isinstance(n.value, ast.Name) and n.value.id in vi:
                    # ((loc, index),) = pairs
                    for t in n.targets:
                        if isinstance(t, (ast.Tuple, ast.List)) and len(t.elts) == 1 and isinstance(t.elts[0], (ast.Tuple, ast.List)) \
                                and t.elts[0].elts and isinstance(t.elts[0].elts[0], ast.Name):
                            names.add(t.elts[0].elts[0].id)
            elif isinstance(n, ast.Compare) and isinstance(n.left, ast.Name) and len(n.ops) == 1:
                c = n.comparators[0]
                if isinstance(n.ops[0], (ast.In, ast.NotIn)) and self.is_loc_collection(c):
                    names.add(n.left.id)
                if isinstance(n.ops[0], (ast.Eq, ast.NotEq)) and self.kind(c):
                    names.add(n.left.id)
        return names


def _helpers_of(mod) -> dict[str, ast.FunctionDef]:
    """Module-level accessor helpers: functions with exactly one `return <subscript chain>` (e.g. a private
    `_solution_storage(name, data, loc)` returning data[loc][name])."""
    out = {}
    for f in mod.tree.body:
        if isinstance(f, ast.FunctionDef):
            rets = [r for r in walk_local(f) if isinstance(r, ast.Return)]
            if len(rets) == 1 and isinstance(rets[0].value, ast.Subscript):
                out[f.name] = f
    return out


def _bind(call: ast.Call, fn: ast.FunctionDef, skip_self: bool = False, fill_defaults: bool = False) -> Optional[dict[str, ast.expr]]:
    """Parameter -> argument expression of a call (None if it cannot be bound statically)."""
    ps = [p for p in _params(fn) if not (skip_self and p == "self")]
    ps_all = ps + [a.arg for a in fn.args.kwonlyargs]
    if any(isinstance(a, ast.Starred) for a in call.args) or any(k.arg is None for k in call.keywords):
        return None
    if len(call.args) > len(ps):
        return None
    m = {p: a for p, a in zip(ps, call.args)}
    for k in call.keywords:
        if k.arg not in ps_all or k.arg in m:
            return None
        m[k.arg] = k.value
    if fill_defaults:
        pos = _params(fn)
        for pname, dflt in zip(pos[len(pos) - len(fn.args.defaults):], fn.args.defaults):
            m.setdefault(pname, dflt)
        for a, dflt in zip(fn.args.kwonlyargs, fn.args.kw_defaults):
            if dflt is not None:
                m.setdefault(a.arg, dflt)
    return m


def _inline_helper(call: ast.Call, helpers: Optional[dict]) -> Optional[ast.expr]:
    if not helpers or not isinstance(call.func, ast.Name) or call.func.id not in helpers:
        return None
    f = helpers[call.func.id]
    m = _bind(call, f)
    if m is None or set(_params(f)) - set(m):
        return None
    ret = [r for r in walk_local(f) if isinstance(r, ast.Return)][0]
    return subst(ret.value, m)  # type: ignore[return-value]


def _aliases(scope: ast.AST, helpers: Optional[dict] = None) -> dict[str, ast.Subscript]:
    """Local names assigned exactly once, from a subscript expression (`h = data[loc][name]`) or from a call of an
    accessor helper of the same module that returns one (inlined with its arguments bound)."""
    count: dict[str, int] = {}
    val: dict[str, ast.AST] = {}
    for n in walk_local(scope):
        if isinstance(n, ast.stmt) and n is not scope:
            for t in assigned_targets(n):
                if isinstance(t, ast.Name):
                    count[t.id] = count.get(t.id, 0) + 1
                    if isinstance(n, ast.Assign) and len(n.targets) == 1 and n.targets[0] is t:
                        v = n.value
                        if isinstance(v, ast.Call):
                            v = _inline_helper(v, helpers) or v
                        val[t.id] = v
        elif isinstance(n, ast.NamedExpr) and isinstance(n.target, ast.Name):
            count[n.target.id] = count.get(n.target.id, 0) + 2
    return {k: v for k, v in val.items() if count.get(k) == 1 and isinstance(v, ast.Subscript)}


def _chain(e: ast.AST, aliases: Optional[dict] = None) -> tuple[ast.AST, list[ast.expr]]:
    """`b[s0][s1][s2]` -> (b, [s0, s1, s2]).  With `aliases` (see _aliases), a base name that is a
    single-assignment alias of another chain (`h = data[loc][name]; h[i]`) is expanded."""
    sl: list[ast.expr] = []
    for _ in range(4):
        part = []
        while isinstance(e, ast.Subscript):
            part.append(e.slice)
            e = e.value
        sl = list(reversed(part)) + sl
        if aliases and isinstance(e, ast.Name) and e.id in aliases:
            e = aliases[e.id]
            continue
        break
    return e, sl


def _depth_after_loc(loc: _Loc, e: ast.AST, locnames: set[str], aliases: Optional[dict] = None) -> Optional[int]:
    """Number of subscripts after the location key in a chain, None if no location key."""
    base, sl = _chain(e, aliases)
    for i, s in enumerate(sl):
        if loc.kind(s) or (isinstance(s, ast.Name) and s.id in locnames):
            return len(sl) - 1 - i
    return None


def _is_empty_dict(e: Optional[ast.AST]) -> bool:
    if isinstance(e, ast.Dict) and not e.keys:
        return True
    return isinstance(e, ast.Call) and call_name(e) in ("dict", "defaultdict", "OrderedDict") and not e.args and not e.keywords


# ------------------------------------------------------------------ R1: freshness

FRESH_METHODS = {"copy", "flatten", "astype", "tolist", "toarray", "todense"}
ALIAS_METHODS = {"ravel", "reshape", "view", "squeeze", "transpose", "swapaxes", "get", "pop", "setdefault", "item"}
FRESH_FUNCS = {"array", "copy", "deepcopy", "zeros", "ones", "empty", "full", "zeros_like", "ones_like", "empty_like",
               "full_like", "concatenate", "hstack", "vstack", "stack", "arange", "tile", "repeat"}
ALIAS_FUNCS = {"asarray", "asanyarray", "ascontiguousarray", "atleast_1d", "atleast_2d", "ravel", "reshape", "squeeze",
               "transpose", "broadcast_to"}


def _fresh(e: ast.expr) -> Optional[bool]:
    """True: a new object independent of its operands; False: an alias / view; None: unknown."""
    if isinstance(e, (ast.Name, ast.Attribute, ast.Subscript, ast.Starred)):
        return False  # the object itself, or a numpy view of it
    if isinstance(e, (ast.BinOp, ast.UnaryOp)):
        return True  # numpy arithmetic allocates its result
    if isinstance(e, ast.IfExp):
        a, b = _fresh(e.body), _fresh(e.orelse)
        if a is False or b is False:
            return False
        return True if (a and b) else None
    if isinstance(e, ast.Call):
        if isinstance(e.func, ast.Attribute) and dotted(e.func.value) not in ("np", "numpy", "copy", "sps"):
            if e.func.attr in FRESH_METHODS:
                cp = kwarg(e, "copy")
                if cp is not None and isinstance(cp, ast.Constant) and cp.value is False:
                    return False
                return True
            if e.func.attr in ALIAS_METHODS:
                return False
            return None
        nm = call_name(e)
        if nm in FRESH_FUNCS:
            cp = kwarg(e, "copy")
            if cp is not None and not (isinstance(cp, ast.Constant) and cp.value is True):
                return False
            return True
        if nm in ALIAS_FUNCS:
            return False
    return None


def _slot_stores(fn: ast.FunctionDef, data_name: str, helpers: Optional[dict] = None) -> list[tuple[ast.stmt, ast.Subscript]]:
    """Assign / AugAssign statements of fn whose target is data[a][b][c]."""
    out = []
    al = _aliases(fn, helpers)
    for s in walk_local(fn):
        if isinstance(s, (ast.Assign, ast.AugAssign, ast.AnnAssign)):
            for t in assigned_targets(s):
                base, sl = _chain(t, al)
                if isinstance(t, ast.Subscript) and isinstance(base, ast.Name) and base.id == data_name and len(sl) == 3:
                    out.append((s, t))
    return out


def _slot_reads(e: ast.AST, data_name: str, aliases: Optional[dict]) -> list[tuple[ast.AST, list[ast.expr]]]:
    """(node, [loc, name, index]) for every outermost read of a slot data[a][b][c] in e (aliases expanded)."""
    out = []
    stack = [e]
    while stack:
        n = stack.pop()
        if isinstance(n, (ast.Subscript, ast.Name)):
            base, sl = _chain(n, aliases)
            if isinstance(base, ast.Name) and base.id == data_name and len(sl) == 3:
                out.append((n, sl))
                continue
        stack.extend(ast.iter_child_nodes(n))
    return out


def _has_slot_read(e: ast.AST, data_name: str, scope: Optional[ast.AST] = None, helpers: Optional[dict] = None) -> bool:
    return bool(_slot_reads(e, data_name, _aliases(scope, helpers) if scope is not None else None))


def _ckey(e: ast.AST, al: Optional[dict]) -> tuple:
    """Alias-independent identity of a container / slot expression."""
    base, sl = _chain(e, al)
    return (u(base), tuple(u(x) for x in sl))


def _need_param(fn: ast.FunctionDef, name: str, rel: str) -> str:
    if name not in _params(fn):
        raise AnchorError(f"{rel}:{fn.name}: parameter `{name}` not found")
    return name


def _rule_copy(ctx: Ctx, adu, eqs) -> None:
    setter = adu.func("set_solution_values")
    getter = adu.func("get_solution_values")
    shifter = adu.func("shift_solution_values")
    helpers = _helpers_of(adu)
    # -- stores
    n_plain = 0
    for fn in (setter, shifter):
        data = _need_param(fn, "data", AD_UTILS)
        for s, t in _slot_stores(fn, data, helpers):
            if not isinstance(s, ast.Assign):
                continue  # `+=` mutates the stored array in place and only reads the operand
            n_plain += 1
            rhs = _resolve(fn, s.value)
            fr = _fresh(rhs)
            if fr is None:
                raise Undecided(f"{AD_UTILS}:{fn.name}: cannot classify freshness of `{u(rhs)}` stored into a history slot")
            ctx.check("R1", fr, adu, fn.name, s,
                      "value stored into a history slot is not a fresh object: the slot would alias the caller's array "
                      "(or a neighbouring slot), so a later in-place write changes both",
                      construct=f"{u(t)} = {u(rhs)}", facts={"rhs": u(rhs), "fresh": fr})
            ctx.sample({"rule": "R1", "function": fn.name, "store": u(t), "rhs": u(rhs), "fresh": fr})
    if n_plain < 2:
        raise AnchorError(f"{AD_UTILS}: expected a plain slot store in set_solution_values and in shift_solution_values")
    # -- getter
    data = _need_param(getter, "data", AD_UTILS)
    rets = [r for r in walk_local(getter) if isinstance(r, ast.Return)]
    if not rets:
        raise AnchorError(f"{AD_UTILS}:get_solution_values has no return")
    for r in rets:
        if r.value is None:
            raise Undecided(f"{AD_UTILS}:get_solution_values: bare return")
        if isinstance(r.value, ast.Name):
            defs = find_assign(getter, r.value.id)
            vals = [d.value for d in defs if isinstance(d, (ast.Assign, ast.AnnAssign)) and d.value is not None]
            if not vals or len(vals) != len(defs):
                raise Undecided(f"{AD_UTILS}:get_solution_values: returned name `{r.value.id}` has an unrecognised definition")
        else:
            vals = [r.value]
        for v in vals:
            v = _resolve(getter, v)
            fr = _fresh(v)
            if fr is None or (fr and not _has_slot_read(v, data, getter, helpers)):
                raise Undecided(f"{AD_UTILS}:get_solution_values: cannot relate returned `{u(v)}` to the stored slot")
            ctx.check("R1", fr, adu, "get_solution_values", r,
                      "get_solution_values hands out the stored array itself: a later additive write or shift alters what "
                      "the caller holds (and the caller can alter the history)",
                      construct=f"return {u(v)}", facts={"returned": u(v), "fresh": fr})
            ctx.sample({"rule": "R1", "function": "get_solution_values", "returned": u(v), "fresh": fr})
    # -- EquationSystem.get_variable_values
    gvv = eqs.func("EquationSystem.get_variable_values")
    rets = [r for r in walk_local(gvv) if isinstance(r, ast.Return) and r.value is not None]
    if not rets:
        raise AnchorError(f"{EQSYS}:EquationSystem.get_variable_values has no return value")
    for r in rets:
        v = _resolve(gvv, r.value)
        fr = _fresh(v)
        if fr is None:
            raise Undecided(f"{EQSYS}:get_variable_values: cannot classify freshness of `{u(v)}`")
        ctx.check("R1", fr, eqs, "EquationSystem.get_variable_values", r,
                  "get_variable_values returns an object that may alias stored values",
                  construct=f"return {u(v)}", facts={"returned": u(v)})


# ------------------------------------------------------------------ W: who may write

MUTATORS = {"pop", "popitem", "clear", "update", "setdefault", "__setitem__", "__delitem__"}


def _store_sites(loc: _Loc, scope: ast.AST, extra: Optional[set] = None, helpers: Optional[dict] = None):
    """Yield (node, how, depth, value) for stores through a location key inside scope.
    depth = number of subscripts after the location key of the *entry* that is written
    (0: data[LOC] itself, 1: data[LOC][name], 2: a slot)."""
    names = loc.loc_names(scope, extra)
    al = _aliases(scope, helpers)
    for n in walk_local(scope):
        if isinstance(n, (ast.Assign, ast.AugAssign, ast.AnnAssign)):
            for t in assigned_targets(n):
                d = _depth_after_loc(loc, t, names, al) if isinstance(t, ast.Subscript) else None
                if d is not None:
                    how = "augassign" if isinstance(n, ast.AugAssign) else "assign"
                    yield n, how, d, getattr(n, "value", None), t
        elif isinstance(n, ast.Delete):
            for t in n.targets:
                d = _depth_after_loc(loc, t, names, al) if isinstance(t, ast.Subscript) else None
                if d is not None:
                    yield n, "del", d, None, t
        elif isinstance(n, ast.Call) and isinstance(n.func, ast.Attribute) and n.func.attr in MUTATORS:
            recv = n.func.value
            d = _depth_after_loc(loc, recv, names, al) if isinstance(recv, (ast.Subscript, ast.Name)) else None
            if d is not None:
                # the receiver is the container at depth d; its entries are at depth d + 1
                val = None
                if n.func.attr == "setdefault" and len(n.args) == 2:
                    val = n.args[1]
                yield n, f"call:{n.func.attr}", d + 1, val, recv
        elif isinstance(n, ast.Dict):
            for k, v in zip(n.keys, n.values):
                if k is not None and loc.kind(k):
                    inner_nonempty = isinstance(v, ast.Dict) and any(
                        not _is_empty_dict(x) for x in v.values)
                    if _is_empty_dict(v) or (isinstance(v, ast.Dict) and not inner_nonempty):
                        yield n, "dict-literal", 0, ast.Dict(keys=[], values=[]), k
                    else:
                        yield n, "dict-literal", 2, v, k


def _rule_who_may_write(ctx: Ctx, loc: _Loc) -> None:
    tokens = list(LOC_KIND) + list(loc.values)
    n_files = 0
    for rel in ctx.repo.all_py(PKG):
        # performance pre-filter only: a file that never mentions the two constants (by name or
        # by value) cannot contain a chain through them
        src = ctx.repo.read(rel)
        if not any(t in src for t in tokens):
            continue
        n_files += 1
        mod = ctx.repo.module(rel)
        # scopes that mention a location key (or unpack _validate_indices): only these can hold a chain
        hits = [n.lineno for n in ast.walk(mod.tree) if hasattr(n, "lineno") and (
            loc.kind(n) or getattr(n, "id", None) == "_validate_indices" or getattr(n, "attr", None) == "_validate_indices")]
        scopes: list[tuple[str, ast.AST]] = [("<module>", mod.tree)]
        quals = mod.qualnames()
        scopes += [(q, n) for q, n in quals.items()
                   if any(n.lineno <= h <= (n.end_lineno or n.lineno) for h in hits)]
        helpers = _helpers_of(mod)
        # location keys handed to a function / method of the same module: its parameter holds a location key too
        extra: dict[str, set] = {}
        for _ in range(2):
            for q, scope in list(scopes):
                names = loc.loc_names(scope, extra.get(q))
                for c in walk_local(scope):
                    if not isinstance(c, ast.Call):
                        continue
                    if isinstance(c.func, ast.Name):
                        cq, skip = c.func.id, False
                    elif isinstance(c.func, ast.Attribute) and u(c.func.value) == "self" and "." in q:
                        cq, skip = q.rsplit(".", 1)[0] + "." + c.func.attr, True
                    else:
                        continue
                    callee = quals.get(cq)
                    if not isinstance(callee, ast.FunctionDef):
                        continue
                    m = _bind(c, callee, skip_self=skip)
                    for pname, a in (m or {}).items():
                        if loc.kind(a) or (isinstance(a, ast.Name) and a.id in names):
                            if pname not in extra.setdefault(cq, set()):
                                extra[cq].add(pname)
                            if all(cq != q2 for q2, _ in scopes):
                                scopes.append((cq, callee))
        for q, scope in scopes:
            for node, how, depth, val, tgt in _store_sites(loc, scope, extra.get(q), helpers):
                stmt_txt = f"{how} {u(tgt)}" + (f" <- {u(val)}" if val is not None else "")
                if depth >= 2:
                    ok = (rel, q) in ALLOWED_SLOT_WRITERS and how in ("assign", "augassign")
                    msg = ("history slot written outside ad_utils.set_solution_values / shift_solution_values: bypasses the "
                           "copy-on-store, the additive guard and the shift discipline")
                elif how in ("assign", "call:setdefault", "dict-literal"):
                    ok = _is_empty_dict(val) or (rel, q) in ALLOWED_SLOT_WRITERS
                    msg = ("a whole history container is replaced by something other than an empty dict outside the "
                           "storage helpers")
                else:
                    ok = False
                    msg = f"history container removed / mutated ({how}) outside the storage helpers"
                ctx.check("W", ok, rel, q, node, msg, construct=stmt_txt,
                          facts={"how": how, "depth_after_location_key": depth})
                ctx.sample({"rule": "W", "file": rel, "function": q, "site": stmt_txt, "depth": depth, "allowed": ok})
    ctx.note(f"W: {n_files} files mention the history location keys and were parsed for store sites")
    if ctx.tier == "thorough":
        # direct slot *reads* outside ad_utils hand out the stored object (reported as notes only)
        for rel in ctx.repo.all_py(PKG):
            src = ctx.repo.read(rel)
            if rel == AD_UTILS or not any(t in src for t in tokens):
                continue
            mod = ctx.repo.module(rel)
            for q, fn in mod.functions():
                names = loc.loc_names(fn)
                for n in walk_local(fn):
                    if isinstance(n, ast.Subscript) and isinstance(n.ctx, ast.Load) and _depth_after_loc(loc, n, names) == 2:
                        ctx.note(f"direct (uncopied) slot read {rel}:{q}: {u(n)}")
                    if isinstance(n, ast.Call) and call_name(n) == "get" and any(loc.kind(a) for a in n.args):
                        ctx.note(f"direct .get() on a history location {rel}:{q}: {u(n)[:80]}")


# ------------------------------------------------------------------ R2: guard dominance

def _rule_guard(ctx: Ctx, adu) -> None:
    fn = adu.func("set_solution_values")
    data = _need_param(fn, "data", AD_UTILS)
    flag = _need_param(fn, "additive", AD_UTILS)
    g = cfgmod.build(fn)
    helpers = _helpers_of(adu)
    al = _aliases(fn, helpers)
    stores = _slot_stores(fn, data, helpers)
    r_add, r_ovw = _reach(g, {flag: True}), _reach(g, {flag: False})
    augs = [(s, t) for s, t in stores if isinstance(s, ast.AugAssign)]
    plains = [(s, t) for s, t in stores if isinstance(s, ast.Assign)]
    if not augs:
        raise AnchorError(f"{AD_UTILS}:set_solution_values: no in-place additive slot write found")
    if not plains:
        raise AnchorError(f"{AD_UTILS}:set_solution_values: no overwriting slot store found")
    for s, t in augs:
        if not isinstance(s.op, ast.Add):
            raise Undecided(f"{AD_UTILS}:set_solution_values: in-place slot update is not `+=`")
        cont, idx = _ckey(t.value, al), u(t.slice)
        an = g.node_for(s)
        guarded = False
        tests = []
        for tn in g.nodes_of(lambda x: isinstance(x, ast.If)):
            test = g.stmt[tn].test
            if not (isinstance(test, ast.Compare) and len(test.ops) == 1 and isinstance(test.ops[0], (ast.In, ast.NotIn))
                    and u(test.left) == idx and _ckey(test.comparators[0], al) == cont):
                continue
            tests.append(u(test))
            missing_edge = isinstance(test.ops[0], ast.NotIn)  # edge label on which the key is missing
            succ_missing = [m for m in g.g.successors(tn) if g.g.edges[tn, m].get("cond") in (missing_edge, None)]
            # every path test -> `+=` that does not re-evaluate the test leaves through the "present" edge,
            # and the "missing" arm never returns normally
            leaks = any(m == an or g.reachable(m, an, avoiding=frozenset({tn})) for m in succ_missing)
            returns = any(m == cfgmod.EXIT or g.reachable(m, cfgmod.EXIT, avoiding=frozenset({tn})) for m in succ_missing)
            if g.dominates(tn, an) and not leaks and not returns:
                guarded = True
        ctx.check("R2", guarded, adu, "set_solution_values", s,
                  "in-place additive write to a slot is not dominated by the `index not in data[loc][name]` -> raise test: "
                  "adding to an empty slot is no longer rejected with the documented ValueError",
                  construct=f"{u(t)} += ... guarded by membership test of the same key",
                  facts={"slot": u(t), "membership_tests_found": tests})
        # polarity w.r.t. the flag (feasibility on the CFG, so nested-if and guard-continue forms are the same)
        ok = an in r_add and an not in r_ovw
        ctx.check("R2", ok, adu, "set_solution_values", s,
                  "the in-place `+=` must be reachable exactly when additive is true",
                  construct=f"{u(t)} += ... under additive", facts={"reachable_if_additive": an in r_add, "reachable_if_not": an in r_ovw})
    raises = g.nodes_of(lambda x: isinstance(x, ast.Raise))
    late = [(u(t), u(g.stmt[r].exc)[:50] if g.stmt[r].exc is not None else "raise") for s, t in stores for r in raises
            if g.reachable(g.node_for(s), r)]
    if late:
        ctx.note("set_solution_values: an explicit raise is reachable after a slot has already been written (loop over "
                 "(location, index) pairs): a rejected call can leave a partial write, e.g. additive=True with both indices "
                 f"given and only the first slot present: {late[:2]}")
    for s, t in plains:
        pn = g.node_for(s)
        ok = pn in r_ovw and pn not in r_add
        ctx.check("R2", ok, adu, "set_solution_values", s,
                  "the overwriting store must be reachable exactly when additive is false",
                  construct=f"{u(t)} = ... under not additive", facts={"reachable_if_additive": pn in r_add, "reachable_if_not": pn in r_ovw})


def _neg(v: Optional[bool]) -> Optional[bool]:
    return None if v is None else (not v)


def _reach(g: cfgmod.CFG, env: dict[str, bool], start: int = cfgmod.ENTRY) -> set[int]:
    """CFG nodes reachable from start along edges that do not contradict env (three-valued branch tests)."""
    seen = {start}
    stack = [start]
    while stack:
        n = stack.pop()
        st = g.stmt.get(n)
        v = _ev(st.test, env) if isinstance(st, (ast.If, ast.While)) else None
        for m in g.g.successors(n):
            c = g.g.edges[n, m].get("cond")
            if v is not None and c is not None and c != v:
                continue
            if m not in seen:
                seen.add(m)
                stack.append(m)
    return seen


# ------------------------------------------------------------------ R3: shift direction / cap

def _lin(e: ast.expr, syms: set[str]) -> Optional[dict]:
    """Linear form {sym: coef, 1: const} over integer constants and the given names."""
    if isinstance(e, ast.Constant) and isinstance(e.value, int) and not isinstance(e.value, bool):
        return {1: e.value}
    if isinstance(e, ast.Name) and e.id in syms:
        return {e.id: 1}
    if isinstance(e, ast.UnaryOp) and isinstance(e.op, ast.USub):
        a = _lin(e.operand, syms)
        return None if a is None else {k: -v for k, v in a.items()}
    if isinstance(e, ast.BinOp) and isinstance(e.op, (ast.Add, ast.Sub)):
        a, b = _lin(e.left, syms), _lin(e.right, syms)
        if a is None or b is None:
            return None
        out = dict(a)
        for k, v in b.items():
            out[k] = out.get(k, 0) + (v if isinstance(e.op, ast.Add) else -v)
        return out
    return None


def _min_forms(e: ast.expr, syms: set[str]) -> Optional[list[dict]]:
    """Alternatives of `min(x, y) + c` (two linear forms) or of a plain linear form (one)."""
    if isinstance(e, ast.Call) and call_name(e) == "min" and len(e.args) == 2 and not e.keywords:
        fs = [_lin(x, syms) for x in e.args]
        return None if None in fs else fs
    if isinstance(e, ast.BinOp) and isinstance(e.op, (ast.Add, ast.Sub)):
        c = _lin(e.right, set())
        inner = _min_forms(e.left, syms)
        if c is not None and inner is not None:
            k = c.get(1, 0) if isinstance(e.op, ast.Add) else -c.get(1, 0)
            return [_lin_add(f, k) for f in inner]
    f = _lin(e, syms)
    return None if f is None else [f]


def _lin_eq(a: dict, b: dict) -> bool:
    keys = set(a) | set(b)
    return all(a.get(k, 0) == b.get(k, 0) for k in keys)


def _lin_add(a: dict, c: int) -> dict:
    out = dict(a)
    out[1] = out.get(1, 0) + c
    return out


def _thresh(test: ast.expr, M: str, N: str) -> Optional[tuple[int, bool]]:
    """(k, sense): test is equivalent over the integers to `M - N >= k` (sense True) or to its negation
    `M - N <= k - 1` (sense False); None if test is not a linear comparison of M and N."""
    if not (isinstance(test, ast.Compare) and len(test.ops) == 1):
        return None
    l, r = _lin(test.left, {M, N}), _lin(test.comparators[0], {M, N})
    if l is None or r is None:
        return None
    d = {k: l.get(k, 0) - r.get(k, 0) for k in set(l) | set(r)}
    op = type(test.ops[0])
    if d.get(M, 0) == -1 and d.get(N, 0) == 1:
        d = {k: -v for k, v in d.items()}
        op = {ast.Gt: ast.Lt, ast.GtE: ast.LtE, ast.Lt: ast.Gt, ast.LtE: ast.GtE}.get(op, op)
    if not (d.get(M, 0) == 1 and d.get(N, 0) == -1):
        return None
    c = d.get(1, 0)
    # d = M - N + c
    if op is ast.Gt:
        return 1 - c, True
    if op is ast.GtE:
        return -c, True
    if op is ast.Lt:
        return -c, False
    if op is ast.LtE:
        return 1 - c, False
    return None


def _none_test(test: ast.expr, M: str) -> Optional[bool]:
    """True if test says `M is not None`, False if `M is None`."""
    if isinstance(test, ast.Compare) and len(test.ops) == 1 and u(test.left) == M \
            and isinstance(test.comparators[0], ast.Constant) and test.comparators[0].value is None:
        if isinstance(test.ops[0], (ast.IsNot, ast.NotEq)):
            return True
        if isinstance(test.ops[0], (ast.Is, ast.Eq)):
            return False
    return None


def _rule_shift(ctx: Ctx, adu) -> None:
    fn = adu.func("shift_solution_values")
    q = "shift_solution_values"
    data = _need_param(fn, "data", AD_UTILS)
    M = _need_param(fn, "max_index", AD_UTILS)
    pm = parent_map(fn)
    stores = [(s, t) for s, t in _slot_stores(fn, data) if isinstance(s, ast.Assign)]
    if len(stores) != 1:
        raise Undecided(f"{AD_UTILS}:{q}: expected one slot store in a loop (found {len(stores)}); a rebuilt-dict form is "
                        "not recognised")
    s, t = stores[0]
    loop = pm.get(s)
    if not isinstance(loop, ast.For) or not isinstance(loop.target, ast.Name):
        raise Undecided(f"{AD_UTILS}:{q}: slot store is not directly inside a `for <name> in ...` loop")
    i = loop.target.id
    # source slot
    al = _aliases(fn)
    srcs = _slot_reads(s.value, data, al)
    if len(srcs) != 1:
        raise Undecided(f"{AD_UTILS}:{q}: right-hand side of the shift store does not read exactly one slot")
    src, ssl = srcs[0]
    _, tsl = _chain(t, al)
    same_container = [u(x) for x in ssl[:2]] == [u(x) for x in tsl[:2]]
    a, b = _lin(tsl[2], {i}), _lin(ssl[2], {i})
    if a is None or b is None or a.get(i) != 1 or b.get(i) != 1:
        raise Undecided(f"{AD_UTILS}:{q}: slot indices `{u(tsl[2])}` / `{u(ssl[2])}` are not of the form {i} + const")
    ta, sb = a.get(1, 0), b.get(1, 0)
    ctx.check("R3", same_container and ta - sb == 1, adu, q, s,
              "the shift must copy slot k-1 into slot k of the same history (values move one step back); "
              f"found target offset {ta}, source offset {sb}",
              construct=f"slot[{u(tsl[2])}] <- slot[{u(ssl[2])}]", facts={"target": u(t), "source": u(src), "loop_var": i})
    ctx.sample({"rule": "R3", "target": u(t), "source": u(src), "loop_var": i})
    # number of stored values
    N = None
    for st in walk_local(fn):
        if isinstance(st, ast.Assign) and len(st.targets) == 1 and isinstance(st.targets[0], ast.Name) \
                and isinstance(st.value, ast.Call) and call_name(st.value) == "len" and len(st.value.args) == 1 \
                and [u(x) for x in _chain(st.value.args[0], al)[1]] == [u(x) for x in tsl[:2]]:
            N = st.targets[0].id
    if N is None:
        raise Undecided(f"{AD_UTILS}:{q}: no `n = len(<history of the shifted name>)` definition found")
    # iterable definitions
    if isinstance(loop.iter, ast.Name):
        defs = find_assign(fn, loop.iter.id)
        rng = [(d, d.value) for d in defs if isinstance(d, ast.Assign)]
        if len(rng) != len(defs) or not rng:
            raise Undecided(f"{AD_UTILS}:{q}: unrecognised definition of loop iterable `{loop.iter.id}`")
    else:
        rng = [(loop, loop.iter)]
    # a start index held in a local that is assigned per branch (`last = ...` in an if/elif chain) is expanded
    # into one variant per assignment, classified by the branch conditions of that assignment
    variants = []
    for d, call in rng:
        if not (isinstance(call, ast.Call) and call_name(call) == "range" and not call.keywords and call.args):
            raise Undecided(f"{AD_UTILS}:{q}: loop iterable `{u(call)}` is not a range(...) call")
        conds0 = _path_conds(pm, d, fn)
        start_e = call.args[0]
        if len(call.args) >= 2 and isinstance(start_e, ast.Name) and start_e.id not in (M, N):
            sdefs = find_assign(fn, start_e.id)
            if sdefs and all(isinstance(x, ast.Assign) and len(x.targets) == 1 for x in sdefs):
                variants += [(sd, call, sd.value, _path_conds(pm, sd, fn) + conds0) for sd in sdefs]
                continue
        variants.append((d, call, start_e, conds0))
    for d, call, start_e, conds in variants:
        capped = None
        thr = None
        for test, pol in conds:
            nt = _none_test(test, M)
            if nt is not None:
                capped = nt if pol else (not nt)
            th = _thresh(test, M, N)
            if th is not None:
                thr = (th[0], th[1] if pol else (not th[1]))
        if capped is False:
            arm = "uncapped"
        elif thr is not None:
            arm = f"{M} - {N} >= {thr[0]}" if thr[1] else f"{M} - {N} <= {thr[0] - 1}"
        else:
            arm = None
        facts = {"range": u(call), "arm": arm, "conditions": [(u(tst), pol) for tst, pol in conds]}
        where = f"range({', '.join([u(start_e)] + [u(x) for x in call.args[1:]])}) in arm [{arm}]"
        step = call.args[2] if len(call.args) == 3 else None
        stepv = _lin(step, set()) if step is not None else {1: 1}
        if stepv is None or len(call.args) < 2:
            if len(call.args) < 2:
                stepv = {1: 1}
            else:
                raise Undecided(f"{AD_UTILS}:{q}: non-constant range step `{u(step)}`")
        descending = stepv.get(1, 0) < 0
        ctx.check("R3", descending and stepv.get(1, 0) == -1, adu, q, d,
                  "the shift loop must run from the oldest slot down to slot 1 (step -1): an ascending loop copies the "
                  "newest value through every slot", construct=f"step of {where}", facts=facts)
        if not descending:
            continue
        start, stop = _lin(start_e, {M, N}), _lin(call.args[1], {M, N})
        if stop is None:
            raise Undecided(f"{AD_UTILS}:{q}: cannot read range stop `{u(call.args[1])}`")
        # last iteration has i = stop + 1; its target slot must be 1 (fed from slot 0)
        ctx.check("R3", _lin_eq(_lin_add(stop, 1 + ta), {1: 1}), adu, q, d,
                  "the shift loop must end by copying slot 0 into slot 1", construct=f"stop of {where}", facts=facts)
        if arm is None:
            forms = _min_forms(start_e, {M, N})
            if capped and forms is not None and len(forms) == 2:
                want = [{N: 1}, {M: 1, 1: -1}]
                ok = all(any(_lin_eq(_lin_add(f, ta), w) for f in forms) for w in want)
                ctx.check("R3", ok, adu, q, d, f"capped shift must have min({N}, {M} - 1) as the highest slot written",
                          construct=f"start of {where}", facts=facts)
                continue
            raise Undecided(f"{AD_UTILS}:{q}: cannot classify the branch of `{u(d)}` (conditions {facts['conditions']})")
        if start is None:
            raise Undecided(f"{AD_UTILS}:{q}: cannot read range start `{u(start_e)}`")
        top = _lin_add(start, ta)  # highest slot written
        if arm == "uncapped":
            ok = _lin_eq(top, {N: 1})
            msg = (f"without a cap the oldest stored value (slot {N}-1) must move to slot {N}: the highest slot written "
                   f"must be exactly `{N}`")
        elif _lin_eq(top, {N: 1}):
            # window grows by one: needs N <= M - 1 on this arm, i.e. the arm condition is M - N >= k with k >= 1
            ok = thr[1] and thr[0] >= 1
            msg = (f"the highest slot written is `{N}` (the window grows) on an arm where `{N} <= {M} - 1` is not "
                   f"guaranteed: the history can exceed the depth `{M}`")
        elif _lin_eq(top, {M: 1, 1: -1}):
            # full window: reads slot M-2, needs N >= M - 1, i.e. the arm condition is M - N <= k - 1 with k - 1 <= 1
            ok = (not thr[1]) and thr[0] <= 2
            msg = (f"the highest slot written is `{M} - 1`, fed from slot `{M} - 2`, on an arm where that slot is not "
                   "guaranteed to exist")
        else:
            ok = False
            msg = (f"the highest slot written must be exactly `{N}` (growing window) or `{M} - 1` (full window of depth "
                   f"{M}); anything else leaves a stale last slot or grows beyond the depth")
        ctx.check("R3", ok, adu, q, d, msg, construct=f"start of {where}", facts=facts)
        ctx.sample({"rule": "R3", **{k: str(v) for k, v in facts.items()}})


# ------------------------------------------------------------------ R4: depth pairing / order in the hooks

def _indices_kind(fn: ast.AST, e: Optional[ast.expr]) -> tuple[Optional[str], bool, int]:
    """(kind mentioned by a depth expression, exact `len(self.X_indices)`-like form?, constant offset).
    Single-assignment temporaries are followed, also below a `+/- const`."""
    if e is None:
        return None, False, 0
    e = _resolve(fn, e)
    offset = 0
    for _ in range(3):
        if isinstance(e, ast.BinOp) and isinstance(e.op, (ast.Add, ast.Sub)):
            l, r = e.left, e.right
            if isinstance(r, ast.Constant) and type(r.value) is int:
                offset += r.value if isinstance(e.op, ast.Add) else -r.value
                e = _resolve(fn, l)
                continue
            if isinstance(l, ast.Constant) and type(l.value) is int and isinstance(e.op, ast.Add):
                offset += l.value
                e = _resolve(fn, r)
                continue
        break
    inner = None
    if isinstance(e, ast.Call) and call_name(e) == "len" and len(e.args) == 1:
        inner = _resolve(fn, e.args[0])
    elif isinstance(e, ast.Attribute) and e.attr == "size":
        inner = _resolve(fn, e.value)
    elif isinstance(e, ast.Subscript) and isinstance(e.value, ast.Attribute) and e.value.attr == "shape" and u(e.slice) == "0":
        inner = _resolve(fn, e.value.value)
    kinds = set()
    for n in ast.walk(inner if inner is not None else e):
        if isinstance(n, ast.Attribute):
            for k, attr in KIND_INDICES_ATTR.items():
                if n.attr == attr:
                    kinds.add(k)
    if len(kinds) != 1:
        return (None if not kinds else "both"), False, 0
    k = kinds.pop()
    exact = isinstance(inner, ast.Attribute) and inner.attr == KIND_INDICES_ATTR[k]
    return k, exact, offset


def _is_zero(e: Optional[ast.expr]) -> bool:
    return isinstance(e, ast.Constant) and e.value == 0 and not isinstance(e.value, bool)


def _is_true(e: Optional[ast.expr]) -> bool:
    return isinstance(e, ast.Constant) and e.value is True


def _rule_model_pairing(ctx: Ctx, sol, eqs) -> None:
    set_params = _params(eqs.func("EquationSystem.set_variable_values"))
    hooks = [("SolutionStrategy.update_solution", "shift_time_step_values", "time"),
             ("SolutionStrategy.after_nonlinear_iteration", "shift_iterate_values", "iterate")]
    for q, shift_name, kind in hooks:
        fn = sol.func(q)
        g = cfgmod.build(fn)
        shift_params = _params(eqs.func(f"EquationSystem.{shift_name}"))
        shifts = _call_nodes(g, lambda c: call_name(c) == shift_name)
        if not shifts:
            raise AnchorError(f"{SOLSTRAT}:{q}: no call to {shift_name}")
        writes = _call_nodes(g, lambda c: call_name(c) == "set_variable_values" and _is_zero(
            _callee_arg(c, set_params, KIND_INDEX_PARAM[kind], skip_self=True)))
        if not writes:
            raise AnchorError(f"{SOLSTRAT}:{q}: no set_variable_values(..., {KIND_INDEX_PARAM[kind]}=0) call")
        for sn, sc in shifts:
            depth = _callee_arg(sc, shift_params, "max_index", skip_self=True)
            k, exact, offset = _indices_kind(fn, depth)
            if k is None or (k == kind and not exact):
                raise Undecided(f"{SOLSTRAT}:{q}: depth expression `{u(depth) if depth is not None else None}` of {shift_name} "
                                "is not of a recognised form")
            ctx.check("R4", k == kind and offset == 0, sol, q, sc,
                      f"{shift_name} must be capped by exactly the number of stored {kind} indices "
                      f"(len(self.{KIND_INDICES_ATTR[kind]})); found a depth derived from {k} indices with offset {offset}",
                      construct=f"{shift_name}(max_index={u(depth)})", facts={"depth": u(depth), "kind": k, "offset": offset})
            ctx.sample({"rule": "R4", "hook": q, "shift": shift_name, "depth": u(depth)})
            followed = any(g.postdominates(wn, sn) and wn != sn for wn, _ in writes)
            ctx.check("R4", followed, sol, q, sc,
                      f"after {shift_name} slots 0 and 1 hold the same value: a write to index 0 must follow on every "
                      "normally returning path", construct=f"{shift_name} followed by write to index 0")
        for wn, wc in writes:
            dominated = any(g.dominates(sn, wn) and sn != wn for sn, _ in shifts)
            preceded = any(g.reachable(wn, sn) for sn, _ in shifts)
            ctx.check("R4", dominated and not preceded, sol, q, wc,
                      f"the write to {KIND_INDEX_PARAM[kind]}=0 must come after the shift on every path (otherwise the "
                      "previous value at index 0 is lost before it is moved to index 1)",
                      construct=f"write to {KIND_INDEX_PARAM[kind]}=0 after {shift_name}",
                      facts={"dominated_by_shift": dominated, "shift_reachable_after_write": preceded})


def _rule_shift_sites_sweep(ctx: Ctx, loc: _Loc, adu, eqs) -> None:
    """Kind pairing and order at every shift call site of src/porepy."""
    shift_fn_params = _params(adu.func("shift_solution_values"))
    set_fn_params = _params(adu.func("set_solution_values"))
    set_var_params = _params(eqs.func("EquationSystem.set_variable_values"))
    names = ("shift_solution_values", "shift_time_step_values", "shift_iterate_values")
    for rel in ctx.repo.all_py(PKG):
        src = ctx.repo.read(rel)
        if not any(n in src for n in names):
            continue
        mod = ctx.repo.module(rel)
        for q, fn in mod.functions():
            sites = [c for c in walk_local(fn) if isinstance(c, ast.Call) and call_name(c) in names]
            if not sites:
                continue
            g = None
            for c in sites:
                nm = call_name(c)
                if nm == "shift_solution_values":
                    la = _callee_arg(c, shift_fn_params, "location")
                    kind = loc.kind(la) if la is not None else None
                    depth = _callee_arg(c, shift_fn_params, "max_index")
                    who = _callee_arg(c, shift_fn_params, "name")
                else:
                    kind = "time" if nm == "shift_time_step_values" else "iterate"
                    depth = _callee_arg(c, ["variables", "max_index"], "max_index")
                    who = _callee_arg(c, ["variables", "max_index"], "variables")
                if kind is None:
                    ctx.note(f"R4 sweep: {rel}:{q}: location of `{u(c)[:60]}` is not a constant (forwarded) - skipped")
                    continue
                k, _, _ = _indices_kind(fn, depth)
                ctx.check("R4", k != OTHER[kind] and k != "both", rel, q, c,
                          f"a {kind} history is shifted with a depth derived from the {OTHER[kind]} indices",
                          construct=f"{nm}[{kind}] depth={u(depth) if depth is not None else None}",
                          facts={"kind": kind, "depth_kind": k})
                # no write to index 0 of the same history may dominate the shift
                if g is None:
                    g = cfgmod.build(fn)
                try:
                    sn = next(n for n in g.stmt if c in _calls_at(g, n))
                except StopIteration:
                    continue
                bad = []
                for wn, wc in _call_nodes(g, lambda x: call_name(x) in ("set_solution_values", "set_variable_values")):
                    if call_name(wc) == "set_solution_values":
                        idx = _callee_arg(wc, set_fn_params, KIND_INDEX_PARAM[kind])
                        wwho = _callee_arg(wc, set_fn_params, "name")
                    else:
                        idx = _callee_arg(wc, set_var_params, KIND_INDEX_PARAM[kind], skip_self=True)
                        wwho = _callee_arg(wc, set_var_params, "variables", skip_self=True)
                    same = (who is None and wwho is None) or (who is not None and wwho is not None and u(who) == u(wwho))
                    if _is_zero(idx) and same and wn != sn and g.dominates(wn, sn):
                        bad.append(u(wc)[:80])
                ctx.check("R4", not bad, rel, q, c,
                          "index 0 of the history is overwritten before the shift that should preserve it",
                          construct=f"{nm}[{kind}] not preceded by a write to index 0", facts={"writes_before": bad})


# ------------------------------------------------------------------ R5: index-kind wiring

def _effective_calls(mod, q: str, callee: str) -> list[tuple[ast.Call, ast.Call]]:
    """(call to report, call to `callee` as seen from function q).  Direct calls are returned as they are; if there
    is none, one level of a helper of the same module / a method of the same class is followed and the helper's
    call to `callee` is returned with the helper's parameters replaced by the arguments q passes."""
    fn = mod.func(q)
    direct = [c for c in walk_local(fn) if isinstance(c, ast.Call) and call_name(c) == callee]
    if direct:
        return [(c, c) for c in direct]
    quals = mod.qualnames()
    out = []
    for c in walk_local(fn):
        if not isinstance(c, ast.Call):
            continue
        if isinstance(c.func, ast.Name):
            cq, skip = c.func.id, False
        elif isinstance(c.func, ast.Attribute) and u(c.func.value) == "self" and "." in q:
            cq, skip = q.rsplit(".", 1)[0] + "." + c.func.attr, True
        else:
            continue
        helper = quals.get(cq)
        if not isinstance(helper, ast.FunctionDef) or helper is fn:
            continue
        inner = [x for x in walk_local(helper) if isinstance(x, ast.Call) and call_name(x) == callee]
        if not inner:
            continue
        m = _bind(c, helper, skip_self=skip, fill_defaults=True)
        if m is None:
            raise Undecided(f"{mod.rel}:{q}: cannot bind the arguments of `{u(c)[:60]}` to {cq}")
        reassigned = {t.id for s_ in walk_local(helper) if isinstance(s_, ast.stmt) and s_ is not helper
                      for t in assigned_targets(s_) if isinstance(t, ast.Name)} & set(m)
        if reassigned:
            raise Undecided(f"{mod.rel}:{cq}: parameter(s) {sorted(reassigned)} are reassigned before being forwarded")
        out += [(c, subst(x, m)) for x in inner]  # type: ignore[misc]
    return out


def _unrolled_pairs(vi: ast.FunctionDef) -> list[tuple[ast.Call, ast.expr, ast.expr]]:
    """`out.append((L, X))` sites of _validate_indices; a site inside `for a, b, ... in <literal rows>` is unrolled
    into one pair per row."""
    pm = parent_map(vi)
    out = []
    for c in [n for n in walk_local(vi) if isinstance(n, ast.Call) and call_name(n) == "append"]:
        if not (len(c.args) == 1 and isinstance(c.args[0], ast.Tuple) and len(c.args[0].elts) == 2):
            continue
        l, x = c.args[0].elts
        loop = c
        while loop in pm and not isinstance(loop, (ast.For, ast.AsyncFor)):
            loop = pm[loop]
        if isinstance(loop, (ast.For, ast.AsyncFor)) and isinstance(loop.target, (ast.Tuple, ast.List)) \
                and all(isinstance(t, ast.Name) for t in loop.target.elts) \
                and ({u(l), u(x)} & {t.id for t in loop.target.elts}):
            rows = _resolve(vi, loop.iter)
            if not (isinstance(rows, (ast.Tuple, ast.List)) and rows.elts and all(
                    isinstance(r, (ast.Tuple, ast.List)) and len(r.elts) == len(loop.target.elts) for r in rows.elts)):
                raise Undecided(f"{AD_UTILS}:_validate_indices: loop over `{u(loop.iter)[:60]}` is not a literal table of rows")
            for r in rows.elts:
                env = {t.id: e for t, e in zip(loop.target.elts, r.elts)}
                out.append((c, subst(l, env), subst(x, env)))
        else:
            out.append((c, l, x))
    return out


def _rule_wiring(ctx: Ctx, loc: _Loc, adu, eqs) -> None:
    # _validate_indices pairs
    vi = adu.func("_validate_indices")
    seen = set()
    n_pairs = 0
    for c, l, x in _unrolled_pairs(vi):
        if True:
            k = loc.kind(l)
            if k is None:
                continue
            seen.add(k)
            n_pairs += 1
            ctx.check("R5", u(x) == KIND_INDEX_PARAM[k], adu, "_validate_indices", c,
                      f"location {u(l)} must be paired with `{KIND_INDEX_PARAM[k]}`",
                      construct=f"({u(l)}, {u(x)})", facts={"location": u(l), "index": u(x)})
    if n_pairs < 2:
        raise AnchorError(f"{AD_UTILS}:_validate_indices: (location, index) pairs for both histories not found")
    ctx.check("R5", seen == {"time", "iterate"}, adu, "_validate_indices", vi,
              "_validate_indices must be able to address both the time-step and the iterate history",
              construct="locations produced by _validate_indices", facts={"locations": sorted(seen)})
    vi_params = _params(vi)
    # name-to-name forwarding
    set_p = _params(adu.func("set_solution_values"))
    get_p = _params(adu.func("get_solution_values"))
    shift_p = _params(adu.func("shift_solution_values"))
    forwards = [
        (adu, "set_solution_values", "_validate_indices", vi_params, ["time_step_index", "iterate_index"]),
        (adu, "get_solution_values", "_validate_indices", vi_params, ["time_step_index", "iterate_index"]),
        (eqs, "EquationSystem.set_variable_values", "set_solution_values", set_p, ["time_step_index", "iterate_index", "additive"]),
        (eqs, "EquationSystem.get_variable_values", "get_solution_values", get_p, ["time_step_index", "iterate_index"]),
        (eqs, "EquationSystem.shift_time_step_values", "shift_solution_values", shift_p, ["max_index"]),
        (eqs, "EquationSystem.shift_iterate_values", "shift_solution_values", shift_p, ["max_index"]),
    ]
    for mod, q, callee, cparams, names in forwards:
        fn = mod.func(q)
        calls = _effective_calls(mod, q, callee)
        if not calls:
            raise AnchorError(f"{mod.rel}:{q}: no call to {callee} (directly or through one helper)")
        for rc, c in calls:
            for p in names:
                if p not in cparams:
                    raise AnchorError(f"{callee} has no parameter `{p}`")
                a = _callee_arg(c, cparams, p)
                got = u(_resolve(fn, a)) if a is not None else None
                ctx.check("R5", got == p, mod, q, rc,
                          f"`{p}` of {q.split('.')[-1]} must be forwarded to `{p}` of {callee}; found {got}",
                          construct=f"{callee}({p}={got})", facts={"param": p, "passed": got})
    for q, kind in (("EquationSystem.shift_time_step_values", "time"), ("EquationSystem.shift_iterate_values", "iterate")):
        fn = eqs.func(q)
        for rc, c in _effective_calls(eqs, q, "shift_solution_values"):
            la = _callee_arg(c, shift_p, "location")
            k = loc.kind(_resolve(fn, la)) if la is not None else None
            if k is None:
                raise Undecided(f"{EQSYS}:{q}: location argument `{u(la) if la is not None else None}` is not a location constant")
            ctx.check("R5", k == kind, eqs, q, rc,
                      f"{q.split('.')[-1]} must shift the {kind} history; it passes the {k} location",
                      construct=f"shift_solution_values(location={u(la)})", facts={"location": u(la)})
    # the getter / setter take the slot coordinates from _validate_indices
    ctx.sample({"rule": "R5", "forwarding_checked": [f"{q}->{c}" for _, q, c, _, _ in forwards]})


# ------------------------------------------------------------------ entry point

def run(ctx: Ctx) -> None:
    loc = _Loc(ctx)
    adu = ctx.repo.module(AD_UTILS)
    eqs = ctx.repo.module(EQSYS)
    sol = ctx.repo.module(SOLSTRAT)
    _rule_copy(ctx, adu, eqs)
    _rule_who_may_write(ctx, loc)
    _rule_guard(ctx, adu)
    _rule_shift(ctx, adu)
    _rule_model_pairing(ctx, sol, eqs)
    _rule_wiring(ctx, loc, adu, eqs)
    _rule_shift_sites_sweep(ctx, loc, adu, eqs)


def _m(name, file, old, new, rule, control=False, count=1):
    return dict(name=name, file=file, old=old, new=new, rule=rule, control=control, count=count)


BC = "src/porepy/models/boundary_condition.py"
FD = "src/porepy/models/fracture_damage.py"

MUTANTS = [
    _m("getter-returns-stored-array", AD_UTILS, "        value = data[loc][name][index].copy()\n",
       "        value = data[loc][name][index]\n", "R1", control=True),
    _m("setter-stores-callers-array", AD_UTILS, "            data[loc][name][index] = np.array(\n                values, dtype=np.result_type(values, float)\n            )\n",
       "            data[loc][name][index] = values\n", "R1", control=False),
    _m("setter-asarray-is-no-copy", AD_UTILS, "            data[loc][name][index] = np.array(\n                values, dtype=np.result_type(values, float)\n            )\n",
       "            data[loc][name][index] = np.asarray(values)\n", "R1"),
    _m("shift-aliases-neighbour-slot", AD_UTILS, "data[location][name][i] = data[location][name][i - 1].copy()",
       "data[location][name][i] = data[location][name][i - 1]", "R1"),
    _m("get-variable-values-returns-block", EQSYS, "        return np.concatenate(values) if values else np.empty(0)\n",
       "        return values[0] if len(values) == 1 else np.concatenate(values) if values else np.empty(0)\n", "R1"),
    _m("additive-guard-removed", AD_UTILS, "            if index not in data[loc][name]:\n", "            if False:\n", "R2"),
    _m("additive-guard-on-wrong-container", AD_UTILS, "            if index not in data[loc][name]:\n",
       "            if index not in data[loc]:\n", "R2"),
    _m("additive-flag-inverted", AD_UTILS, "        if additive:\n            if index", "        if not additive:\n            if index", "R2"),
    _m("ascending-shift-loop", AD_UTILS, "            range_ = range(max_index - 1, 0, -1)\n",
       "            range_ = range(1, max_index)\n", "R3", control=True),
    _m("shift-wrong-direction", AD_UTILS, "data[location][name][i] = data[location][name][i - 1].copy()",
       "data[location][name][i - 1] = data[location][name][i].copy()", "R3"),
    _m("shift-skips-slot-one", AD_UTILS, "            range_ = range(max_index - 1, 0, -1)\n",
       "            range_ = range(max_index - 1, 1, -1)\n", "R3"),
    _m("cap-exceeds-depth", AD_UTILS, "            range_ = range(max_index - 1, 0, -1)\n",
       "            range_ = range(max_index, 0, -1)\n", "R3"),
    _m("growing-arm-never-grows", AD_UTILS, "        if max_index > num_stored:\n            range_ = range(num_stored, 0, -1)\n",
       "        if max_index > num_stored:\n            range_ = range(num_stored - 1, 0, -1)\n", "R3"),
    _m("cap-test-off-by-one", AD_UTILS, "        if max_index > num_stored:\n", "        if max_index >= num_stored:\n", "R3"),
    _m("iterate-shift-capped-by-time-depth", SOLSTRAT,
       "self.equation_system.shift_iterate_values(max_index=len(self.iterate_indices))",
       "self.equation_system.shift_iterate_values(max_index=len(self.time_step_indices))", "R4", control=False),
    _m("time-shift-capped-by-iterate-depth", SOLSTRAT,
       "        self.equation_system.shift_time_step_values(\n            max_index=len(self.time_step_indices)\n        )",
       "        self.equation_system.shift_time_step_values(\n            max_index=len(self.iterate_indices)\n        )", "R4"),
    _m("update-solution-writes-before-shift", SOLSTRAT,
       "        self.equation_system.shift_time_step_values(\n            max_index=len(self.time_step_indices)\n        )\n"
       "        self.equation_system.set_variable_values(\n            values=solution, time_step_index=0, additive=False\n        )\n",
       "        self.equation_system.set_variable_values(\n            values=solution, time_step_index=0, additive=False\n        )\n"
       "        self.equation_system.shift_time_step_values(\n            max_index=len(self.time_step_indices)\n        )\n", "R4"),
    _m("iterate-write-before-shift", SOLSTRAT,
       "        self.equation_system.shift_iterate_values(max_index=len(self.iterate_indices))\n"
       "        self.equation_system.set_variable_values(\n            values=nonlinear_increment, additive=True, iterate_index=0\n        )\n",
       "        self.equation_system.set_variable_values(\n            values=nonlinear_increment, additive=True, iterate_index=0\n        )\n"
       "        self.equation_system.shift_iterate_values(max_index=len(self.iterate_indices))\n", "R4"),
    _m("depth-off-by-one", SOLSTRAT,
       "        self.equation_system.shift_time_step_values(\n            max_index=len(self.time_step_indices)\n        )",
       "        self.equation_system.shift_time_step_values(\n            max_index=len(self.time_step_indices) - 1\n        )", "R4",),
    _m("uncapped-shift-loses-oldest", AD_UTILS, "    else:\n        range_ = range(num_stored, 0, -1)\n",
       "    else:\n        range_ = range(num_stored - 1, 0, -1)\n", "R3"),
    _m("bc-history-capped-by-iterate-depth", BC, "                max_index=len(self.time_step_indices),\n",
       "                max_index=len(self.iterate_indices),\n", "R4"),
    _m("damage-history-capped-by-iterate-depth", FD, "            max_index=None, variables=history_variables\n",
       "            max_index=len(self.iterate_indices), variables=history_variables\n", "R4"),
    _m("bc-previous-value-overwritten-before-shift", BC,
       "            pp.shift_solution_values(\n                name=name,\n                data=data,\n                location=pp.TIME_STEP_SOLUTIONS,\n"
       "                max_index=len(self.time_step_indices),\n            )\n            # Set the values of current time to most recent previous time.\n"
       "            pp.set_solution_values(name=name, values=vals, data=data, time_step_index=0)\n",
       "            # Set the values of current time to most recent previous time.\n"
       "            pp.set_solution_values(name=name, values=vals, data=data, time_step_index=0)\n"
       "            pp.shift_solution_values(\n                name=name,\n                data=data,\n                location=pp.TIME_STEP_SOLUTIONS,\n"
       "                max_index=len(self.time_step_indices),\n            )\n", "R4"),
    _m("wrapper-shifts-wrong-history", EQSYS,
       "                var.name, self._get_data(var.domain), pp.ITERATE_SOLUTIONS, max_index\n",
       "                var.name, self._get_data(var.domain), pp.TIME_STEP_SOLUTIONS, max_index\n", "R5"),
    _m("validate-indices-pairs-swapped", AD_UTILS, "            out.append((pp.ITERATE_SOLUTIONS, iterate_index))\n",
       "            out.append((pp.TIME_STEP_SOLUTIONS, iterate_index))\n", "R5"),
    _m("getter-wrapper-swaps-index-kinds", EQSYS,
       "                    time_step_index=time_step_index,\n                    iterate_index=iterate_index,\n                )\n                # NOTE",
       "                    time_step_index=iterate_index,\n                    iterate_index=time_step_index,\n                )\n                # NOTE", "R5"),
    _m("setter-wrapper-drops-additive", EQSYS, "                    additive=additive,\n", "                    additive=False,\n", "R5"),
    _m("bc-update-writes-slot-directly", BC,
       "            pp.set_solution_values(name=name, values=vals, data=data, iterate_index=0)\n",
       "            data[pp.ITERATE_SOLUTIONS][name][0] = vals\n", "W", control=True),
    _m("history-popped-elsewhere", BC,
       "            pp.set_solution_values(name=name, values=vals, data=data, time_step_index=0)\n",
       "            data[pp.TIME_STEP_SOLUTIONS][name].pop(0, None)\n"
       "            pp.set_solution_values(name=name, values=vals, data=data, time_step_index=0)\n", "W"),
    _m("create-variables-seeds-shared-array", EQSYS, "                    data[key][name] = {}\n",
       "                    data[key][name] = {0: np.zeros(grid.num_cells)}\n", "W"),
]
