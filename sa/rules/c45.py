"""C45 - operator hash keys identify operator trees: key completeness by def-use.

R1  every attribute a leaf's evaluation (`parse`, or the AdParser arm for the class) reads is
    represented in its `_key` (directly, through a property, or through an attribute derived
    from the same constructor input).
R2  sub-object fields: every constructor keyword forwarded into the ArraySlicer of a Projection
    is interpolated in the key through the slicer property of the same name; and in every
    `_key` f-string a `label=` is followed by a value whose last attribute/name is `label`.
R3  composite key (`Operator._key`) covers every attribute `_evaluate_single` reads from a
    composite `op` (operation, children, func).
R4  interpolated values are scalars / ids / digests / lists of ids / child keys: not ndarrays
    (str() truncates beyond 1000 entries), not repr of operators (sizes only), not `id()`.
R5  copies made for previous time step / iterate must not inherit a cached key.
"""
from __future__ import annotations

import ast
import re
from typing import Optional

from ..core.astutil import u, dotted, walk_local, methods, calls_in, call_name, kwarg, names_in, assigned_targets
from ..core.loader import AnchorError, Undecided
from ..core.report import Ctx

OPS = "src/porepy/numerics/ad/operators.py"
PARSER = "src/porepy/numerics/ad/_ad_parser.py"
ADUTILS = "src/porepy/numerics/ad/ad_utils.py"
GRIDOPS = "src/porepy/numerics/ad/grid_operators.py"
MATOPS = "src/porepy/numerics/linalg/matrix_operations.py"

META = {
    "explanation": (
        "Def-use analysis of every `_key` implementation of the AD operator classes against what the evaluation of the "
        "same class reads. Attributes are expanded through properties along the class hierarchy (MRO by name). "
        "Decides that no evaluated attribute is missing from the key (a necessary condition for 'different leaf data "
        "=> different key'), that labels and values in key strings agree, that the composite key covers what the "
        "parser reads, that interpolations are not lossy (ndarray str / operator repr), and that operator copies do "
        "not inherit cached keys. Does not decide hash collisions of the digests themselves."),
    "rule_text": "one obligation per (class, attribute read by evaluation), per key interpolation, per copy site",
    "trusted_base": ["python ast", "sa.core", "table DERIVED below (attributes determined by other attributes), each with a reason"],
    "assumptions": ["str(ndarray) is truncated beyond numpy's print threshold", "repr() of operators is not injective (checked: Projection.__repr__ has sizes only)"],
    "technique": "def-use key-completeness analysis over the class hierarchy",
}
MIN_INSTANCES = {"R1": 14, "R2": 5, "R3": 5, "R4": 8, "R5": 3, "R6": 2, "R7": 1}

# attribute of class determined by other attributes (which must then be in the key)
DERIVED = {
    ("Operator", "_domain_type"): (["_domains"], "set in Operator.__init__ from isinstance tests on the elements of domains"),
    ("MergedOperator", "_discr"): (["_name"], "name is discr.__class__.__name__; only `<key>_matrix_key` class constants of the discretization class are read"),
    ("MixedDimensionalVariable", "sub_vars"): (["_name", "_domains"], "one registered atomic variable per (name, grid): sub-variables are determined by name and domains"),
    ("MixedDimensionalVariable", "_grid"): (["_domains"], "not used by md-variables"),
}
# attributes read by evaluation that are not data (callables, caches, bookkeeping)
NOT_DATA = {"_cached_key", "original_operator", "_cache"}

LEAF_CLASSES = [
    (OPS, "SparseArray"), (OPS, "DenseArray"), (OPS, "TimeDependentDenseArray"), (OPS, "Scalar"), (OPS, "Variable"),
    (OPS, "MixedDimensionalVariable"), (OPS, "Projection"), (OPS, "ProjectionList"), (ADUTILS, "MergedOperator"),
    (GRIDOPS, "Divergence"),
]


class Hierarchy:
    def __init__(self, ctx: Ctx):
        self.classes: dict[str, tuple] = {}
        for rel in (OPS, ADUTILS, GRIDOPS):
            m = ctx.repo.module(rel)
            for q, c in m.classes():
                if "." not in q:
                    self.classes.setdefault(q, (m, c))

    def mro(self, name: str) -> list[str]:
        out, seen = [], set()

        def visit(n):
            if n in seen or n not in self.classes:
                return
            seen.add(n)
            out.append(n)
            for b in self.classes[n][1].bases:
                d = dotted(b)
                if d:
                    visit(d.split(".")[-1])
        visit(name)
        return out

    def lookup(self, cls: str, attr: str) -> Optional[tuple[str, ast.FunctionDef]]:
        for c in self.mro(cls):
            m = methods(self.classes[c][1]).get(attr)
            if m is not None:
                return c, m
        return None

    def is_property(self, fn: ast.FunctionDef) -> bool:
        return any(u(d) in ("property", "functools.cached_property", "cached_property") for d in fn.decorator_list)

    def expand(self, cls: str, attr: str, seen=None) -> set[str]:
        """underlying data attributes behind self.<attr> (property / method bodies followed)"""
        seen = seen if seen is not None else set()
        if attr in seen:
            return set()
        seen.add(attr)
        hit = self.lookup(cls, attr)
        if hit is None:
            return {attr}
        _, fn = hit
        out = set()
        for a in self_reads(fn):
            out |= self.expand(cls, a, seen)
        return out


def self_reads(fn: ast.AST, base: str = "self") -> list[str]:
    out = []
    for n in walk_local(fn):
        if isinstance(n, ast.Attribute) and isinstance(n.value, ast.Name) and n.value.id == base and isinstance(n.ctx, ast.Load):
            if n.attr not in out:
                out.append(n.attr)
    return out


SHAPE_ONLY = {"size", "shape", "ndim", "dtype", "nnz"}


def resolve_aliases(fn: ast.FunctionDef) -> ast.FunctionDef:
    """Copy of fn in which locals bound once to a plain `self.<attr>` chain (e.g. `slicer = self._slicer`) are
    substituted by that chain, so that reads through the alias are seen as reads of self."""
    import copy as _copy
    fn2 = _copy.deepcopy(fn)
    amap = {}
    counts: dict[str, int] = {}
    for st in walk_local(fn2):
        for t in assigned_targets(st) if isinstance(st, ast.stmt) else []:
            if isinstance(t, ast.Name):
                counts[t.id] = counts.get(t.id, 0) + 1
    for st in walk_local(fn2):
        if isinstance(st, ast.Assign) and len(st.targets) == 1 and isinstance(st.targets[0], ast.Name) and counts.get(st.targets[0].id) == 1:
            d = dotted(st.value)
            if d and d.startswith("self.") and isinstance(st.value, ast.Attribute):
                amap[st.targets[0].id] = st.value

    class T(ast.NodeTransformer):
        def visit_Name(self, n):
            if isinstance(n.ctx, ast.Load) and n.id in amap:
                return _copy.deepcopy(amap[n.id])
            return n
    return T().visit(fn2) if amap else fn2


def interpolations(fn: ast.AST):
    """(label, expr, node) for every value interpolated into a string in fn: f-string fields and arguments of
    `"...{}...".format(...)` on a literal; label = the `name=` text immediately preceding the field, if any."""
    def lab(prefix: str):
        pfx = prefix.rstrip()
        if not pfx.endswith("="):
            return None
        return pfx[:-1].split(",")[-1].split("(")[-1].strip().split(" ")[-1] or None
    for js in [n for n in walk_local(fn) if isinstance(n, ast.JoinedStr)]:
        vals = js.values
        for i, v in enumerate(vals):
            if isinstance(v, ast.FormattedValue):
                prev = vals[i - 1] if i > 0 else None
                yield (lab(prev.value) if isinstance(prev, ast.Constant) and isinstance(prev.value, str) else None), v.value, v
    for c in [n for n in walk_local(fn) if isinstance(n, ast.Call) and isinstance(n.func, ast.Attribute) and n.func.attr == "format"]:
        base = c.func.value
        if isinstance(base, ast.Name):
            continue  # module-level template: fields are named, values come by keyword
        if isinstance(base, ast.Constant) and isinstance(base.value, str):
            pieces = re.split(r"\{[^{}]*\}", base.value)
            for i, a_ in enumerate(c.args):
                yield (lab(pieces[i]) if i < len(pieces) else None), a_, a_
            for k in c.keywords:
                yield k.arg, k.value, k.value
    for c in [n for n in walk_local(fn) if isinstance(n, ast.Call) and isinstance(n.func, ast.Attribute) and n.func.attr == "format"
              and isinstance(n.func.value, ast.Name)]:
        for k in c.keywords:
            yield k.arg, k.value, k.value
        for a_ in c.args:
            yield None, a_, a_


def key_flow_reads(fn: ast.FunctionDef, base: str = "self") -> list[str]:
    """self attributes whose *content* flows into the key string: reads inside expressions assigned
    to self._cached_key / returned / accumulated into locals that reach those, plus tests of `if`s that
    guard such an accumulation.  Reads only through .size/.shape/len() do not count as content."""
    fn = resolve_aliases(fn)
    flow_locals: set[str] = set()
    exprs: list[ast.AST] = []
    stmts = [s for s in walk_local(fn) if isinstance(s, ast.stmt)]
    for s in stmts:
        if isinstance(s, ast.Return) and s.value is not None and u(s.value) != f"{base}._cached_key":
            exprs.append(s.value)
        if isinstance(s, ast.Assign) and any(u(t) == f"{base}._cached_key" for t in s.targets):
            exprs.append(s.value)
    changed = True
    while changed:
        changed = False
        for e in list(exprs):
            for n in names_in(e):
                if n not in flow_locals and n != base:
                    flow_locals.add(n)
                    changed = True
        for s in stmts:
            tg = [t for t in assigned_targets(s) if isinstance(t, ast.Name) and t.id in flow_locals] if not isinstance(s, (ast.For, ast.With)) else []
            if tg and getattr(s, "value", None) is not None and s.value not in exprs:
                exprs.append(s.value)
                changed = True
            # X.append(e) / X.extend(e) / X.insert(i, e) on a flow local: e flows into the key
            if isinstance(s, ast.Expr) and isinstance(s.value, ast.Call) and isinstance(s.value.func, ast.Attribute) \
                    and s.value.func.attr in ("append", "extend", "insert") and isinstance(s.value.func.value, ast.Name) \
                    and s.value.func.value.id in flow_locals:
                for a_ in s.value.args:
                    if a_ not in exprs:
                        exprs.append(a_)
                        changed = True
            # a loop whose body feeds a flow local: what it iterates over flows too
            if isinstance(s, ast.For) and s.iter not in exprs and any(
                    isinstance(b, ast.Expr) and isinstance(b.value, ast.Call) and isinstance(b.value.func, ast.Attribute)
                    and isinstance(b.value.func.value, ast.Name) and b.value.func.value.id in flow_locals for b in ast.walk(s)):
                exprs.append(s.iter)
                changed = True
    for s in stmts:
        if isinstance(s, ast.If) and (any(isinstance(b, (ast.Assign, ast.AugAssign)) and any(
                isinstance(t, ast.Name) and t.id in flow_locals for t in assigned_targets(b)) for b in s.body + s.orelse) or any(
                isinstance(b, ast.Expr) and isinstance(b.value, ast.Call) and isinstance(b.value.func, ast.Attribute)
                and isinstance(b.value.func.value, ast.Name) and b.value.func.value.id in flow_locals for b in s.body + s.orelse)):
            exprs.append(s.test)
    out: list[str] = []
    for e in exprs:
        shape_only_nodes = set()
        for n in ast.walk(e):
            if isinstance(n, ast.Attribute) and n.attr in SHAPE_ONLY:
                shape_only_nodes.add(id(n.value))
            if isinstance(n, ast.Call) and isinstance(n.func, ast.Name) and n.func.id == "len" and n.args:
                shape_only_nodes.add(id(n.args[0]))
        for n in ast.walk(e):
            if isinstance(n, ast.Attribute) and isinstance(n.value, ast.Name) and n.value.id == base and id(n) not in shape_only_nodes:
                if n.attr not in out:
                    out.append(n.attr)
    return out


def _same_param_derivation(init: ast.FunctionDef, a: str, k: str) -> str | None:
    """In __init__, how does the key attribute self.k relate to the evaluated attribute self.a?
    "func"      self.k is computed from self.a (k = f(a)): equal a => equal k
    "identity"  self.a stores a name (parameter / local) unconverted and self.k is computed from that same name
    "converted" both derive from the same parameters but self.a is a conversion of them (a = g(p), k = h(p)): equal a does
                not imply equal k (g need not be injective, e.g. astype(float)) nor the converse
    None        unrelated"""
    params = {p.arg for p in init.args.args[1:]} | {p.arg for p in init.args.kwonlyargs}

    def stores(attr: str) -> list[ast.expr]:
        out = []
        for s in walk_local(init):
            if isinstance(s, (ast.Assign, ast.AnnAssign)) and getattr(s, "value", None) is not None:
                tg = s.targets if isinstance(s, ast.Assign) else [s.target]
                if any(u(t) == f"self.{attr}" for t in tg):
                    out.append(s.value)
        return out

    def roots(attr: str, seen=()) -> set[str]:
        r: set[str] = set()
        for v in stores(attr):
            r |= names_in(v) & params
            for n in ast.walk(v):  # self._x references resolved one level
                if isinstance(n, ast.Attribute) and u(n.value) == "self" and n.attr != attr and n.attr not in seen:
                    r |= roots(n.attr, seen + (attr,))
            for n in names_in(v) - params:  # locals: one level
                for st in walk_local(init):
                    if isinstance(st, ast.Assign) and any(u(t) == n for t in st.targets):
                        r |= names_in(st.value) & params
        return r
    ra, rk = roots(a), roots(k)
    if not ra or not (ra <= rk):
        return None
    kvals, avals = stores(k), stores(a)
    if any(isinstance(n, ast.Attribute) and u(n) == f"self.{a}" for v in kvals for n in ast.walk(v)):
        return "func"
    if len(avals) == 1 and isinstance(avals[0], ast.Name) and any(avals[0].id in names_in(v) for v in kvals):
        return "identity"
    return "converted"


def run(ctx: Ctx) -> None:
    H = Hierarchy(ctx)
    ops = ctx.repo.module(OPS)
    par = ctx.repo.module(PARSER)
    ev = par.func("AdParser._evaluate_single")

    # ---------------- R1 ---------------------------------------------------------------
    for rel, cname in LEAF_CLASSES:
        if cname not in H.classes:
            raise AnchorError(f"{rel}:{cname} missing")
        mod, cls = H.classes[cname]
        keyhit = H.lookup(cname, "_key")
        if keyhit is None or keyhit[0] == "Operator":
            ctx.check("R1", False, mod, cname, cls, f"leaf class {cname} has no own _key (Operator._key raises for leaves)", construct=f"{cname}: _key missing")
            continue
        keyfn = keyhit[1]
        key_reads = set()
        for a in key_flow_reads(keyfn):
            key_reads |= H.expand(cname, a)
        # what evaluation reads
        parsehit = H.lookup(cname, "parse")
        eval_reads: list[str] = []
        raises_only = parsehit is not None and all(isinstance(s, (ast.Raise, ast.Expr)) for s in parsehit[1].body)
        if parsehit is not None and not raises_only:
            eval_reads = self_reads(parsehit[1])
        else:
            # evaluated by the parser directly: attributes read from `op` in the arm for this class
            for iff in [n for n in walk_local(ev) if isinstance(n, ast.If)]:
                t = iff.test
                if isinstance(t, ast.Call) and call_name(t) == "isinstance" and u(t.args[0]) == "op" and (dotted(t.args[1]) or "").split(".")[-1] == cname:
                    for b in iff.body:
                        for a in self_reads(b, base="op"):
                            if a not in eval_reads:
                                eval_reads.append(a)
            if not eval_reads:
                raise AnchorError(f"no evaluation site found for {cname}")
        needed: dict[str, set[str]] = {}
        for a in eval_reads:
            for base_attr in H.expand(cname, a):
                needed.setdefault(base_attr, set()).add(a)
        for attr, via in sorted(needed.items()):
            if attr in NOT_DATA or H.lookup(cname, attr) is not None:
                continue
            ok = attr in key_reads
            why = "in key"
            if not ok:
                for c in H.mro(cname):
                    d = DERIVED.get((c, attr))
                    if d and set(d[0]) <= key_reads:
                        ok, why = True, f"derived from {d[0]}: {d[1]}"
                        break
            converted = None
            if not ok:
                for c in H.mro(cname):
                    init = methods(H.classes[c][1]).get("__init__")
                    if init is None:
                        continue
                    rel = {k: _same_param_derivation(init, attr, k) for k in sorted(key_reads)}
                    good = [k for k, r_ in rel.items() if r_ in ("func", "identity")]
                    if good:
                        ok, why = True, f"key attribute `{good[0]}` is computed in {c}.__init__ from the stored `{attr}` ({rel[good[0]]})"
                        break
                    conv = [k for k, r_ in rel.items() if r_ == "converted"]
                    if conv:
                        converted = (c, conv[0])
            if not ok and converted is not None:
                ctx.check("R1", False, mod, f"{cname}._key", keyfn,
                          f"evaluation of {cname} reads `{attr}`, the key depends on `{converted[1]}`; in {converted[0]}.__init__ `{attr}` is a "
                          f"CONVERSION of the constructor input while `{converted[1]}` is computed from the raw input, not from the stored "
                          f"`{attr}`: equal stored data can get different keys (e.g. int vs float input of equal value) and different data "
                          f"with equal raw bytes the same key", construct=f"{cname}: key digest `{converted[1]}` not computed from stored `{attr}`",
                          facts={"key_reads": sorted(key_reads)})
                continue
            ctx.check("R1", ok, mod, f"{cname}._key", keyfn,
                      f"evaluation of {cname} reads `{attr}` (via {sorted(via)}) but the key does not depend on it: two operators "
                      f"differing only in `{attr}` have equal keys", construct=f"{cname}._key omits {attr}",
                      facts={"key_reads": sorted(key_reads), "eval_reads": eval_reads, "covered": why})
        ctx.sample({"rule": "R1", "class": cname, "key_reads": sorted(key_reads), "evaluation_reads": sorted(needed)})

    # ---------------- R2 sub-object fields + label/value agreement -----------------------
    projcls = ops.cls("Projection")
    pinit = methods(projcls).get("__init__")
    pkey = methods(projcls).get("_key")
    if pinit is None or pkey is None:
        raise AnchorError("Projection.__init__/_key missing")
    slicer_ctor = [c for c in calls_in(pinit) if call_name(c) == "ArraySlicer"]
    if len(slicer_ctor) != 1:
        raise AnchorError("Projection.__init__: ArraySlicer construction not found")
    forwarded = [k.arg for k in slicer_ctor[0].keywords if k.arg]
    if len(forwarded) < 4:
        raise AnchorError("Projection.__init__: expected keyword construction of the ArraySlicer")
    pkey = resolve_aliases(pkey)
    key_slicer_attrs = {n.attr for n in walk_local(pkey) if isinstance(n, ast.Attribute) and u(n.value) == "self._slicer"}
    for kw in forwarded:
        ctx.check("R2", kw in key_slicer_attrs, ops, "Projection._key", pkey,
                  f"constructor input `{kw}` is stored in the slicer and used by parse, but `self._slicer.{kw}` does not enter the key",
                  construct=f"Projection._key omits _slicer.{kw}", facts={"key_slicer_attrs": sorted(key_slicer_attrs)})
    # the transposed flag of the slicer changes parse
    ctx.check("R2", "_is_transposed" in key_slicer_attrs, ops, "Projection._key", pkey,
              "transposed projections must have a different key", construct="Projection._key omits _slicer._is_transposed")
    # labels
    n_labels = 0
    for rel, cname in LEAF_CLASSES + [(OPS, "Operator")]:
        mod, cls = H.classes[cname]
        kf = methods(cls).get("_key")
        if kf is None:
            continue
        for label, e, node in interpolations(resolve_aliases(kf)):
            last = e.attr if isinstance(e, ast.Attribute) else (e.id if isinstance(e, ast.Name) else None)
            if isinstance(e, ast.Call) and call_name(e) == "str" and e.args:
                inner = e.args[0]
                last = inner.attr if isinstance(inner, ast.Attribute) else getattr(inner, "id", None)
            if last is None or not label:
                continue
            n_labels += 1
            norm = lambda s_: s_.strip("_").lower().replace("domains", "domain")
            agree = norm(label) == norm(last) or norm(last).startswith(norm(label)) or norm(label) in norm(last) or norm(last) in ("id",) \
                or (norm(label), norm(last)) in (("hash", "hash_value"), ("domain", "domain_ids"), ("subdomains", "subdomain_ids"), ("operators", "children"))
            ctx.check("R2", agree, mod, f"{cname}._key", node, f"key string labels `{label}=` but interpolates `{u(e)}`",
                      construct=f"{cname}._key: {label}={{{u(e)}}}")
    if n_labels < 3:
        ctx.note(f"only {n_labels} labelled interpolations recognised in _key strings (templates with named fields are not label-checked)")

    # ---------------- R3 composite ----------------------------------------------------------
    okey = methods(ops.cls("Operator")).get("_key")
    if okey is None:
        raise AnchorError("Operator._key missing")
    comp_reads = set(key_flow_reads(okey))
    # attributes of `op` read by the composite part of _evaluate_single (after the leaf arm)
    leaf_ifs = [n for n in ev.body if isinstance(n, ast.If) and "is_leaf" in u(n.test)]
    if not leaf_ifs:
        raise AnchorError("_evaluate_single: leaf arm not found")
    after = [s for s in ev.body if s.lineno > leaf_ifs[0].end_lineno]
    parser_reads = []
    for s in after:
        for a in self_reads(s, base="op"):
            if a not in parser_reads and a not in ("is_leaf", "name", "_name"):
                parser_reads.append(a)
    if "children" not in parser_reads or "operation" not in parser_reads:
        raise AnchorError("_evaluate_single: composite arm does not read op.children/op.operation")
    for a in parser_reads:
        ctx.check("R3", a in comp_reads, ops, "Operator._key", okey,
                  f"composite evaluation reads `op.{a}` but Operator._key does not: operators differing only in `{a}` have equal keys "
                  f"(e.g. exp(p) and log(p))", construct=f"Operator._key omits {a}", facts={"key_reads": sorted(comp_reads)})

    # R3b: the composite key must encode the tree unambiguously.  Accepted: prefix form (operation first, then the
    # child keys in order, arity is fixed per operation) or any form that brackets each composite.  An infix join of the
    # child keys without brackets loses the nesting: (a-b)-c and a-(b-c) collide.
    from ..core.astutil import inline_locals
    kasg = [st for st in walk_local(okey) if isinstance(st, ast.Assign) and any(u(t) == "self._cached_key" for t in st.targets)]
    if len(kasg) != 1:
        raise Undecided("Operator._key: expected one assignment to self._cached_key")
    kexpr = inline_locals(okey, kasg[0].value, stop=["self"])
    joins = [c_ for c_ in ast.walk(kexpr) if isinstance(c_, ast.Call) and isinstance(c_.func, ast.Attribute) and c_.func.attr == "join"]
    has_brackets = any(isinstance(c_, ast.Constant) and isinstance(c_.value, str) and "(" in c_.value and ")" in u(kexpr) for c_ in ast.walk(kexpr))
    if joins:
        sep = joins[0].func.value
        sep_has_op = any(isinstance(n_, ast.Attribute) and n_.attr in ("operation", "value") and "operation" in u(n_) for n_ in ast.walk(sep))
        arg = joins[0].args[0] if joins[0].args else None
        prefix = (isinstance(sep, ast.Constant) and isinstance(arg, ast.BinOp) and isinstance(arg.op, ast.Add)
                  and "operation" in u(arg.left) and "children" in u(arg.right))
        ok = prefix or has_brackets or not sep_has_op
        ctx.check("R3", ok, ops, "Operator._key", kasg[0],
                  "composite key joins the child keys with the operation as an infix separator and without brackets: the nesting of "
                  "the tree is lost ((a-b)-c and a-(b-c) get the same key)", construct="Operator._key: unambiguous tree encoding",
                  facts={"key_expression": u(kexpr)[:200], "prefix_form": prefix, "brackets": has_brackets})
    else:
        raise Undecided("Operator._key: key is not built with str.join")

    # ---------------- R3c the composite key covers EVERY child -------------------------------------
    # Function evaluations (pp.ad.Function, surrogate operators) have any number of children.  Accepted: an iteration over the
    # whole of self.children (comprehension / for / map) feeding the key, or constant subscripts 0..k-1 together with an
    # iterated open slice [k:].  A key fed only by constant subscripts of self.children (first/last) drops the others.
    okey_r = resolve_aliases(okey)
    full_iter, open_from, const_idx = False, None, set()
    for n_ in walk_local(okey_r):
        its = []
        if isinstance(n_, (ast.ListComp, ast.GeneratorExp, ast.SetComp)):
            its = [g.iter for g in n_.generators]
        elif isinstance(n_, ast.For):
            its = [n_.iter]
        elif isinstance(n_, ast.Call) and call_name(n_) == "map" and len(n_.args) == 2:
            its = [n_.args[1]]
        for it in its:
            if isinstance(it, ast.Call) and call_name(it) in ("enumerate", "list", "tuple", "iter") and it.args:
                it = it.args[0]
            if u(it) == "self.children":
                full_iter = True
            elif isinstance(it, ast.Subscript) and u(it.value) == "self.children" and isinstance(it.slice, ast.Slice) \
                    and it.slice.upper is None and it.slice.step is None:
                lo = it.slice.lower
                open_from = 0 if lo is None else (lo.value if isinstance(lo, ast.Constant) and isinstance(lo.value, int) else None)
        if isinstance(n_, ast.Subscript) and u(n_.value) == "self.children" and isinstance(n_.slice, ast.Constant) and isinstance(n_.slice.value, int):
            const_idx.add(n_.slice.value)
        elif isinstance(n_, ast.Subscript) and u(n_.value) == "self.children" and isinstance(n_.slice, ast.UnaryOp) \
                and isinstance(n_.slice.operand, ast.Constant):
            const_idx.add(-n_.slice.operand.value)
    if full_iter or (open_from is not None and set(range(open_from)) <= const_idx):
        ctx.check("R3", True, ops, "Operator._key", okey, "the composite key iterates over all of self.children", construct="Operator._key: every child enters the key")
    elif const_idx:
        ctx.check("R3", False, ops, "Operator._key", okey,
                  f"the composite key is built from self.children[{sorted(const_idx)}] only: an operator with more children (a function "
                  f"evaluation with three or more arguments) gets the same key whatever its other arguments are",
                  construct="Operator._key: every child enters the key", facts={"constant_subscripts": sorted(const_idx), "open_slice_from": open_from})
    else:
        raise Undecided("Operator._key: how the children enter the key is not of a recognised form")

    # ---------------- R7 the hash is a function of the key alone ------------------------------------
    n7 = 0
    for cname in sorted(H.classes):
        cmod, ccls = H.classes[cname]
        hf = methods(ccls).get("__hash__")
        if hf is None or "Operator" not in H.mro(cname):
            continue
        n7 += 1
        reads = [a for a in self_reads(hf) if a not in ("_key", "__class__")]
        uses_key = any(isinstance(c_, ast.Call) and isinstance(c_.func, ast.Attribute) and c_.func.attr == "_key" and u(c_.func.value) == "self"
                       for c_ in ast.walk(hf))
        uses_id = any(isinstance(c_, ast.Call) and isinstance(c_.func, ast.Name) and c_.func.id == "id" for c_ in ast.walk(hf))
        supers = any(isinstance(c_, ast.Call) and call_name(c_) == "super" for c_ in ast.walk(hf))
        if not uses_key and not reads and not uses_id and not supers:
            raise Undecided(f"{cname}.__hash__: neither the key nor any attribute is used")
        ok = (uses_key or supers) and not reads and not uses_id
        ctx.check("R7", ok, cmod, f"{cname}.__hash__", hf,
                  f"the hash of an operator must be a function of its key alone; {cname}.__hash__ also depends on "
                  f"{['self.' + r_ for r_ in reads] + (['id()'] if uses_id else [])}"
                  f"{'' if uses_key or supers else ' and does not use the key'}: structurally identical trees (equal keys) get different hashes",
                  construct=f"{cname}.__hash__ depends on the key only", facts={"other_reads": reads, "uses_key": uses_key})
    if n7 == 0:
        raise AnchorError("no __hash__ found in the operator hierarchy (Operator.__hash__ expected)")

    # ---------------- R4 interpolation types --------------------------------------------------
    mat = ctx.repo.module(MATOPS)
    slicer_cls = mat.cls("ArraySlicer")
    slicer_props = {n: f for n, f in methods(slicer_cls).items() if H.is_property(f)}
    for rel, cname in LEAF_CLASSES + [(OPS, "Operator")]:
        mod, cls = H.classes[cname]
        kf = methods(cls).get("_key")
        if kf is None:
            continue
        for _lab, e, fv in interpolations(resolve_aliases(kf)):
            bad = None
            if isinstance(e, ast.Attribute) and u(e.value) == "self._slicer" and e.attr in slicer_props:
                ann = slicer_props[e.attr].returns
                if ann is not None and "ndarray" in u(ann):
                    bad = f"`{u(e)}` is an np.ndarray: its str() is truncated beyond 1000 entries, long index arrays collide"
            if u(e) == "self.children":
                bad = "`self.children` is a list of operators: repr() of a Projection contains sizes only"
            if any(isinstance(c_, ast.Call) and isinstance(c_.func, ast.Name) and c_.func.id == "id" for c_ in ast.walk(e)):
                bad = "`id()` of an object: equal trees built twice would get different keys"
            ctx.check("R4", bad is None, mod, f"{cname}._key", fv, bad or "interpolation is a scalar / id list / digest",
                      construct=f"{cname}._key interpolates {u(e)}")

    # ---------------- R6 mutators of key data must invalidate the cached key ----------------------
    n6 = 0
    seen6 = set()
    for rel, cname in LEAF_CLASSES:
        mod, cls = H.classes[cname]
        kf = H.lookup(cname, "_key")
        if kf is None or kf[0] == "Operator":
            continue
        kreads = set()
        for a in key_flow_reads(kf[1]):
            kreads |= H.expand(cname, a)
        caches = any(isinstance(n_, ast.Attribute) and n_.attr == "_cached_key" and isinstance(n_.ctx, ast.Store) for n_ in ast.walk(kf[1]))
        if not caches:
            continue
        for c in H.mro(cname):
            cmod, ccls = H.classes[c]
            for mname, fn in methods(ccls).items():
                if mname in ("__init__", "_key", "_initialize_children") or (c, mname) in seen6:
                    continue
                stores = [st for st in walk_local(fn) if isinstance(st, (ast.Assign, ast.AugAssign)) and any(
                    isinstance(t, ast.Attribute) and isinstance(t.value, ast.Name) and t.value.id == "self" and t.attr in kreads
                    for t in assigned_targets(st))]
                if not stores:
                    continue
                seen6.add((c, mname))
                n6 += 1
                resets = any(isinstance(st, ast.Assign) and any(u(t) == "self._cached_key" for t in st.targets) for st in walk_local(fn))
                attrs = sorted({t.attr for st in stores for t in assigned_targets(st) if isinstance(t, ast.Attribute)})
                ctx.check("R6", resets, cmod, f"{c}.{mname}", stores[0],
                          f"{mname} changes {attrs}, which the key of {cname} depends on, but does not reset `_cached_key`: after the key was "
                          f"computed once the operator keeps reporting the old key", construct=f"{c}.{mname}: key data changed without resetting _cached_key")
    if n6 == 0:
        raise AnchorError("no mutator of key data found (Scalar.set_value / Operator.set_name expected)")

    # ---------------- R5 copies must not inherit the cached key ---------------------------------
    sites = [("TimeDependentOperator.previous_timestep", ops.func("TimeDependentOperator.previous_timestep")),
             ("IterativeOperator.previous_iteration", ops.func("IterativeOperator.previous_iteration")),
             ("_get_previous_time_or_iterate", ops.func("_get_previous_time_or_iterate"))]
    for q, fn in sites:
        copies = [s for s in walk_local(fn) if isinstance(s, ast.Assign) and isinstance(s.value, ast.Call)
                  and (dotted(s.value.func) in ("copy.copy", "copy.deepcopy") or call_name(s.value) == "copy")]
        if not copies:
            raise Undecided(f"{q}: no copy site")
        for cp in copies:
            nm = u(cp.targets[0])
            reset = any(isinstance(s, ast.Assign) and any(u(t) == f"{nm}._cached_key" for t in s.targets) and isinstance(s.value, ast.Constant)
                        and s.value.value is None for s in walk_local(fn))
            ctx.check("R5", reset, ops, q, cp, f"`{nm}` is a copy of an operator whose `_cached_key` may already be set; it is modified afterwards "
                      f"but the cached key is not reset, so the copy reports the original's key", construct=f"{q}: copy keeps _cached_key")


def _m(name, old, new, rule, file=OPS, control=False, count=1):
    return dict(name=name, file=file, old=old, new=new, rule=rule, control=control, count=count)


MUTANTS = [
    _m("seed-composite-key-infix", "            tmp = [self.operation.value] + [child._key() for child in self.children]\n            self._cached_key = \" \".join(tmp)",
       "            tmp = [child._key() for child in self.children]\n            self._cached_key = f\" {self.operation.value} \".join(tmp)", "R3"),
    _m("revert-fix-domain-size", 's += f", domain_size={self._slicer.domain_size}"', 's += f", domain_size={self._slicer.domain_indices}"', "R2", control=True),
    _m("drop-range-size", '            s += f", range_size={self._slicer.range_size}"\n', "", "R2"),
    _m("drop-transposed", '            if self._slicer._is_transposed:\n                s += ", transposed"\n', "", "R2"),
    _m("scalar-key-constant", 'self._cached_key = f"(scalar, {self._value})"', 'self._cached_key = "(scalar)"', "R1", control=True),
    _m("dense-key-without-hash", 'self._cached_key = f"(dense_array, hash={self._hash_value})"', 'self._cached_key = f"(dense_array, size={self._values.size})"', "R1"),
    _m("variable-key-without-domain", 'self._cached_key = f"(var, name={self.name}, domain={str(self.domain.id)})"', 'self._cached_key = f"(var, name={self.name})"', "R1"),
    _m("merged-key-without-physics", '            s += f", physics_key={self._physics_key}"\n', "", "R1", file=ADUTILS),
    _m("divergence-key-without-dim", 'return f"(divergence, dim={self.dim}, subdomains={subdomain_ids})"', 'return f"(divergence, subdomains={subdomain_ids})"', "R1", file=GRIDOPS),
    _m("seed-dense-hash-from-raw-input", "        self._hash_value: str = sha256(\n            self._values,", "        self._hash_value: str = sha256(\n            values,", "R1"),
    _m("seed-composite-key-first-and-last-child", "            tmp = [self.operation.value] + [child._key() for child in self.children]\n",
       "            left, right = self.children[0], self.children[-1]\n            tmp = [self.operation.value, left._key(), right._key()]\n", "R3"),
    _m("seed-hash-includes-name", "        return hash(self._key())", "        return hash((self._name, self._key()))", "R7", control=True),
    _m("hash-by-identity", "        return hash(self._key())", "        return id(self)", "R7"),
    _m("composite-key-without-operation", "tmp = [self.operation.value] + [child._key() for child in self.children]", "tmp = [child._key() for child in self.children]", "R3"),
    _m("key-with-object-id", 'self._cached_key = f"(scalar, {self._value})"', 'self._cached_key = f"(scalar, {self._value}, {id(self)})"', "R4"),
    _m("tdarray-key-without-name", 'f"(time_dependent_dense_array, name={self.name}, domains={domain_ids})"', 'f"(time_dependent_dense_array, domains={domain_ids})"', "R1"),
]
