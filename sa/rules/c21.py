"""C21 - grid connectivity queries agree with the signed cell-face incidence: structural clauses.

Nothing is executed.  The queries of Grid are one- to ten-line sparse-matrix programs; they are typed over the
spaces faces / cells / nodes (and orderings of the requested faces), with a signed/unsigned attribute, and the
clauses decided are those whose violation gives a wrong answer for some grid although every unit test on a small
symmetric grid may pass.
"""
from __future__ import annotations

import ast
from typing import Optional

from ..core.astutil import u, call_name, kwarg, names_in
from ..core.loader import AnchorError, Undecided
from ..core.report import Ctx
from .c17 import producer as dense_producer
from .c35 import View, _nodes, _const_int, _raises, _slice_kind, nd_numbering, kron_sides, _CMP, MO, AO

GRID = "src/porepy/grids/grid.py"
TAGS = "src/porepy/utils/tags.py"

META = {
    "explanation": (
        "R1 (reused from C17, not re-implemented): Grid.cell_faces_as_dense unpacks find(cell_faces) as (faces, cells, signs), "
        "writes the cells of each sign class to one row under one mask, exterior marker negative. "
        "R2 signs_and_cells_of_boundary_faces, typed over orderings: IA=argsort(faces) maps sorted->given order, "
        "argsort of a permutation is its inverse, the triple (row, col, data) of the row-selected sub-matrix lives on its "
        "entries; every gather X[p] needs X to live on the co-domain of p; argsort(row) is an inverse only under the guard "
        "'number of entries == number of requested faces' (each face has exactly one cell); the two returned arrays are the "
        "data (signs) and the column numbers (cells), both in the order of the argument `faces`; the helper returning the "
        "triple returns (row, col, data) on every arm. "
        "R3 cell_connection_map / cell_nodes, typed over (row space, column space, signed?): the connection map is X^T X with "
        "one and the same X derived from cell_faces (cells x cells, symmetric by construction), cell_nodes is "
        "face_nodes (nodes x faces) times a faces x cells matrix; a positive threshold (clip(.,0,1), > 0) is only applied to "
        "products of sign-free factors (with signs, neighbours give -1 and are lost / contributions cancel); the grid's own "
        "cell_faces is never modified (data is only overwritten on a copy). "
        "R4 divergence / trace: the scalar arm is cell_faces^T (cells x faces), the vector arm is the transpose of "
        "kron(cell_faces, eye(dim)), i.e. the numbering nd*index+component that utils.expand_indices_nd produces and that "
        "Grid.trace uses for both rows (faces) and columns (cells); the identity has the size of the argument; non-positive "
        "dim raises. R5 update_boundary_face_tag: the per-line entry count that is compared lives on FACES (pointer array of "
        "the csr form / getnnz(axis=1) / sum over axis 1 of cell_faces, which is faces x cells), the comparison holds for 1 and "
        "not for 2, the tag array is re-created with num_faces entries before the faces are set. R6 tag tables: all_tags "
        "ORs every entry of the standard tag list, the face/node accessor pairs use the face/node list, the face->node tag map "
        "of update_boundary_node_tag maps every standard face tag to the node tag of the same stem. "
        "Not decided: the incidence matrix itself (signs, one or two cells per face - C25/C22), numerical geometry, "
        "fracture/tip tags (set by the meshing code)."),
    "rule_text": "one obligation per (store of the dense array | typed gather | guard | returned array | matrix factor | threshold | "
                 "arm of divergence | expansion call | count/compare/store of the tag update | table row)",
    "trusted_base": ["python ast", "sa.core", "sa.rules.c17.producer (R1)", "sa.rules.c35 (View, Kronecker numbering extraction)",
                     "cell_faces is faces x cells with entries +-1, face_nodes is nodes x faces (Grid docstring)",
                     "scipy: find / coo (row, col, data); csr pointer array runs over rows; kron(A, eye(n)) numbers n*i+c",
                     "numpy: argsort of a permutation is its inverse; X[p][q] == X[p[q]]"],
    "assumptions": ["every face has at least one neighbouring cell (so 'as many entries as faces' means one entry per face)",
                    "sps.spmatrix `*` between two sparse matrices is the matrix product"],
    "technique": "abstract interpretation over index spaces/orderings (permutation algebra) and over (row space, column space, "
                 "signedness) of sparse expressions; cross-module convention agreement for the Kronecker numbering",
}
MIN_INSTANCES = {"R1": 5, "R2": 11, "R3": 8, "R4": 9, "R5": 4, "R6": 12}

FIND_LIKE = {"sparse_array_to_row_col_data", "find"}


# =====================================================================================
#  R2  signs_and_cells_of_boundary_faces: orderings
# =====================================================================================

def _fmt(t) -> str:
    if t is None:
        return "?"
    if isinstance(t, tuple):
        return t[0] + "(" + ", ".join(_fmt(x) for x in t[1:]) + ")"
    return str(t)


class PermInterp:
    """values:  ("arr", space, content)   1-d array living on `space`
                ("perm", dom, cod, bij)   array on dom whose entries are positions of cod
                ("mat", rowspace)         rows of self.cell_faces selected in the order of `rowspace`
                ("size", space)           number of elements of a space
                ("tuple", [..])"""

    def __init__(self, f: View, report):
        self.f = f
        self.env: dict[str, object] = {}
        self.report = report
        self.bijective: set = set()    # entry spaces known to have one entry per row (guard seen)
        self.guards: list = []
        self.needs_guard: list = []
        self.returns: list = []
        self.n_entries = 0

    def space(self, v):
        if v is None:
            return None
        if v[0] in ("arr",):
            return v[1]
        if v[0] == "perm":
            return v[1]
        return None

    def ev(self, e: ast.expr):
        if isinstance(e, ast.Name):
            return self.env.get(e.id)
        if isinstance(e, ast.Tuple):
            return ("tuple", [self.ev(x) for x in e.elts])
        if isinstance(e, ast.Attribute):
            if e.attr == "size":
                sp = self.space(self.ev(e.value))
                return ("size", sp) if sp is not None else None
            if u(e) == "self.cell_faces":
                return ("cf",)
            return None
        if isinstance(e, ast.Call):
            nm = call_name(e)
            if nm == "len" and e.args:
                sp = self.space(self.ev(e.args[0]))
                return ("size", sp) if sp is not None else None
            if nm == "argsort":
                x = e.args[0] if e.args else (e.func.value if isinstance(e.func, ast.Attribute) else None)
                v = self.ev(x) if x is not None else None
                if v is None:
                    return None
                if v[0] == "arr":
                    return ("perm", ("sorted", v[1], u(x)), v[1], True)
                if v[0] == "perm":
                    dom, cod, bij = v[1], v[2], v[3]
                    if not bij and dom not in self.bijective:
                        self.needs_guard.append((e, dom, cod))
                    return ("perm", cod, dom, True)
                return None
            if nm in FIND_LIKE and e.args:
                v = self.ev(e.args[0])
                if v and v[0] == "mat":
                    self.n_entries += 1
                    E = ("entries", self.n_entries)
                    self.entry_rows = {**getattr(self, "entry_rows", {}), E: v[1]}
                    return ("tuple", [("perm", E, v[1], False), ("arr", E, "cells"), ("arr", E, "signs")])
                return None
            if nm in ("tocsr", "tocsc", "tocoo", "copy") and isinstance(e.func, ast.Attribute) and not e.args:
                return self.ev(e.func.value)
            if nm in ("ravel", "astype", "flatten", "squeeze") and isinstance(e.func, ast.Attribute) \
                    and not (isinstance(e.func.value, ast.Name) and e.func.value.id in ("np", "numpy")):
                return self.ev(e.func.value)
            if nm in ("asarray", "array", "atleast_1d", "ravel") and e.args:
                return self.ev(e.args[0])
            return None
        if isinstance(e, ast.Subscript):
            v = self.ev(e.value)
            if v is None:
                return None
            sl = e.slice
            if v[0] == "cf":
                rows = sl
                if isinstance(sl, ast.Tuple):
                    if len(sl.elts) == 2 and _slice_kind(sl.elts[1]) == "full":
                        rows = sl.elts[0]
                    else:
                        return None
                r = self.ev(rows)
                if r and r[0] == "arr" and r[2] == "faces":
                    return ("mat", r[1])
                return None
            if v[0] == "tuple" and _const_int(sl) is not None and 0 <= _const_int(sl) < len(v[1]):  # type: ignore[operator]
                return v[1][_const_int(sl)]  # type: ignore[index]
            if v[0] == "size":
                return None
            idx = self.ev(sl) if not isinstance(sl, ast.Slice) else None
            if _slice_kind(sl) == "full":
                return v
            if idx is None or idx[0] != "perm":
                return None
            dom, cod = idx[1], idx[2]
            if v[0] == "arr":
                self.report("gather", v[1] == cod, e,
                            f"`{u(e)}`: the array lives on {_fmt(v[1])} but the index array holds positions of {_fmt(cod)}",
                            {"array": _fmt(v), "index": _fmt(idx)})
                return ("arr", dom, v[2])
            if v[0] == "perm":
                self.report("gather", v[1] == cod, e,
                            f"`{u(e)}`: composing maps: the indexed map lives on {_fmt(v[1])}, the index array holds positions of {_fmt(cod)}",
                            {"array": _fmt(v), "index": _fmt(idx)})
                return ("perm", dom, v[2], bool(v[3] and idx[3]))
            return None
        return None

    def _size_guard(self, test: ast.expr) -> Optional[tuple]:
        """`fi.size != faces.size`-like test -> (entry space, row space) when it compares an entry count with a row count"""
        t = test
        neg = False
        if isinstance(t, ast.UnaryOp) and isinstance(t.op, ast.Not):
            t, neg = t.operand, True
        if not (isinstance(t, ast.Compare) and len(t.ops) == 1):
            return None
        op = t.ops[0]
        differs = (isinstance(op, ast.NotEq) and not neg) or (isinstance(op, ast.Eq) and neg)
        a, b = self.ev(t.left), self.ev(t.comparators[0])
        if not (a and b and a[0] == b[0] == "size"):
            return None
        rows = getattr(self, "entry_rows", {})
        for x, y in ((a, b), (b, a)):
            if x[1] in rows:
                ok_rows = y[1] == rows[x[1]] or (isinstance(rows[x[1]], tuple) and rows[x[1]][0] == "sorted" and rows[x[1]][1] == y[1]) \
                    or (isinstance(y[1], tuple) and y[1][0] == "sorted" and y[1][1] == rows[x[1]])
                return (x[1], ok_rows, differs)
        return None

    def run(self, body: list) -> None:
        for s in body:
            if isinstance(s, ast.Expr) and isinstance(s.value, ast.Constant):
                continue
            if isinstance(s, ast.If):
                g = self._size_guard(s.test)
                if g is not None and _raises(s.body) and not s.orelse:
                    self.guards.append((s, g))
                    if g[1] and g[2]:
                        self.bijective.add(g[0])
                        for k, v in list(self.env.items()):
                            if isinstance(v, tuple) and v and v[0] == "perm" and v[1] == g[0]:
                                self.env[k] = ("perm", v[1], v[2], True)
                    continue
                if _raises(s.body) and not s.orelse:
                    continue
                raise self.f.und("conditional not handled by the ordering interpreter", s)
            if isinstance(s, ast.Assign) and len(s.targets) == 1:
                t = s.targets[0]
                v = self.ev(s.value)
                if isinstance(t, ast.Name):
                    self.env[t.id] = v
                    continue
                if isinstance(t, ast.Tuple) and all(isinstance(x, ast.Name) for x in t.elts):
                    vals = v[1] if (v and v[0] == "tuple" and len(v[1]) == len(t.elts)) else [None] * len(t.elts)
                    for x, vv in zip(t.elts, vals):
                        self.env[x.id] = vv  # type: ignore[attr-defined]
                    continue
            if isinstance(s, ast.Return):
                self.returns.append((s, self.ev(s.value) if s.value is not None else None))
                continue
            if isinstance(s, (ast.Raise, ast.Pass)):
                continue
            raise self.f.und("statement form not handled by the ordering interpreter", s)


def rule_signs_and_cells(ctx: Ctx, mod, mo_mod) -> None:
    q = "Grid.signs_and_cells_of_boundary_faces"
    f = View(mod, q)
    if f.params[:2] != ["self", "faces"]:
        raise AnchorError(f"{GRID}:{q}: signature changed ({f.params})")

    def report(kind, ok, node, msg, facts):
        ctx.check("R2", ok, mod, q, node, msg, facts=facts)

    it = PermInterp(f, report)
    it.env["faces"] = ("arr", "given", "faces")
    it.run(f.fn.body)
    if it.n_entries != 1:
        raise AnchorError(f"{GRID}:{q}: expected one (row, col, data) decomposition of rows of self.cell_faces, found {it.n_entries}")
    # guard: one entry per requested face
    E = ("entries", 1)
    good = [g for g in it.guards if g[1][0] == E]
    if not good:
        tests = [s for s in f.stmts if isinstance(s, ast.If) and _raises(s.body)]
        if tests:
            raise f.und("a raising test is present but is not a recognised comparison of the entry count with the face count", tests[0])
        ctx.check("R2", False, mod, q, f.fn,
                  "nothing verifies that each requested face has exactly one neighbouring cell: for an internal face the sub-matrix has "
                  "two entries and the arrays returned have the wrong length / pairing", construct="guard: one entry per requested face")
    else:
        s, (sp, ok_rows, differs) = good[0]
        ctx.check("R2", ok_rows and differs, mod, q, s,
                  f"the guard must raise when the number of entries of the sub-matrix differs from the number of requested faces; "
                  f"found `{u(s.test)}`", construct="guard: one entry per requested face", facts={"test": u(s.test)})
    for node, dom, cod in it.needs_guard:
        ctx.check("R2", False, mod, q, node,
                  f"argsort of the row numbers is used as the inverse map rows -> entries before it is known that every row has exactly "
                  f"one entry (`{u(node)}`)", construct="inverse of the row map taken under the guard")
    if not it.needs_guard:
        ctx.check("R2", True, mod, q, f.fn, "", construct="inverse of the row map taken under the guard",
                  desc="argsort(row numbers) is taken after the one-entry-per-face guard")
    rets = [(s, v) for s, v in it.returns if s.value is not None]
    if len(rets) != 1 or not (rets[0][1] and rets[0][1][0] == "tuple" and len(rets[0][1][1]) == 2):
        raise f.und("expected one `return signs, cells`")
    rs, rv = rets[0]
    for k, (v, want, what) in enumerate(zip(rv[1], ("signs", "cells"), ("data of the sub-matrix (sign)", "column numbers (cells)"))):
        if v is None:
            raise f.und(f"cannot type returned array {k}", rs)
        ok = v[0] == "arr" and v[1] == "given" and v[2] == want
        ctx.check("R2", ok, mod, q, rs,
                  f"returned array {k} must be the {what} in the order of the argument `faces`; it is typed {_fmt(v)} "
                  f"('given' = order of the argument; 'sorted' = ascending face number; 'entries' = storage order of the sub-matrix)",
                  construct=f"returned array {k}: {want} in the order of `faces`", facts={"type": _fmt(v)})
    # the helper's triple
    for fl in [n for n in _nodes(f) if isinstance(n, ast.Call) and call_name(n) in FIND_LIKE]:
        if call_name(fl) == "sparse_array_to_row_col_data":
            h = mo_mod.func("sparse_array_to_row_col_data")
            hr = [n for n in ast.walk(h) if isinstance(n, ast.Return) and n.value is not None]
            if not hr:
                raise AnchorError(f"{MO}:sparse_array_to_row_col_data: no return")
            for r in hr:
                if not (isinstance(r.value, ast.Tuple) and len(r.value.elts) == 3):
                    raise Undecided(f"{MO}:sparse_array_to_row_col_data: return is not a triple")
                roles = []
                for x in r.value.elts:
                    attrs = [n.attr for n in ast.walk(x) if isinstance(n, ast.Attribute) and n.attr in ("row", "col", "data")]
                    roles.append(attrs[0] if attrs else "?")
                if "?" in roles:
                    raise Undecided(f"{MO}:sparse_array_to_row_col_data: returned triple not built from .row/.col/.data")
                ctx.check("R2", roles == ["row", "col", "data"], mo_mod, "sparse_array_to_row_col_data", r,
                          f"callers unpack the triple as (rows, columns, values) like scipy.sparse.find; this arm returns {roles}",
                          construct=f"triple order on the arm returning {len(u(r.value)) > 50 and 'masked' or 'all'} entries",
                          facts={"roles": roles})
    ctx.sample({"rule": "R2", "spaces": {"given": "order of the argument faces", "sorted(given)": "ascending face number",
                                         "entries": "storage order of the entries of the sub-matrix"}})


# =====================================================================================
#  R3  cell_connection_map / cell_nodes: (row space, column space, signedness)
# =====================================================================================

BASE_MATS = {"self.cell_faces": ("F", "C", "signed"), "self.face_nodes": ("N", "F", "unsigned")}
SPACE_NAME = {"F": "faces", "C": "cells", "N": "nodes"}
CONV = {"tocsr", "tocsc", "tocoo", "asformat", "tolil"}


def _sp(x) -> str:
    return SPACE_NAME.get(x, str(x))


class MatInterp:
    """values: ("mat", R, C, sign, key, alias)   sign in signed|unsigned ; alias: 'self' (the grid's own object),
    'maybe' (a format conversion that may return the object itself), 'fresh'"""

    def __init__(self, f: View, report):
        self.f = f
        self.env: dict[str, object] = {}
        self.report = report
        self.returns: list = []
        self.products: list = []
        self.thresholds: list = []
        self.mutations: list = []

    def ev(self, e: ast.expr):
        if isinstance(e, ast.Name):
            return self.env.get(e.id)
        t = u(e)
        if t in BASE_MATS:
            r, c, sg = BASE_MATS[t]
            return ("mat", r, c, sg, t, "self")
        if isinstance(e, ast.Attribute) and e.attr == "T":
            v = self.ev(e.value)
            return ("mat", v[2], v[1], v[3], f"({v[4]})^T", "fresh") if v and v[0] == "mat" else None
        if isinstance(e, ast.Call):
            nm = call_name(e)
            recv = e.func.value if isinstance(e.func, ast.Attribute) else None
            is_np = isinstance(recv, ast.Name) and recv.id in ("np", "numpy", "sps", "scipy")
            if recv is not None and not is_np:
                v = self.ev(recv)
                if v and v[0] == "data" and nm in ("astype", "copy"):
                    return v
                if v and v[0] == "mat":
                    if nm == "transpose" and not e.args:
                        return ("mat", v[2], v[1], v[3], f"({v[4]})^T", "fresh")
                    if nm == "copy":
                        return ("mat", v[1], v[2], v[3], v[4], "fresh")
                    if nm in CONV:
                        return ("mat", v[1], v[2], v[3], v[4], "maybe" if v[5] != "fresh" else "fresh")
                    if nm == "astype" and e.args:
                        a = u(e.args[0]).strip("'\"")
                        return ("mat", v[1], v[2], "unsigned" if a in ("bool", "np.bool_") else v[3],
                                v[4] if a not in ("bool", "np.bool_") else f"nz({v[4]})", "fresh")
                    if nm in ("dot", "__matmul__", "__mul__") and len(e.args) == 1:
                        return self.product(e, v, self.ev(e.args[0]))
                    if nm == "__abs__" and not e.args:
                        return ("mat", v[1], v[2], "unsigned", f"abs({v[4]})", "fresh")
                    if nm == "power" and e.args and _const_int(e.args[0]) is not None and _const_int(e.args[0]) % 2 == 0:  # type: ignore[operator]
                        return ("mat", v[1], v[2], "unsigned", f"abs({v[4]})", "fresh")
                return None
            if nm in ("abs", "absolute") and len(e.args) == 1:
                v = self.ev(e.args[0])
                if v and v[0] == "mat":
                    return ("mat", v[1], v[2], "unsigned", f"abs({v[4]})", "fresh")
                if v and v[0] == "data":
                    return ("data", v[1], "abs")
                return None
            if nm == "clip" and len(e.args) == 3:
                v = self.ev(e.args[0])
                if v and v[0] == "data" and _const_int(e.args[1]) == 0 and _const_int(e.args[2]) is not None and _const_int(e.args[2]) >= 1:  # type: ignore[operator]
                    return ("data", v[1], "positive-threshold")
                return None
            if nm == "sign" and len(e.args) == 1:
                v = self.ev(e.args[0])
                return v if v and v[0] == "data" else None
            if nm == "astype" and recv is not None:
                v = self.ev(recv)
                return v if v and v[0] == "data" else None
            return None
        if isinstance(e, ast.Attribute) and e.attr == "data":
            v = self.ev(e.value)
            return ("data", e.value.id if isinstance(e.value, ast.Name) else u(e.value), "raw") if v and v[0] == "mat" else None
        if isinstance(e, ast.BinOp) and isinstance(e.op, (ast.MatMult, ast.Mult)):
            a, b = self.ev(e.left), self.ev(e.right)
            if a and b and a[0] == b[0] == "mat":
                return self.product(e, a, b)
            return None
        if isinstance(e, ast.Compare) and len(e.ops) == 1 and _const_int(e.comparators[0]) is not None:
            v = self.ev(e.left)
            if v and v[0] == "mat":
                c = _const_int(e.comparators[0])
                op = type(e.ops[0])
                if op not in _CMP:
                    return None
                truth = [_CMP[op](x - c) for x in (-1, 0, 1, 2)]  # type: ignore[operator]
                kind = "positive" if truth == [False, False, True, True] else ("nonzero" if truth == [True, False, True, True] else None)
                if kind is None:
                    raise self.f.und("comparison of a matrix with a constant that is neither > 0 nor != 0", e)
                self.thresholds.append((e, v, kind))
                return ("mat", v[1], v[2], "unsigned", f"{kind}({v[4]})", "fresh")
        return None

    def product(self, node, a, b):
        if not (a and b and a[0] == b[0] == "mat"):
            return None
        self.products.append((node, a, b))
        sg = "unsigned" if a[3] == b[3] == "unsigned" else "signed"
        return ("mat", a[1], b[2], sg, f"({a[4]})@({b[4]})", "fresh")

    def run(self, body: list) -> None:
        for s in body:
            if isinstance(s, ast.Expr) and isinstance(s.value, ast.Constant):
                continue
            if isinstance(s, ast.Assign) and len(s.targets) == 1:
                t = s.targets[0]
                if isinstance(t, ast.Name):
                    self.env[t.id] = self.ev(s.value)
                    continue
                if isinstance(t, ast.Attribute) and t.attr == "data":
                    owner = self.ev(t.value)
                    val = self.ev(s.value)
                    if not (owner and owner[0] == "mat"):
                        raise self.f.und("store into .data of an untyped object", s)
                    self.mutations.append((s, owner, val))
                    name = t.value.id if isinstance(t.value, ast.Name) else None
                    if val and val[0] == "data" and name is not None:
                        if val[2] == "abs":
                            self.env[name] = ("mat", owner[1], owner[2], "unsigned", f"abs({owner[4]})", owner[5])
                        elif val[2] == "positive-threshold":
                            self.thresholds.append((s, owner, "positive"))
                            self.env[name] = ("mat", owner[1], owner[2], "unsigned", f"positive({owner[4]})", owner[5])
                        elif val[2] == "raw":
                            pass
                    else:
                        raise self.f.und("unrecognised transformation of .data", s)
                    continue
            if isinstance(s, ast.Return):
                self.returns.append((s, self.ev(s.value) if s.value is not None else None))
                continue
            raise self.f.und("statement form not handled by the matrix interpreter", s)


def rule_connection_maps(ctx: Ctx, mod) -> None:
    for q, want, sym in (("Grid.cell_connection_map", ("C", "C"), True), ("Grid.cell_nodes", ("N", "C"), False)):
        f = View(mod, q)

        def report(kind, ok, node, msg, facts):
            ctx.check("R3", ok, mod, q, node, msg, facts=facts)

        it = MatInterp(f, report)
        it.run(f.fn.body)
        rets = [(s, v) for s, v in it.returns]
        if len(rets) != 1 or rets[0][1] is None or rets[0][1][0] != "mat":
            raise f.und("cannot type the returned matrix")
        rs, rv = rets[0]
        ctx.check("R3", (rv[1], rv[2]) == want, mod, q, rs,
                  f"{q.split('.')[1]} must be {_sp(want[0])} x {_sp(want[1])}; the returned expression is {_sp(rv[1])} x {_sp(rv[2])} "
                  f"[{rv[4]}]", construct=f"{q.split('.')[1]}: result is {_sp(want[0])} x {_sp(want[1])}", facts={"term": rv[4]})
        if not it.products:
            raise f.und("no matrix product found")
        for node, a, b in it.products:
            ctx.check("R3", a[2] == b[1], mod, q, node,
                      f"in the product the columns of the left factor ({_sp(a[2])}) must be the rows of the right factor ({_sp(b[1])}) "
                      f"[{a[4]}] @ [{b[4]}]", construct=f"{q.split('.')[1]}: inner spaces of the product agree",
                      facts={"left": a[4], "right": b[4]})
            if sym:
                ctx.check("R3", a[4] == f"({b[4]})^T", mod, q, node,
                          f"the connection map is symmetric by construction only if it is X^T X with one and the same X; found "
                          f"[{a[4]}] @ [{b[4]}]", construct="cell_connection_map: X^T X with the same X", facts={"left": a[4], "right": b[4]})
        pos = [(n, v, k) for n, v, k in it.thresholds if k == "positive"]
        non = [(n, v, k) for n, v, k in it.thresholds if k == "nonzero"]
        for n, v, k in non:
            if v[3] == "signed":
                raise f.und("non-zero test of a product with signed factors: cancellation cannot be excluded statically", n)
        if not it.thresholds:
            raise f.und("no boolean conversion of the product found")
        for n, v, k in pos:
            ctx.check("R3", v[3] == "unsigned", mod, q, n,
                      f"a positive threshold (> 0 / clip to [0, 1]) is applied to [{v[4]}], which has signed factors: two cells sharing a "
                      f"face contribute (+1)(-1) = -1 and are reported as not connected; contributions of opposite sign cancel",
                      construct=f"{q.split('.')[1]}: positive threshold only on sign-free products", facts={"term": v[4], "sign": v[3]})
        for n, v, k in non:
            ctx.check("R3", True, mod, q, n, "", construct=f"{q.split('.')[1]}: non-zero test on sign-free product",
                      desc="non-zero test of a product of sign-free factors")
        for s, owner, val in it.mutations:
            if owner[5] == "maybe":
                raise f.und("data of a format-converted view of the grid's matrix is overwritten (conversion may return the object itself)", s)
            ctx.check("R3", owner[5] == "fresh", mod, q, s,
                      f"`{u(s)[:80]}` overwrites the data of {owner[4]} itself (no copy): after the call the grid's incidence has lost "
                      f"its signs, divergence and every discretisation built later are wrong", construct=f"{q.split('.')[1]}: data overwritten only on a copy",
                      facts={"owner": owner[4], "alias": owner[5]})
