"""C21 - grid connectivity queries agree with the signed cell-face incidence: structural clauses.

Nothing is executed.  The queries of Grid are one- to ten-line sparse-matrix programs; they are typed over the
spaces faces / cells / nodes (and orderings of the requested faces), with a signed/unsigned attribute, and the
clauses decided are those whose violation gives a wrong answer for some grid although every unit test on a small
symmetric grid may pass.
"""
from __future__ import annotations

import ast
from typing import Optional

from ..core.astutil import u, call_name, kwarg, names_in
from ..core.loader import AnchorError, Undecided
from ..core.report import Ctx
from .c17 import producer as dense_producer
from .c35 import View, _nodes, _const_int, _raises, _slice_kind, nd_numbering, kron_sides, param_values, _CMP, MO, AO

GRID = "src/porepy/grids/grid.py"
TAGS = "src/porepy/utils/tags.py"

META = {
    "explanation": (
        "R1 (reused from C17, not re-implemented): Grid.cell_faces_as_dense unpacks find(cell_faces) as (faces, cells, signs), "
        "writes the cells of each sign class to one row under one mask, exterior marker negative. "
        "R2 signs_and_cells_of_boundary_faces, typed over orderings: IA=argsort(faces) maps sorted->given order, "
        "argsort of a permutation is its inverse, the triple (row, col, data) of the row-selected sub-matrix lives on its "
        "entries; every gather X[p] needs X to live on the co-domain of p; argsort(row) is an inverse only under the guard "
        "'number of entries == number of requested faces' (each face has exactly one cell); the two returned arrays are the "
        "data (signs) and the column numbers (cells), both in the order of the argument `faces`; the helper returning the "
        "triple returns (row, col, data) on every arm. "
        "R3 cell_connection_map / cell_nodes, typed over (row space, column space, signed?): the connection map is X^T X with "
        "one and the same X derived from cell_faces (cells x cells, symmetric by construction), cell_nodes is "
        "face_nodes (nodes x faces) times a faces x cells matrix; a positive threshold (clip(.,0,1), > 0) is only applied to "
        "products of sign-free factors (with signs, neighbours give -1 and are lost / contributions cancel); the grid's own "
        "cell_faces is never modified (data is only overwritten on a copy). "
        "R4 divergence / trace: the scalar arm is cell_faces^T (cells x faces), the vector arm is the transpose of "
        "kron(cell_faces, eye(dim)), i.e. the numbering nd*index+component that utils.expand_indices_nd produces and that "
        "Grid.trace uses for both rows (faces) and columns (cells); the identity has the size of the argument; non-positive "
        "dim raises. R5 update_boundary_face_tag: the per-line entry count that is compared lives on FACES (pointer array of "
        "the csr form / getnnz(axis=1) / sum over axis 1 of cell_faces, which is faces x cells), the comparison holds for 1 and "
        "not for 2, the tag array is re-created with num_faces entries before the faces are set. R6 tag tables: all_tags "
        "ORs every entry of the standard tag list, the face/node accessor pairs use the face/node list, the face->node tag map "
        "of update_boundary_node_tag maps every standard face tag to the node tag of the same stem. "
        "R7 no connectivity query is memoised (lru_cache / result kept on self): cell_faces is modified in place by grid splitting. "
        "Not decided: the incidence matrix itself (signs, one or two cells per face - C25/C22), numerical geometry, "
        "fracture/tip tags (set by the meshing code)."),
    "rule_text": "one obligation per (store of the dense array | typed gather | guard | returned array | matrix factor | threshold | "
                 "arm of divergence | expansion call | count/compare/store of the tag update | table row)",
    "trusted_base": ["python ast", "sa.core", "sa.rules.c17.producer (R1)", "sa.rules.c35 (View, Kronecker numbering extraction)",
                     "cell_faces is faces x cells with entries +-1, face_nodes is nodes x faces (Grid docstring)",
                     "scipy: find / coo (row, col, data); csr pointer array runs over rows; kron(A, eye(n)) numbers n*i+c",
                     "numpy: argsort of a permutation is its inverse; X[p][q] == X[p[q]]"],
    "assumptions": ["every face has at least one neighbouring cell (so 'as many entries as faces' means one entry per face)",
                    "sps.spmatrix `*` between two sparse matrices is the matrix product"],
    "technique": "abstract interpretation over index spaces/orderings (permutation algebra) and over (row space, column space, "
                 "signedness) of sparse expressions; cross-module convention agreement for the Kronecker numbering",
}
MIN_INSTANCES = {"R1": 5, "R2": 8, "R3": 6, "R4": 11, "R5": 5, "R6": 13, "R7": 9}

FIND_LIKE = {"sparse_array_to_row_col_data", "find"}


# =====================================================================================
#  R2  signs_and_cells_of_boundary_faces: orderings
# =====================================================================================

def _fmt(t) -> str:
    if t is None:
        return "?"
    if isinstance(t, tuple):
        return t[0] + "(" + ", ".join(_fmt(x) for x in t[1:]) + ")"
    return str(t)


class PermInterp:
    """values:  ("arr", space, content)   1-d array living on `space`
                ("perm", dom, cod, bij)   array on dom whose entries are positions of cod
                ("mat", rowspace)         rows of self.cell_faces selected in the order of `rowspace`
                ("size", space)           number of elements of a space
                ("tuple", [..])"""

    def __init__(self, f: View, report):
        self.f = f
        self.env: dict[str, object] = {}
        self.report = report
        self.bijective: set = set()    # entry spaces known to have one entry per row (guard seen)
        self.guards: list = []
        self.needs_guard: list = []
        self.returns: list = []
        self.n_entries = 0

    def space(self, v):
        if v is None:
            return None
        if v[0] in ("arr",):
            return v[1]
        if v[0] == "perm":
            return v[1]
        return None

    def ev(self, e: ast.expr):
        if isinstance(e, ast.Name):
            return self.env.get(e.id)
        if isinstance(e, ast.Tuple):
            return ("tuple", [self.ev(x) for x in e.elts])
        if isinstance(e, ast.Attribute):
            if e.attr == "size":
                sp = self.space(self.ev(e.value))
                return ("size", sp) if sp is not None else None
            if u(e) == "self.cell_faces":
                return ("cf",)
            return None
        if isinstance(e, ast.Subscript) and isinstance(e.value, ast.Attribute) and e.value.attr == "shape" and _const_int(e.slice) == 0:
            sp = self.space(self.ev(e.value.value))
            return ("size", sp) if sp is not None else None
        if isinstance(e, ast.Call) and call_name(e) not in ("abs", "absolute", "sign", "negative"):
            nm = call_name(e)
            if nm == "len" and e.args:
                sp = self.space(self.ev(e.args[0]))
                return ("size", sp) if sp is not None else None
            if nm == "argsort":
                x = e.args[0] if e.args else (e.func.value if isinstance(e.func, ast.Attribute) else None)
                v = self.ev(x) if x is not None else None
                if v is None:
                    return None
                if v[0] == "arr":
                    return ("perm", ("sorted", v[1], u(x)), v[1], True)
                if v[0] == "perm":
                    dom, cod, bij = v[1], v[2], v[3]
                    if not bij and dom not in self.bijective:
                        self.needs_guard.append((e, dom, cod))
                    return ("perm", cod, dom, True)
                return None
            if nm in ("empty_like", "zeros_like") and e.args:
                v = self.ev(e.args[0])
                return ("blank", self.space(v)) if v is not None and self.space(v) is not None else None
            if nm in ("empty", "zeros") and e.args:
                v = self.ev(e.args[0])
                return ("blank", v[1]) if v and v[0] == "size" else None
            if nm == "arange" and len(e.args) == 1:
                v = self.ev(e.args[0])
                return ("iota", v[1]) if v and v[0] == "size" else None
            if nm in FIND_LIKE and e.args:
                v = self.ev(e.args[0])
                if v and v[0] == "mat":
                    self.n_entries += 1
                    E = ("entries", self.n_entries)
                    self.entry_rows = {**getattr(self, "entry_rows", {}), E: v[1]}
                    return ("tuple", [("perm", E, v[1], False), ("arr", E, "cells"), ("arr", E, "signs")])
                return None
            if nm in ("tocsr", "tocsc", "tocoo", "copy") and isinstance(e.func, ast.Attribute) and not e.args:
                return self.ev(e.func.value)
            if nm in ("ravel", "astype", "flatten", "squeeze") and isinstance(e.func, ast.Attribute) \
                    and not (isinstance(e.func.value, ast.Name) and e.func.value.id in ("np", "numpy")):
                return self.ev(e.func.value)
            if nm in ("asarray", "array", "atleast_1d", "ravel") and e.args:
                return self.ev(e.args[0])
            return None
        if isinstance(e, ast.UnaryOp) and isinstance(e.op, ast.USub):
            v = self.ev(e.operand)
            return ("arr", v[1], "negated " + str(v[2])) if v and v[0] == "arr" else None
        if isinstance(e, ast.BinOp) and isinstance(e.op, (ast.Mult, ast.Add, ast.Sub, ast.Div, ast.FloorDiv)):
            for a, b in ((e.left, e.right), (e.right, e.left)):
                v = self.ev(a)
                if v and v[0] == "arr" and isinstance(b, (ast.Constant, ast.UnaryOp)) and _const_int(b) is not None:
                    if isinstance(e.op, ast.Mult) and _const_int(b) == 1:
                        return v
                    return ("arr", v[1], f"{v[2]} {type(e.op).__name__} {_const_int(b)}")
            return None
        if isinstance(e, ast.Call) and call_name(e) in ("abs", "absolute", "sign", "negative") and len(e.args) == 1:
            v = self.ev(e.args[0])
            if v and v[0] == "arr":
                return ("arr", v[1], f"{call_name(e)}({v[2]})")
            return None
        if isinstance(e, ast.Subscript):
            v = self.ev(e.value)
            if v is None:
                return None
            sl = e.slice
            if v[0] == "cf":
                rows = sl
                if isinstance(sl, ast.Tuple):
                    if len(sl.elts) == 2 and _slice_kind(sl.elts[1]) == "full":
                        rows = sl.elts[0]
                    else:
                        return None
                r = self.ev(rows)
                if r and r[0] == "arr" and r[2] == "faces":
                    return ("mat", r[1])
                return None
            if v[0] == "tuple" and _const_int(sl) is not None and 0 <= _const_int(sl) < len(v[1]):  # type: ignore[operator]
                return v[1][_const_int(sl)]  # type: ignore[index]
            if v[0] == "size":
                return None
            idx = self.ev(sl) if not isinstance(sl, ast.Slice) else None
            if _slice_kind(sl) == "full":
                return v
            if idx is None or idx[0] != "perm":
                return None
            dom, cod = idx[1], idx[2]
            if v[0] == "arr":
                self.report("gather", v[1] == cod, e,
                            f"`{u(e)}`: the array lives on {_fmt(v[1])} but the index array holds positions of {_fmt(cod)}",
                            {"array": _fmt(v), "index": _fmt(idx)})
                return ("arr", dom, v[2])
            if v[0] == "perm":
                self.report("gather", v[1] == cod, e,
                            f"`{u(e)}`: composing maps: the indexed map lives on {_fmt(v[1])}, the index array holds positions of {_fmt(cod)}",
                            {"array": _fmt(v), "index": _fmt(idx)})
                return ("perm", dom, v[2], bool(v[3] and idx[3]))
            return None
        return None

    def _size_guard(self, test: ast.expr) -> Optional[tuple]:
        """`fi.size != faces.size`-like test -> (entry space, row space) when it compares an entry count with a row count"""
        t = test
        neg = False
        if isinstance(t, ast.UnaryOp) and isinstance(t.op, ast.Not):
            t, neg = t.operand, True
        if not (isinstance(t, ast.Compare) and len(t.ops) == 1):
            return None
        op = t.ops[0]
        differs = (isinstance(op, ast.NotEq) and not neg) or (isinstance(op, ast.Eq) and neg)
        a, b = self.ev(t.left), self.ev(t.comparators[0])
        if not (a and b and a[0] == b[0] == "size"):
            return None
        rows = getattr(self, "entry_rows", {})
        # entries > rows (or not entries <= rows) is the same test when every face has at least one cell
        if a[1] in rows and b[1] not in rows:
            differs = differs or (isinstance(op, ast.Gt) and not neg) or (isinstance(op, ast.LtE) and neg)
        if b[1] in rows and a[1] not in rows:
            differs = differs or (isinstance(op, ast.Lt) and not neg) or (isinstance(op, ast.GtE) and neg)
        for x, y in ((a, b), (b, a)):
            if x[1] in rows:
                ok_rows = y[1] == rows[x[1]] or (isinstance(rows[x[1]], tuple) and rows[x[1]][0] == "sorted" and rows[x[1]][1] == y[1]) \
                    or (isinstance(y[1], tuple) and y[1][0] == "sorted" and y[1][1] == rows[x[1]])
                return (x[1], ok_rows, differs)
        return None

    def run(self, body: list) -> None:
        for s in body:
            if isinstance(s, ast.Expr) and isinstance(s.value, ast.Constant):
                continue
            if isinstance(s, ast.If):
                g = self._size_guard(s.test)
                if g is not None and _raises(s.body) and not s.orelse:
                    self.guards.append((s, g))
                    if g[1] and g[2]:
                        self.bijective.add(g[0])
                        for k, v in list(self.env.items()):
                            if isinstance(v, tuple) and v and v[0] == "perm" and v[1] == g[0]:
                                self.env[k] = ("perm", v[1], v[2], True)
                    continue
                if _raises(s.body) and not s.orelse:
                    continue
                raise self.f.und("conditional not handled by the ordering interpreter", s)
            if isinstance(s, ast.Assign) and len(s.targets) == 1:
                t = s.targets[0]
                v = self.ev(s.value)
                if isinstance(t, ast.Name):
                    self.env[t.id] = v
                    continue
                if isinstance(t, ast.Tuple) and all(isinstance(x, ast.Name) for x in t.elts):
                    vals = v[1] if (v and v[0] == "tuple" and len(v[1]) == len(t.elts)) else [None] * len(t.elts)
                    for x, vv in zip(t.elts, vals):
                        self.env[x.id] = vv  # type: ignore[attr-defined]
                    continue
                if isinstance(t, ast.Subscript) and isinstance(t.value, ast.Name):
                    # inverse permutation by scatter:  inv = empty_like(p); inv[p] = arange(n)
                    tgt, idx = self.env.get(t.value.id), self.ev(t.slice)
                    if tgt and tgt[0] == "blank" and idx and idx[0] == "perm" and idx[3] and v and v[0] == "iota" \
                            and self._same_size(tgt[1], idx[2]) and self._same_size(v[1], idx[1]):
                        self.env[t.value.id] = ("perm", idx[2], idx[1], True)
                        continue
            if isinstance(s, ast.Return):
                self.returns.append((s, self.ev(s.value) if s.value is not None else None))
                continue
            if isinstance(s, (ast.Raise, ast.Pass)):
                continue
            raise self.f.und("statement form not handled by the ordering interpreter", s)

    @staticmethod
    def _same_size(a, b) -> bool:
        """two orderings of the same set have the same number of elements"""
        base = lambda x: x[1] if isinstance(x, tuple) and x and x[0] == "sorted" else x
        return base(a) == base(b)


def rule_signs_and_cells(ctx: Ctx, mod, mo_mod) -> None:
    q = "Grid.signs_and_cells_of_boundary_faces"
    f = View(mod, q)
    if f.params[:2] != ["self", "faces"]:
        raise AnchorError(f"{GRID}:{q}: signature changed ({f.params})")

    def report(kind, ok, node, msg, facts):
        ctx.check("R2", ok, mod, q, node, msg, facts=facts)

    it = PermInterp(f, report)
    it.env["faces"] = ("arr", "given", "faces")
    it.run(f.fn.body)
    if it.n_entries != 1:
        raise AnchorError(f"{GRID}:{q}: expected one (row, col, data) decomposition of rows of self.cell_faces, found {it.n_entries}")
    # guard: one entry per requested face
    E = ("entries", 1)
    good = [g for g in it.guards if g[1][0] == E]
    if not good:
        tests = [s for s in f.stmts if isinstance(s, ast.If) and _raises(s.body)]
        if tests:
            raise f.und("a raising test is present but is not a recognised comparison of the entry count with the face count", tests[0])
        ctx.check("R2", False, mod, q, f.fn,
                  "nothing verifies that each requested face has exactly one neighbouring cell: for an internal face the sub-matrix has "
                  "two entries and the arrays returned have the wrong length / pairing", construct="guard: one entry per requested face")
    else:
        s, (sp, ok_rows, differs) = good[0]
        ctx.check("R2", ok_rows and differs, mod, q, s,
                  f"the guard must raise when the number of entries of the sub-matrix differs from the number of requested faces; "
                  f"found `{u(s.test)}`", construct="guard: one entry per requested face", facts={"test": u(s.test)})
    for node, dom, cod in it.needs_guard:
        ctx.check("R2", False, mod, q, node,
                  f"argsort of the row numbers is used as the inverse map rows -> entries before it is known that every row has exactly "
                  f"one entry (`{u(node)}`)", construct="inverse of the row map taken under the guard")
    if not it.needs_guard:
        ctx.check("R2", True, mod, q, f.fn, "", construct="inverse of the row map taken under the guard",
                  desc="argsort(row numbers) is taken after the one-entry-per-face guard")
    rets = [(s, v) for s, v in it.returns if s.value is not None]
    if len(rets) != 1 or not (rets[0][1] and rets[0][1][0] == "tuple" and len(rets[0][1][1]) == 2):
        raise f.und("expected one `return signs, cells`")
    rs, rv = rets[0]
    for k, (v, want, what) in enumerate(zip(rv[1], ("signs", "cells"), ("data of the sub-matrix (sign)", "column numbers (cells)"))):
        if v is None:
            raise f.und(f"cannot type returned array {k}", rs)
        ok = v[0] == "arr" and v[1] == "given" and v[2] == want
        ctx.check("R2", ok, mod, q, rs,
                  f"returned array {k} must be the {what} in the order of the argument `faces`; it is typed {_fmt(v)} "
                  f"('given' = order of the argument; 'sorted' = ascending face number; 'entries' = storage order of the sub-matrix)",
                  construct=f"returned array {k}: {want} in the order of `faces`", facts={"type": _fmt(v)})
    # the helper's triple
    for fl in [n for n in _nodes(f) if isinstance(n, ast.Call) and call_name(n) in FIND_LIKE]:
        if call_name(fl) == "sparse_array_to_row_col_data":
            h = mo_mod.func("sparse_array_to_row_col_data")
            hr = [n for n in ast.walk(h) if isinstance(n, ast.Return) and n.value is not None]
            if not hr:
                raise AnchorError(f"{MO}:sparse_array_to_row_col_data: no return")
            for r in hr:
                if not (isinstance(r.value, ast.Tuple) and len(r.value.elts) == 3):
                    raise Undecided(f"{MO}:sparse_array_to_row_col_data: return is not a triple")
                roles = []
                for x in r.value.elts:
                    attrs = [n.attr for n in ast.walk(x) if isinstance(n, ast.Attribute) and n.attr in ("row", "col", "data")]
                    roles.append(attrs[0] if attrs else "?")
                if "?" in roles:
                    raise Undecided(f"{MO}:sparse_array_to_row_col_data: returned triple not built from .row/.col/.data")
                ctx.check("R2", roles == ["row", "col", "data"], mo_mod, "sparse_array_to_row_col_data", r,
                          f"callers unpack the triple as (rows, columns, values) like scipy.sparse.find; this arm returns {roles}",
                          construct=f"triple order on the arm returning {len(u(r.value)) > 50 and 'masked' or 'all'} entries",
                          facts={"roles": roles})
    ctx.sample({"rule": "R2", "spaces": {"given": "order of the argument faces", "sorted(given)": "ascending face number",
                                         "entries": "storage order of the entries of the sub-matrix"}})


# =====================================================================================
#  R3  cell_connection_map / cell_nodes: (row space, column space, signedness)
# =====================================================================================

BASE_MATS = {"self.cell_faces": ("F", "C", "signed"), "self.face_nodes": ("N", "F", "unsigned")}
SPACE_NAME = {"F": "faces", "C": "cells", "N": "nodes"}
CONV = {"tocsr", "tocsc", "tocoo", "asformat", "tolil"}


def _sp(x) -> str:
    return SPACE_NAME.get(x, str(x))


class MatInterp:
    """values: ("mat", R, C, sign, key, alias)   sign in signed|unsigned ; alias: 'self' (the grid's own object),
    'maybe' (a format conversion that may return the object itself), 'fresh'"""

    def __init__(self, f: View, report):
        self.f = f
        self.env: dict[str, object] = {}
        self.report = report
        self.returns: list = []
        self.products: list = []
        self.thresholds: list = []
        self.mutations: list = []

    def ev(self, e: ast.expr):
        if isinstance(e, ast.Name):
            return self.env.get(e.id)
        t = u(e)
        if t in BASE_MATS:
            r, c, sg = BASE_MATS[t]
            return ("mat", r, c, sg, t, "self")
        if isinstance(e, ast.Attribute) and e.attr == "T":
            v = self.ev(e.value)
            return ("mat", v[2], v[1], v[3], f"({v[4]})^T", "fresh") if v and v[0] == "mat" else None
        if isinstance(e, ast.UnaryOp) and isinstance(e.op, ast.USub):
            v = self.ev(e.operand)
            return ("mat", v[1], v[2], v[3], f"-({v[4]})", "fresh") if v and v[0] == "mat" else None
        if isinstance(e, ast.BinOp) and isinstance(e.op, ast.Mult) and (_const_int(e.left) is not None or _const_int(e.right) is not None):
            m_, c_ = (e.right, _const_int(e.left)) if _const_int(e.left) is not None else (e.left, _const_int(e.right))
            v = self.ev(m_)
            if v and v[0] == "mat":
                return v if c_ == 1 else ("mat", v[1], v[2], v[3], f"{c_}*({v[4]})", "fresh")
            return None
        if isinstance(e, ast.Call):
            nm = call_name(e)
            recv = e.func.value if isinstance(e.func, ast.Attribute) else None
            is_np = isinstance(recv, ast.Name) and recv.id in ("np", "numpy", "sps", "scipy")
            if recv is not None and not is_np:
                v = self.ev(recv)
                if v and v[0] == "data" and nm in ("astype", "copy"):
                    return v
                if v and v[0] == "data" and nm == "clip" and len(e.args) == 2 and _const_int(e.args[0]) == 0 \
                        and _const_int(e.args[1]) is not None and _const_int(e.args[1]) >= 1:  # type: ignore[operator]
                    return ("data", v[1], "positive-threshold")
                if v and v[0] == "mat":
                    if nm == "transpose" and not e.args:
                        return ("mat", v[2], v[1], v[3], f"({v[4]})^T", "fresh")
                    if nm == "copy":
                        return ("mat", v[1], v[2], v[3], v[4], "fresh")
                    if nm in CONV:
                        return ("mat", v[1], v[2], v[3], v[4], "maybe" if v[5] != "fresh" else "fresh")
                    if nm == "astype" and e.args:
                        a = u(e.args[0]).strip("'\"")
                        if a in ("bool", "np.bool_"):
                            self.thresholds.append((e, v, "nonzero"))
                            return ("mat", v[1], v[2], "unsigned", f"nonzero({v[4]})", "fresh")
                        return ("mat", v[1], v[2], v[3], v[4], "fresh")
                    if nm in ("dot", "__matmul__", "__mul__") and len(e.args) == 1:
                        return self.product(e, v, self.ev(e.args[0]))
                    if nm == "__abs__" and not e.args:
                        return ("mat", v[1], v[2], "unsigned", f"abs({v[4]})", "fresh")
                    if nm == "power" and e.args and _const_int(e.args[0]) is not None and _const_int(e.args[0]) % 2 == 0:  # type: ignore[operator]
                        return ("mat", v[1], v[2], "unsigned", f"abs({v[4]})", "fresh")
                return None
            if nm in ("abs", "absolute") and len(e.args) == 1:
                v = self.ev(e.args[0])
                if v and v[0] == "mat":
                    return ("mat", v[1], v[2], "unsigned", f"abs({v[4]})", "fresh")
                if v and v[0] == "data":
                    return ("data", v[1], "abs")
                return None
            if nm == "clip" and e.args:
                v = self.ev(e.args[0])
                lo_ = e.args[1] if len(e.args) > 1 else (kwarg(e, "a_min") or kwarg(e, "min"))
                hi_ = e.args[2] if len(e.args) > 2 else (kwarg(e, "a_max") or kwarg(e, "max"))
                if v and v[0] == "data" and lo_ is not None and hi_ is not None and _const_int(lo_) == 0 \
                        and _const_int(hi_) is not None and _const_int(hi_) >= 1:  # type: ignore[operator]
                    return ("data", v[1], "positive-threshold")
                return None
            if nm == "sign" and len(e.args) == 1:
                v = self.ev(e.args[0])
                return v if v and v[0] == "data" else None
            if nm == "astype" and recv is not None:
                v = self.ev(recv)
                return v if v and v[0] == "data" else None
            return None
        if isinstance(e, ast.Attribute) and e.attr == "data":
            v = self.ev(e.value)
            return ("data", e.value.id if isinstance(e.value, ast.Name) else u(e.value), "raw") if v and v[0] == "mat" else None
        if isinstance(e, ast.BinOp) and isinstance(e.op, (ast.MatMult, ast.Mult)):
            a, b = self.ev(e.left), self.ev(e.right)
            if a and b and a[0] == b[0] == "mat":
                return self.product(e, a, b)
            return None
        if isinstance(e, ast.Compare) and len(e.ops) == 1 and _const_int(e.comparators[0]) is not None:
            v = self.ev(e.left)
            if v and v[0] == "mat":
                c = _const_int(e.comparators[0])
                op = type(e.ops[0])
                if op not in _CMP:
                    return None
                truth = [_CMP[op](x - c) for x in (-1, 0, 1, 2)]  # type: ignore[operator]
                kind = "positive" if truth == [False, False, True, True] else ("nonzero" if truth == [True, False, True, True] else None)
                if kind is None and (truth[1] or not truth[2] or not truth[3]):
                    kind = "not-a-support-test"
                if kind is None:
                    raise self.f.und("comparison of a matrix with a constant that is neither > 0 nor != 0", e)
                self.thresholds.append((e, v, kind))
                return ("mat", v[1], v[2], "unsigned", f"{kind}({v[4]})", "fresh")
        return None

    def product(self, node, a, b):
        if not (a and b and a[0] == b[0] == "mat"):
            return None
        self.products.append((node, a, b))
        sg = "unsigned" if a[3] == b[3] == "unsigned" else "signed"
        return ("mat", a[1], b[2], sg, f"({a[4]})@({b[4]})", "fresh")

    def run(self, body: list) -> None:
        for s in body:
            if isinstance(s, ast.Expr) and isinstance(s.value, ast.Constant):
                continue
            if isinstance(s, ast.Assign) and len(s.targets) == 1:
                t = s.targets[0]
                if isinstance(t, ast.Name):
                    self.env[t.id] = self.ev(s.value)
                    continue
                if isinstance(t, ast.Attribute) and t.attr == "data":
                    owner = self.ev(t.value)
                    val = self.ev(s.value)
                    if not (owner and owner[0] == "mat"):
                        raise self.f.und("store into .data of an untyped object", s)
                    self.mutations.append((s, owner, val))
                    name = t.value.id if isinstance(t.value, ast.Name) else None
                    if val and val[0] == "data" and name is not None:
                        if val[2] == "abs":
                            self.env[name] = ("mat", owner[1], owner[2], "unsigned", f"abs({owner[4]})", owner[5])
                        elif val[2] == "positive-threshold":
                            self.thresholds.append((s, owner, "positive"))
                            self.env[name] = ("mat", owner[1], owner[2], "unsigned", f"positive({owner[4]})", owner[5])
                        elif val[2] == "raw":
                            pass
                    else:
                        raise self.f.und("unrecognised transformation of .data", s)
                    continue
            if isinstance(s, ast.Return):
                self.returns.append((s, self.ev(s.value) if s.value is not None else None))
                continue
            raise self.f.und("statement form not handled by the matrix interpreter", s)


def rule_connection_maps(ctx: Ctx, mod) -> None:
    for q, want, sym in (("Grid.cell_connection_map", ("C", "C"), True), ("Grid.cell_nodes", ("N", "C"), False)):
        f = View(mod, q)

        def report(kind, ok, node, msg, facts):
            ctx.check("R3", ok, mod, q, node, msg, facts=facts)

        it = MatInterp(f, report)
        it.run(f.fn.body)
        rets = [(s, v) for s, v in it.returns]
        if len(rets) != 1 or rets[0][1] is None or rets[0][1][0] != "mat":
            raise f.und("cannot type the returned matrix")
        rs, rv = rets[0]
        ctx.check("R3", (rv[1], rv[2]) == want, mod, q, rs,
                  f"{q.split('.')[1]} must be {_sp(want[0])} x {_sp(want[1])}; the returned expression is {_sp(rv[1])} x {_sp(rv[2])} "
                  f"[{rv[4]}]", construct=f"{q.split('.')[1]}: result is {_sp(want[0])} x {_sp(want[1])}", facts={"term": rv[4]})
        if not it.products:
            raise f.und("no matrix product found")
        for node, a, b in it.products:
            ctx.check("R3", a[2] == b[1], mod, q, node,
                      f"in the product the columns of the left factor ({_sp(a[2])}) must be the rows of the right factor ({_sp(b[1])}) "
                      f"[{a[4]}] @ [{b[4]}]", construct=f"{q.split('.')[1]}: inner spaces of the product agree",
                      facts={"left": a[4], "right": b[4]})
            if sym:
                ctx.check("R3", a[4] == f"({b[4]})^T", mod, q, node,
                          f"the connection map is symmetric by construction only if it is X^T X with one and the same X; found "
                          f"[{a[4]}] @ [{b[4]}]", construct="cell_connection_map: X^T X with the same X", facts={"left": a[4], "right": b[4]})
        for n, v, k in it.thresholds:
            if k == "not-a-support-test":
                ctx.check("R3", False, mod, q, n,
                          f"the boolean map is the support of the product (entry >= 1 <=> connected); `{u(n)[:80]}` is not true exactly for "
                          f"the positive counts", construct=f"{q.split('.')[1]}: threshold is the support of the product")
        pos = [(n, v, k) for n, v, k in it.thresholds if k == "positive"]
        non = [(n, v, k) for n, v, k in it.thresholds if k == "nonzero" and "@" in v[4]]  # of products; of a factor it only drops signs
        for n, v, k in non:
            if v[3] == "signed":
                raise f.und("non-zero test of a product with signed factors: cancellation cannot be excluded statically", n)
        if not [t for t in it.thresholds if "@" in t[1][4]]:
            raise f.und("no boolean conversion of the product found")
        for n, v, k in pos:
            ctx.check("R3", v[3] == "unsigned", mod, q, n,
                      f"a positive threshold (> 0 / clip to [0, 1]) is applied to [{v[4]}], which has signed factors: two cells sharing a "
                      f"face contribute (+1)(-1) = -1 and are reported as not connected; contributions of opposite sign cancel",
                      construct=f"{q.split('.')[1]}: positive threshold only on sign-free products", facts={"term": v[4], "sign": v[3]})
        for n, v, k in non:
            ctx.check("R3", True, mod, q, n, "", construct=f"{q.split('.')[1]}: non-zero test on sign-free product",
                      desc="non-zero test of a product of sign-free factors")
        for s, owner, val in it.mutations:
            if owner[5] == "maybe":
                raise f.und("data of a format-converted view of the grid's matrix is overwritten (conversion may return the object itself)", s)
            ctx.check("R3", owner[5] == "fresh", mod, q, s,
                      f"`{u(s)[:80]}` overwrites the data of {owner[4]} itself (no copy): after the call the grid's incidence has lost "
                      f"its signs, divergence and every discretisation built later are wrong", construct=f"{q.split('.')[1]}: data overwritten only on a copy",
                      facts={"owner": owner[4], "alias": owner[5]})


# =====================================================================================
#  R4  divergence / trace: orientation and Kronecker numbering
# =====================================================================================

def _dims_at(f: View, node: ast.AST, param: str) -> list[int]:
    return param_values(f, node, param)


def _strip_conv(e: ast.expr) -> ast.expr:
    while isinstance(e, ast.Call) and isinstance(e.func, ast.Attribute) and e.func.attr in CONV | {"copy"} and not e.args:
        e = e.func.value
    return e


def _strip_T(e: ast.expr) -> tuple[ast.expr, bool]:
    e = _strip_conv(e)
    flipped = False
    while True:
        if isinstance(e, ast.Attribute) and e.attr == "T":
            e, flipped = _strip_conv(e.value), not flipped
        elif isinstance(e, ast.Call) and isinstance(e.func, ast.Attribute) and e.func.attr == "transpose" and not e.args:
            e, flipped = _strip_conv(e.func.value), not flipped
        else:
            return e, flipped


def rule_divergence(ctx: Ctx, mod, amod) -> None:
    conv = nd_numbering(None, amod)
    q = "Grid.divergence"
    f = View(mod, q)
    if f.params[:2] != ["self", "dim"]:
        raise AnchorError(f"{GRID}:{q}: signature changed ({f.params})")
    mi = MatInterp(f, None)
    seen = {"scalar": 0, "vector": 0}
    for r in [s for s in f.stmts if isinstance(s, ast.Return) and s.value is not None]:
        dims = _dims_at(f, r, "dim")
        c = f.canon2(r.value, r)  # type: ignore[arg-type]
        if dims == [1]:
            seen["scalar"] += 1
            v = mi.ev(_strip_conv(c))
            if not (v and v[0] == "mat"):
                raise f.und("cannot type the scalar divergence", r)
            ctx.check("R4", v[4] in ("(self.cell_faces)^T", "self.cell_faces"), mod, q, r,
                      f"the divergence is the SIGNED incidence (outflow positive), unscaled; the returned term is [{v[4]}]",
                      construct="divergence: scalar arm uses the signed incidence itself", facts={"term": v[4]})
            ctx.check("R4", (v[1], v[2]) == ("C", "F"), mod, q, r,
                      f"the scalar divergence sums face fluxes per cell: cells x faces = cell_faces^T; the returned expression is "
                      f"{_sp(v[1])} x {_sp(v[2])} [{v[4]}]", construct="divergence: scalar arm is cells x faces", facts={"term": v[4]})
        elif dims and max(dims) >= 2 and 1 not in dims:
            seen["vector"] += 1
            inner, flipped = _strip_T(c)
            ks = kron_sides(f, inner, r)
            if ks is None or not (isinstance(inner, ast.Call) and call_name(inner) == "kron"):
                raise f.und("vector divergence is not (a transpose of) a Kronecker product", r)
            call, side, m, n = ks
            want = "eye-right" if conv["numbering"] == "component-minor" else "eye-left"
            ctx.check("R4", side == want, mod, q, r,
                      f"vector unknowns are numbered nd*index + component (utils.expand_indices_nd, Grid.trace, the docstring of this "
                      f"method); kron(M, eye(dim)) produces that numbering on rows and columns, kron(eye(dim), M) the component-major one; "
                      f"found {u(call)}", construct="divergence: vector arm is kron(incidence, eye(dim))",
                      facts={"found": side, "expand_indices_nd": conv["numbering"]})
            ctx.check("R4", u(n) == "dim", mod, q, r, f"the identity factor has the size of the argument dim; found {u(n)}",
                      construct="divergence: identity of size dim")
            v = mi.ev(m)
            if not (v and v[0] == "mat"):
                raise f.und("cannot type the matrix factor of the Kronecker product", r)
            ctx.check("R4", v[4] in ("(self.cell_faces)^T", "self.cell_faces"), mod, q, r,
                      f"the vector divergence expands the SIGNED incidence itself (the scalar arm's matrix); the Kronecker factor is [{v[4]}]",
                      construct="divergence: vector arm uses the signed incidence itself", facts={"term": v[4]})
            rows, cols = (v[2], v[1]) if flipped else (v[1], v[2])
            ctx.check("R4", (rows, cols) == ("C", "F"), mod, q, r,
                      f"the vector divergence is (cells*dim) x (faces*dim) like the scalar one; the returned expression is "
                      f"{_sp(rows)}*dim x {_sp(cols)}*dim", construct="divergence: vector arm is cells x faces", facts={"term": v[4], "transposed": flipped})
        else:
            raise f.und(f"a matrix is returned for dim in {dims}", r)
    if seen["scalar"] != 1 or seen["vector"] != 1:
        raise AnchorError(f"{GRID}:{q}: expected one scalar (dim == 1) and one vector (dim > 1) arm, found {seen}")
    # non-positive dim raises
    raises = [s for s in f.stmts if isinstance(s, ast.Raise)]
    cover = set()
    for s in raises:
        cover |= set(_dims_at(f, s, "dim"))
    ctx.check("R4", {-1, 0} <= cover and not ({1, 2, 3} & cover), mod, q, raises[0] if raises else f.fn,
              f"dim <= 0 must raise and dim >= 1 must not; raising for dim in {sorted(cover)} of (-1, 0, 1, 2, 3)",
              construct="divergence: non-positive dim raises", facts={"raises_for": sorted(cover)})
    # ---- trace: the sibling that numbers rows and columns with expand_indices_nd
    q = "Grid.trace"
    f = View(mod, q)
    calls = [n for n in _nodes(f) if isinstance(n, ast.Call) and call_name(n) == "expand_indices_nd"]
    coo = [n for n in _nodes(f) if isinstance(n, ast.Call) and call_name(n) in ("coo_matrix", "coo_array", "csr_matrix", "csc_matrix")
           and n.args and isinstance(n.args[0], ast.Tuple) and len(n.args[0].elts) == 2 and isinstance(n.args[0].elts[1], ast.Tuple)]
    if len(calls) != 2 or len(coo) != 1:
        raise AnchorError(f"{GRID}:{q}: expected two expand_indices_nd calls and one coordinate-format constructor")
    at = f.stmt_of(coo[0])
    I, J = (f.canon2(x, at) for x in coo[0].args[0].elts[1].elts)  # type: ignore[union-attr]
    if not all(isinstance(x, ast.Call) and call_name(x) == "expand_indices_nd" for x in (I, J)):
        raise f.und("row/column arrays of the trace are not expand_indices_nd(..)", coo[0])

    def nd_of(c: ast.Call):
        return c.args[1] if len(c.args) > 1 else kwarg(c, "nd")

    def extra(c: ast.Call):
        return [u(a) for a in c.args[2:]] + sorted(f"{k.arg}={u(k.value)}" for k in c.keywords if k.arg not in ("ind", "nd"))
    ctx.check("R4", nd_of(I) is not None and nd_of(J) is not None and u(nd_of(I)) == u(nd_of(J)) == "dim" and extra(I) == extra(J) == [],  # type: ignore[arg-type]
              mod, q, coo[0], f"rows and columns of the trace must be expanded with the same dimension (the argument) and the default "
              f"(per-index) order; found {u(I)[:70]} / {u(J)[:70]}", construct="trace: rows and columns expanded alike")
    # roles: rows from the boundary faces, columns from the cells returned for those faces
    r_arg = I.args[0] if I.args else kwarg(I, "ind")  # type: ignore[union-attr]
    c_arg = J.args[0] if J.args else kwarg(J, "ind")  # type: ignore[union-attr]
    r_raw = coo[0].args[0].elts[1].elts[0]  # type: ignore[union-attr]
    cell_src = None
    for nm, ds in f.defs.items():
        for d in ds:
            if d.kind == "tuple" and isinstance(d.value, ast.Call) and call_name(d.value) == "signs_and_cells_of_boundary_faces":
                if d.pos == 1:
                    cell_src = (nm, d)
    if cell_src is None:
        raise f.und("cells of the boundary faces are not taken from signs_and_cells_of_boundary_faces(..)[1]")
    faces_arg = f.canon2(cell_src[1].value.args[0], cell_src[1].stmt)  # type: ignore[union-attr]
    raw_calls = {u(f.canon2(c, f.stmt_of(c))): c for c in calls}
    col_call = raw_calls.get(u(J))
    col_ind = None if col_call is None else (col_call.args[0] if col_call.args else kwarg(col_call, "ind"))
    col_is_cells = isinstance(col_ind, ast.Name) and col_ind.id == cell_src[0]
    ctx.check("R4", u(r_arg) == u(faces_arg) and col_is_cells, mod, q, coo[0],  # type: ignore[arg-type]
              f"the trace has a one in row (face f) and column (cell next to f): rows come from the faces handed to "
              f"signs_and_cells_of_boundary_faces, columns from its second output; found rows {u(r_arg)[:60]}, columns {u(c_arg)[:60]}",  # type: ignore[arg-type]
              construct="trace: rows are faces, columns the cells returned for them")
    shp = kwarg(coo[0], "shape") or (coo[0].args[1] if len(coo[0].args) > 1 else None)
    ok = isinstance(shp, ast.Tuple) and len(shp.elts) == 2 and "num_faces" in u(shp.elts[0]) and "num_cells" in u(shp.elts[1]) \
        and all("dim" in names_in(x) for x in shp.elts)
    ctx.check("R4", bool(ok), mod, q, coo[0], f"the trace is (num_faces*dim) x (num_cells*dim); found shape {u(shp) if shp is not None else None}",
              construct="trace: shape")
    ctx.check("R4", conv["numbering"] == "component-minor" and conv["grouping"] == "per-index", amod, "expand_indices_nd", conv["node"],
              "expand_indices_nd numbers nd*index + component and lists the components of one index together (same numbering as the "
              "Kronecker product with the identity on the right)", construct="expand_indices_nd: numbering shared with divergence",
              facts={"numbering": conv["numbering"], "grouping": conv["grouping"]})


# =====================================================================================
#  R5  update_boundary_face_tag
# =====================================================================================

def _cf_chain(e: ast.expr) -> Optional[list[str]]:
    """self.cell_faces.tocsr().copy() ... -> list of the methods applied; None if not rooted in self.cell_faces"""
    chain = []
    while True:
        if u(e) == "self.cell_faces":
            return list(reversed(chain))
        if isinstance(e, ast.Call) and isinstance(e.func, ast.Attribute) and not e.args and e.func.attr in CONV | {"copy", "__abs__"}:
            chain.append(e.func.attr)
            e = e.func.value
        elif isinstance(e, ast.Call) and call_name(e) in ("abs", "absolute") and len(e.args) == 1:
            chain.append("abs")
            e = e.args[0]
        else:
            return None


def _count_space(f: View, e: ast.expr) -> Optional[str]:
    """space ('F' faces | 'C' cells) on which a per-line entry count of cell_faces lives"""
    while isinstance(e, ast.Call) and ((isinstance(e.func, ast.Attribute) and e.func.attr in ("ravel", "flatten", "squeeze", "astype")
                                        and not (isinstance(e.func.value, ast.Name) and e.func.value.id == "np"))):
        e = e.func.value
    while isinstance(e, ast.Call) and call_name(e) in ("asarray", "array", "ravel", "squeeze") and e.args:
        e = e.args[0]
    if isinstance(e, ast.Attribute) and e.attr in ("A1",):
        e = e.value
    if isinstance(e, ast.Call) and call_name(e) == "diff" and len(e.args) == 1 and isinstance(e.args[0], ast.Attribute) and e.args[0].attr == "indptr":
        ch = _cf_chain(e.args[0].value)
        if ch is None:
            return None
        fm = [c for c in ch if c in ("tocsr", "tocsc")]
        if not fm:
            raise f.und("pointer array of cell_faces read without fixing the storage format (tocsr/tocsc)", e)
        return "F" if fm[-1] == "tocsr" else "C"
    if isinstance(e, ast.Call) and call_name(e) in ("getnnz", "sum") and isinstance(e.func, ast.Attribute):
        ch = _cf_chain(e.func.value)
        ax = kwarg(e, "axis") or (e.args[0] if e.args else None)
        if ch is None or ax is None or _const_int(ax) not in (0, 1):
            return None
        if call_name(e) == "sum" and "abs" not in ch and "__abs__" not in ch:
            raise f.und("entries of cell_faces summed with their signs", e)
        return "F" if _const_int(ax) == 1 else "C"
    if isinstance(e, ast.Call) and call_name(e) == "bincount" and e.args and isinstance(e.args[0], ast.Attribute) and e.args[0].attr == "indices":
        ch = _cf_chain(e.args[0].value)
        if ch is None:
            return None
        fm = [c for c in ch if c in ("tocsr", "tocsc")]
        if not fm:
            raise f.und("indices of cell_faces read without fixing the storage format", e)
        return "F" if fm[-1] == "tocsc" else "C"
    return None


def rule_boundary_face_tag(ctx: Ctx, mod) -> None:
    q = "Grid.update_boundary_face_tag"
    f = View(mod, q)
    cmps = []
    for n in _nodes(f):
        if isinstance(n, ast.Compare) and len(n.ops) == 1 and _const_int(n.comparators[0]) is not None and type(n.ops[0]) in _CMP:
            sp = _count_space(f, f.canon2(n.left, f.stmt_of(n)))
            if sp is not None:
                cmps.append((n, sp))
    if len(cmps) != 1:
        raise f.und(f"expected one comparison of a per-line entry count of cell_faces with a constant, found {len(cmps)}")
    cmp_, sp = cmps[0]
    ctx.check("R5", sp == "F", mod, q, cmp_,
              f"cell_faces is faces x cells: the number of neighbouring cells of a face is the entry count of a ROW (pointer array of the "
              f"csr form, getnnz(axis=1)); the count compared here is taken per {_sp(sp)[:-1]}",
              construct="boundary faces: entry count per face", facts={"space": _sp(sp)})
    c = _const_int(cmp_.comparators[0])
    truth = [_CMP[type(cmp_.ops[0])](k - c) for k in (1, 2)]  # type: ignore[operator]
    ctx.check("R5", truth == [True, False], mod, q, cmp_,
              f"a boundary face has exactly one neighbouring cell, an internal face two: `<count> {u(cmp_.ops[0])} {c}` gives {truth} for 1 and 2 cells",
              construct="boundary faces: exactly one neighbouring cell", facts={"test": u(cmp_.ops[0]) + str(c)})
    # the stores
    def tag_key(t: ast.expr) -> Optional[str]:
        if isinstance(t, ast.Subscript) and u(t.value) == "self.tags" and isinstance(t.slice, ast.Constant) and isinstance(t.slice.value, str):
            return t.slice.value
        return None
    resets, sets = [], []
    for s in f.stmts:
        if isinstance(s, ast.Assign) and len(s.targets) == 1:
            t = s.targets[0]
            if tag_key(t) is not None:
                resets.append((s, tag_key(t), f.canon2(s.value, s)))
            elif isinstance(t, ast.Subscript) and tag_key(t.value) is not None:
                sets.append((s, tag_key(t.value), t.slice))
            elif isinstance(t, ast.Subscript) and isinstance(t.value, ast.Name):
                # in-place update through the very array object that was stored under the key
                for rs_, k_, v_ in resets:
                    if isinstance(rs_.value, ast.Name) and rs_.value.id == t.value.id and f.unique_def(t.value.id, s) is f.unique_def(t.value.id, rs_):
                        sets.append((s, k_, t.slice))
    if not sets:
        # the tag is assigned as a boolean mask:  self.tags[key] = <count> == 1  (possibly np.zeros(..) on the 0-d arm)
        direct = [r for r in resets if any(n is cmp_ or u(n) == u(f.canon2(cmp_, f.stmt_of(cmp_))) for n in ast.walk(r[2]))
                  or u(f.canon2(cmp_, f.stmt_of(cmp_))) in u(r[2])]
        if not direct:
            raise f.und("expected `self.tags[key][faces] = True` or `self.tags[key] = <mask>`")
        s_d, k_d, v_d = direct[0]
        ctx.check("R5", isinstance(v_d, ast.Compare), mod, q, s_d, f"the tag is the comparison itself; found {u(v_d)[:80]}",
                  construct="boundary faces: set to True")
        ctx.check("R5", k_d.endswith("_faces"), mod, q, s_d, f"a mask over faces is stored under a face tag; key '{k_d}'",
                  construct="boundary faces: tag array re-created with num_faces entries", facts={"key": k_d})
        ctx.check("R5", True, mod, q, s_d, "", construct="boundary faces: cleared before set", desc="the tag is replaced as a whole")
        return
    s_set, k_set, idx = sets[0]
    derived = any(n is cmp_ or u(n) == u(cmp_) for n in ast.walk(f.canon2(idx, s_set))) or \
        u(f.canon2(cmp_, f.stmt_of(cmp_))) in u(f.canon2(idx, s_set))
    if not derived:
        raise f.und("faces set to True are not derived from the entry-count comparison", s_set)
    ctx.check("R5", isinstance(s_set.value, ast.Constant) and s_set.value.value is True, mod, q, s_set,
              f"the faces with one neighbouring cell are tagged True; found `{u(s_set)[:80]}`", construct="boundary faces: set to True")
    rs = [r for r in resets if r[1] == k_set]
    ok = bool(rs) and isinstance(rs[0][2], ast.Call) and call_name(rs[0][2]) in ("zeros", "full") and "num_faces" in u(rs[0][2]) \
        and k_set.endswith("_faces") and "bool" in u(rs[0][2])
    ctx.check("R5", ok, mod, q, rs[0][0] if rs else s_set,
              f"the tag written is a face tag: self.tags['{k_set}'] must be re-created as a boolean array with num_faces entries; found "
              f"{u(rs[0][2])[:70] if rs else 'no assignment of that key'}", construct="boundary faces: tag array re-created with num_faces entries",
              facts={"key": k_set})
    if rs:
        ctx.check("R5", f.dominates(rs[0][0], s_set), mod, q, s_set,
                  "the tag array must be cleared before the boundary faces are set (faces that are no longer on the boundary - e.g. after "
                  "splitting - would keep the tag)", construct="boundary faces: cleared before set")


# =====================================================================================
#  R6  tag tables
# =====================================================================================

def _returned_list(tmod, name: str) -> list[str]:
    fn = tmod.func(name)
    rets = [n for n in ast.walk(fn) if isinstance(n, ast.Return) and n.value is not None]
    if len(rets) != 1 or not isinstance(rets[0].value, (ast.List, ast.Tuple)) or \
            not all(isinstance(x, ast.Constant) and isinstance(x.value, str) for x in rets[0].value.elts):
        raise AnchorError(f"{TAGS}:{name}: does not return a literal list of strings")
    return [x.value for x in rets[0].value.elts]  # type: ignore[attr-defined]


def _calls_in(fn: ast.AST, name: str) -> list[ast.Call]:
    return [n for n in ast.walk(fn) if isinstance(n, ast.Call) and call_name(n) == name]


def rule_tag_tables(ctx: Ctx, mod, tmod) -> None:
    sf, sn = _returned_list(tmod, "standard_face_tags"), _returned_list(tmod, "standard_node_tags")

    def stem(x: str) -> str:
        return x.rsplit("_", 1)[0]
    ctx.check("R6", all(x.endswith("_faces") for x in sf) and all(x.endswith("_nodes") for x in sn) and sorted(map(stem, sf)) == sorted(map(stem, sn))
              and len(set(sf)) == len(sf), tmod, "standard_face_tags", tmod.func("standard_face_tags"),
              f"every standard face tag has a node tag of the same stem and vice versa; faces {sf}, nodes {sn}",
              construct="standard face and node tags have the same stems", facts={"faces": sf, "nodes": sn})
    # all_tags covers the whole list
    at = tmod.func("all_tags")
    lp = at.args.args[1].arg if len(at.args.args) >= 2 else None
    if lp is None:
        raise AnchorError(f"{TAGS}:all_tags: signature changed")
    idxs = sorted({_const_int(n.slice) for n in ast.walk(at) if isinstance(n, ast.Subscript) and u(n.value) == lp and _const_int(n.slice) is not None})
    whole = any((isinstance(n, (ast.For, ast.comprehension)) and u(n.iter) == lp) for n in ast.walk(at))
    for n in ast.walk(at):
        if isinstance(n, (ast.For, ast.comprehension)) and isinstance(n.iter, ast.Subscript) and u(n.iter.value) == lp \
                and isinstance(n.iter.slice, ast.Slice) and n.iter.slice.upper is None and n.iter.slice.step is None \
                and _const_int(n.iter.slice.lower) is not None and _const_int(n.iter.slice.lower) >= 0:  # type: ignore[operator]
            k0 = _const_int(n.iter.slice.lower)
            if idxs == list(range(k0)):  # type: ignore[arg-type]
                whole = True  # positions 0..k0-1 read explicitly, the rest by iteration over ft[k0:]
    if not idxs and not whole:
        raise Undecided(f"{TAGS}:all_tags: neither indexed reads of `{lp}` nor an iteration over it")
    ors = all(call_name(c) in ("logical_or", "reduce", "any") for c in ast.walk(at) if isinstance(c, ast.Call)) if not whole else True
    for nm, lst in (("face", sf), ("node", sn)):
        ctx.check("R6", (whole or idxs == list(range(len(lst)))) and ors, tmod, "all_tags", at,
                  f"all_tags must OR every one of the {len(lst)} standard {nm} tags; it reads positions {idxs} of the list",
                  construct=f"all_tags covers all standard {nm} tags", facts={"positions": idxs, "n": len(lst)})
    for wrapper, lst in (("all_face_tags", "standard_face_tags"), ("all_node_tags", "standard_node_tags")):
        w = tmod.func(wrapper)
        ctx.check("R6", bool(_calls_in(w, "all_tags")) and bool(_calls_in(w, lst)) and not _calls_in(w, "standard_node_tags" if "face" in lst else "standard_face_tags"),
                  tmod, wrapper, w, f"{wrapper} must combine the tags listed by {lst}()", construct=f"{wrapper} uses {lst}")
    gcls = "Grid."
    for meth, helper, other in (("get_all_boundary_faces", "all_face_tags", "all_node_tags"), ("get_all_boundary_nodes", "all_node_tags", "all_face_tags")):
        fn = mod.func(gcls + meth)
        ctx.check("R6", bool(_calls_in(fn, helper)) and not _calls_in(fn, other), mod, gcls + meth, fn,
                  f"{meth} must be the support of {helper}(self.tags)", construct=f"{meth} uses {helper}")
    for meth, lst, size in (("initiate_face_tags", "standard_face_tags", "num_faces"), ("initiate_node_tags", "standard_node_tags", "num_nodes")):
        fn = mod.func(gcls + meth)
        ctx.check("R6", bool(_calls_in(fn, lst)) and size in u(fn) and ("num_nodes" if size == "num_faces" else "num_faces") not in u(fn),
                  mod, gcls + meth, fn, f"{meth} creates one array of {size} entries per key of {lst}()", construct=f"{meth}: keys and size")
    # internal faces = complement of ALL one-cell faces (domain boundary + fracture + tip), not of the domain boundary only
    q = gcls + "get_internal_faces"
    fn = mod.func(q)
    used = [call_name(c) for c in ast.walk(fn) if isinstance(c, ast.Call) and call_name(c) in
            ("get_all_boundary_faces", "get_boundary_faces", "get_all_boundary_nodes", "get_boundary_nodes", "all_face_tags", "all_node_tags")]
    if not used:
        if "tags" in u(fn):
            raise Undecided(f"{GRID}:{q}: boundary faces obtained in a form that is not recognised")
        raise AnchorError(f"{GRID}:{q}: no boundary-face accessor used")
    ctx.check("R6", set(used) <= {"get_all_boundary_faces", "all_face_tags"} and "num_faces" in u(fn), mod, q, fn,
              f"internal faces are the faces with two neighbouring cells, i.e. the complement of ALL boundary-type faces "
              f"(get_all_boundary_faces: domain boundary, fracture and tip); found complement of {sorted(set(used))} "
              f"(invisible on grids without fractures)", construct="get_internal_faces: complement of all boundary faces",
              facts={"accessors": sorted(set(used))})
    # face tag -> node tag map
    q = gcls + "update_boundary_node_tag"
    fn = mod.func(q)
    dicts = [n for n in ast.walk(fn) if isinstance(n, ast.Dict) and n.keys and all(isinstance(k, ast.Constant) and isinstance(k.value, str) for k in n.keys)
             and all(isinstance(v, ast.Constant) and isinstance(v.value, str) for v in n.values)]
    zips = [n for n in ast.walk(fn) if isinstance(n, ast.Call) and call_name(n) == "zip" and len(n.args) == 2
            and all(isinstance(a, ast.Call) for a in n.args)
            and [call_name(a) for a in n.args] == ["standard_face_tags", "standard_node_tags"]]  # type: ignore[arg-type]
    if len(dicts) == 1:
        pairs = [(k.value, v.value) for k, v in zip(dicts[0].keys, dicts[0].values)]  # type: ignore[union-attr]
    elif not dicts and len(zips) == 1 and len(sf) == len(sn):
        pairs = list(zip(sf, sn))
        dicts = zips  # type: ignore[assignment]
    else:
        raise Undecided(f"{GRID}:{q}: expected one literal face-tag -> node-tag dictionary (or zip of the two standard lists)")
    ctx.check("R6", sorted(k for k, _ in pairs) == sorted(sf), mod, q, dicts[0],
              f"every standard face tag must be transferred to the nodes; mapped: {[k for k, _ in pairs]}, standard: {sf}",
              construct="node tag update covers all standard face tags", facts={"mapped": [k for k, _ in pairs]})
    for k, v in pairs:
        ctx.check("R6", stem(k) == stem(v) and v in sn, mod, q, dicts[0],
                  f"nodes of faces tagged '{k}' must get the node tag of the same kind ('{stem(k)}_nodes'); they get '{v}' "
                  f"(invisible on grids without fractures: both arrays are all False)", construct=f"node tag of {k}", facts={"face_tag": k, "node_tag": v})
    # key agreement writer/reader of the domain boundary tag
    w = mod.func(gcls + "update_boundary_face_tag")
    r = mod.func(gcls + "get_boundary_faces")

    def keys(fn_):
        return {n.slice.value for n in ast.walk(fn_) if isinstance(n, ast.Subscript) and u(n.value) == "self.tags"
                and isinstance(n.slice, ast.Constant) and isinstance(n.slice.value, str)}
    ctx.check("R6", keys(w) == keys(r) and len(keys(w)) == 1 and keys(w) <= set(sf), mod, gcls + "update_boundary_face_tag", w,
              f"update_boundary_face_tag writes {sorted(keys(w))}, get_boundary_faces reads {sorted(keys(r))}: one standard face tag",
              construct="domain boundary tag: writer and reader use the same key")


# =====================================================================================
#  R7  queries are recomputed from the current incidence (no memoisation)
# =====================================================================================

QUERIES = ["cell_faces_as_dense", "cell_connection_map", "signs_and_cells_of_boundary_faces", "cell_nodes", "num_cell_nodes",
           "divergence", "trace", "get_all_boundary_faces", "get_boundary_faces"]
CACHE_DECORATORS = ("lru_cache", "cache", "cached_property", "memoize", "memoized")


def rule_fresh_queries(ctx: Ctx, mod) -> None:
    cls = mod.cls("Grid")
    for name in QUERIES:
        fn = mod.func("Grid." + name)
        decs = [u(d) for d in fn.decorator_list]
        cached = [d for d in decs if any(d.split("(")[0].split(".")[-1] == c for c in CACHE_DECORATORS)]
        # memo pattern: an attribute of self that is assigned in the query and also returned / tested
        stored = {t.attr for n in ast.walk(fn) if isinstance(n, (ast.Assign, ast.AnnAssign, ast.AugAssign))
                  for t in (n.targets if isinstance(n, ast.Assign) else [n.target])
                  if isinstance(t, ast.Attribute) and isinstance(t.value, ast.Name) and t.value.id == "self"}
        stored |= {n.args[1].value for n in ast.walk(fn) if isinstance(n, ast.Call) and call_name(n) == "setattr" and len(n.args) == 3
                   and isinstance(n.args[1], ast.Constant) and isinstance(n.args[1].value, str)}
        read_back = {n.attr for r in ast.walk(fn) if isinstance(r, ast.Return) and r.value is not None for n in ast.walk(r.value)
                     if isinstance(n, ast.Attribute) and isinstance(n.value, ast.Name) and n.value.id == "self" and n.attr in stored}
        memo_dicts = [n for n in ast.walk(fn) if isinstance(n, ast.Subscript) and isinstance(n.ctx, ast.Store) and isinstance(n.value, ast.Attribute)
                      and isinstance(n.value.value, ast.Name) and n.value.value.id == "self" and "cache" in n.value.attr.lower()]
        ok = not cached and not read_back and not memo_dicts
        ctx.check("R7", ok, mod, "Grid." + name, fn,
                  f"{name} must be computed from the grid's CURRENT cell_faces/tags on every call: the incidence is modified in place when "
                  f"a grid is split (fracture propagation), a memoised result is stale afterwards; found "
                  f"{'decorator ' + cached[0] if cached else ('result kept in self.' + sorted(read_back)[0] if read_back else 'a cache dictionary on self' if memo_dicts else 'nothing')}",
                  construct=f"{name}: recomputed on every call", facts={"decorators": decs, "stored": sorted(stored)})


# =====================================================================================
#  driver
# =====================================================================================

def run(ctx: Ctx) -> None:
    mod = ctx.repo.module(GRID)
    mo_mod = ctx.repo.module(MO)
    amod = ctx.repo.module(AO)
    tmod = ctx.repo.module(TAGS)
    rule_fresh_queries(ctx, mod)  # first: a memoised query is reported even if the typed rules cannot read the new form
    P = dense_producer(ctx)  # R1: reused from C17 (same obligations, recorded under this property)
    ctx.sample({"rule": "R1", "producer": {k: v for k, v in P.items()}})
    rule_signs_and_cells(ctx, mod, mo_mod)
    rule_connection_maps(ctx, mod)
    rule_divergence(ctx, mod, amod)
    rule_boundary_face_tag(ctx, mod)
    rule_tag_tables(ctx, mod, tmod)
    if ctx.tier == "thorough":
        gin = mod.get("Grid.get_internal_nodes")
        if gin is not None and any(isinstance(c, ast.Call) and call_name(c) == "get_boundary_nodes" for c in ast.walk(gin)):
            ctx.note("observation (not a finding): the deprecated Grid.get_internal_nodes complements the DOMAIN-boundary nodes only "
                     "(fracture and tip nodes count as internal), unlike its face sibling get_internal_faces")
        for m in ctx.repo.modules("src/porepy"):
            for n in ast.walk(m.tree):
                if isinstance(n, ast.Call) and call_name(n) == "signs_and_cells_of_boundary_faces" and m.rel != GRID:
                    ctx.note(f"consumer of signs_and_cells_of_boundary_faces (order of `faces` relied upon): {m.rel}:{n.lineno}")


def _m(name, old, new, rule, file=GRID, control=False, count=1):
    return dict(name=name, file=file, old=old, new=new, rule=rule, control=control, count=count)


MUTANTS = [
    # ---- R1 (reused C17 producer)
    _m("dense-mask-mismatch", "cf_dense[1, fi[neg]] = ci[neg]", "cf_dense[1, fi[neg]] = ci[pos]", "R1"),
    _m("dense-exterior-marker-zero", "cf_dense = -np.ones((2, self.num_faces), dtype=int)", "cf_dense = np.zeros((2, self.num_faces), dtype=int)", "R1"),
    # ---- R2 orderings (all invisible when `faces` is passed in ascending order)
    _m("signs-back-permutation-is-forward", "sgn, ci = sgn[IC], ci[IC]", "sgn, ci = sgn[IA], ci[IA]", "R2", control=True),
    _m("cells-not-sorted-by-row", "sgn, ci = sgn[fi_sorted], ci[fi_sorted]", "sgn, ci = sgn[fi_sorted], ci", "R2"),
    _m("entries-not-sorted-by-row", "        sgn, ci = sgn[fi_sorted], ci[fi_sorted]\n", "", "R2"),
    _m("one-cell-guard-removed", '        if fi.size != faces.size:\n            raise ValueError("sign of internal faces does not make sense")\n', "", "R2"),
    _m("guard-compares-entries-with-entries", "if fi.size != faces.size:", "if fi.size != ci.size:", "R2"),
    _m("returns-row-numbers-as-cells", "        sgn, ci = sgn[IC], ci[IC]\n        return sgn, ci", "        sgn, ci = sgn[IC], fi[IC]\n        return sgn, ci", "R2"),
    _m("rows-unsorted-but-unsorting-applied", "self.cell_faces[faces[IA], :]", "self.cell_faces[faces, :]", "R2", control=True),
    _m("inverse-taken-of-faces", "IC = np.argsort(IA)", "IC = np.argsort(faces)", "R2"),
    _m("signs-and-cells-swapped-on-return", "        sgn, ci = sgn[IC], ci[IC]\n        return sgn, ci", "        sgn, ci = sgn[IC], ci[IC]\n        return ci, sgn", "R2"),
    _m("triple-helper-masked-arm-col-first", "return (mat_copy.row[nz_mask], mat_copy.col[nz_mask], mat_copy.data[nz_mask])",
       "return (mat_copy.col[nz_mask], mat_copy.row[nz_mask], mat_copy.data[nz_mask])", "R2", file=MO),
    # ---- R3 connection maps
    _m("connection-map-mutates-incidence", "cell_faces = self.cell_faces.copy()", "cell_faces = self.cell_faces", "R3", control=True),
    _m("connection-map-keeps-signs", "        cell_faces.data = np.abs(cell_faces.data)\n", "", "R3"),
    _m("connection-map-face-face", "c2c = cell_faces.transpose() * cell_faces", "c2c = cell_faces * cell_faces.transpose()", "R3"),
    _m("cell-nodes-keeps-signs", "mat = (self.face_nodes @ np.abs(self.cell_faces)) > 0", "mat = (self.face_nodes @ self.cell_faces) > 0", "R3"),
    _m("cell-nodes-transposed-factor", "mat = (self.face_nodes @ np.abs(self.cell_faces)) > 0", "mat = (self.face_nodes.T @ np.abs(self.cell_faces)) > 0", "R3"),
    # ---- R4 divergence / trace
    _m("divergence-identity-first", "block_div = sps.kron(scalar_div, sps.eye(dim))", "block_div = sps.kron(sps.eye(dim), scalar_div)", "R4", control=True),
    _m("divergence-vector-not-transposed", "return block_div.T.tocsr()", "return block_div.tocsr()", "R4"),
    _m("divergence-scalar-not-transposed", "return self.cell_faces.T.tocsr()", "return self.cell_faces.tocsr()", "R4"),
    _m("divergence-identity-of-grid-dim", "block_div = sps.kron(scalar_div, sps.eye(dim))", "block_div = sps.kron(scalar_div, sps.eye(self.dim))", "R4"),
    _m("divergence-zero-dim-accepted", "        elif dim > 1:  # The divergence of a vector.", "        elif dim != 1:  # The divergence of a vector.", "R4"),
    _m("trace-columns-expanded-with-grid-dim", "cols = pp.array_operations.expand_indices_nd(bound_cells, dim)",
       "cols = pp.array_operations.expand_indices_nd(bound_cells, self.dim)", "R4"),
    _m("trace-columns-from-signs", "_, bound_cells = self.signs_and_cells_of_boundary_faces(bound_faces)",
       "bound_cells, _ = self.signs_and_cells_of_boundary_faces(bound_faces)", "R4"),
    _m("expand-indices-component-major", "new_ind = nd * ind + dim_inds", "new_ind = ind + nd * dim_inds", "R4", file=AO),
    _m("divergence-of-unsigned-incidence", "            scalar_div = self.cell_faces\n", "            scalar_div = abs(self.cell_faces)\n", "R4"),
    _m("divergence-scalar-sign-flipped", "return self.cell_faces.T.tocsr()", "return (-self.cell_faces).T.tocsr()", "R4"),
    _m("signs-negated-on-return", "        sgn, ci = sgn[IC], ci[IC]\n        return sgn, ci", "        sgn, ci = sgn[IC], ci[IC]\n        return -sgn, ci", "R2"),
    _m("cell-nodes-needs-two-faces", "mat = (self.face_nodes @ np.abs(self.cell_faces)) > 0", "mat = (self.face_nodes @ np.abs(self.cell_faces)) > 1", "R3"),
    _m("boundary-faces-set-false", '            self.tags["domain_boundary_faces"][bd_faces] = True', '            self.tags["domain_boundary_faces"][bd_faces] = False', "R5"),
    _m("seed-internal-faces-complement-of-domain-boundary", "np.arange(self.num_faces), self.get_all_boundary_faces(), assume_unique=True",
       "np.arange(self.num_faces), self.get_boundary_faces(), assume_unique=True", "R6"),
    # ---- R7 memoisation
    _m("connection-map-lru-cached", "    def cell_connection_map(self) -> sps.csr_matrix:", "    @lru_cache\n    def cell_connection_map(self) -> sps.csr_matrix:", "R7"),
    _m("boundary-faces-kept-on-self", "        return self._indices(tags.all_face_tags(self.tags))",
       "        self._all_bnd = self._indices(tags.all_face_tags(self.tags))\n        return self._all_bnd", "R7"),
    # ---- R5 boundary tag
    _m("boundary-count-per-cell", "np.diff(self.cell_faces.tocsr().indptr) == 1", "np.diff(self.cell_faces.tocsc().indptr) == 1", "R5", control=True),
    _m("boundary-at-least-one-cell", "np.diff(self.cell_faces.tocsr().indptr) == 1", "np.diff(self.cell_faces.tocsr().indptr) >= 1", "R5"),
    _m("boundary-tag-not-cleared", '        self.tags["domain_boundary_faces"] = zeros\n        if self.dim > 0:', "        if self.dim > 0:", "R5"),
    _m("boundary-tag-sized-by-nodes", "zeros = np.zeros(self.num_faces, dtype=bool)\n        self.tags[\"domain_boundary_faces\"] = zeros",
       "zeros = np.zeros(self.num_nodes, dtype=bool)\n        self.tags[\"domain_boundary_faces\"] = zeros", "R5"),
    # ---- R6 tag tables
    _m("node-tags-of-fracture-and-tip-swapped", '"fracture_faces": "fracture_nodes",\n            "tip_faces": "tip_nodes",',
       '"fracture_faces": "tip_nodes",\n            "tip_faces": "fracture_nodes",', "R6", control=True),
    _m("all-tags-drops-third", "return np.logical_or(np.logical_or(parent[ft[0]], parent[ft[1]]), parent[ft[2]])",
       "return np.logical_or(parent[ft[0]], parent[ft[1]])", "R6", file=TAGS),
    _m("boundary-faces-from-node-tags", "return self._indices(tags.all_face_tags(self.tags))", "return self._indices(tags.all_node_tags(self.tags))", "R6"),
    _m("tip-faces-not-transferred-to-nodes", '            "tip_faces": "tip_nodes",\n', "", "R6"),
    _m("fourth-face-tag-without-node-tag", 'return ["fracture_faces", "tip_faces", "domain_boundary_faces"]',
       'return ["fracture_faces", "tip_faces", "domain_boundary_faces", "well_faces"]', "R6", file=TAGS),
    _m("all-face-tags-uses-node-list", "return all_tags(parent, standard_face_tags())", "return all_tags(parent, standard_node_tags())", "R6", file=TAGS),
]
