"""C41 - interpolation tables are exact for multilinear functions: extracted-formula identities and
writer/reader agreement.

The query methods of InterpolationTable / AdaptiveInterpolationTable are short array formulas.  They are
abstractly interpreted (formulas copied out of the AST, evaluated over numpy object arrays of sympy symbols
for a parameter space of dimension d = 1, 2, 3; the 2^d vertex loop is the loop of the code itself, driven by
the itertools.product the code names) to a LINEAR FORM  sum_v c_v(x) * F(v)  in the stored table values F.
No porepy code is imported or run; sympy only normalises the extracted terms.

R1  reproduction        interpolate(x) with F(v) := prod_{j in S} X_j(v_j) equals prod_{j in S} x_j for every
                        subset S of the parameter axes (S = {} is "weights sum to one"); X_j is the node
                        coordinate map of the class (np.linspace nodes / base_point + h * index), the weights and
                        the vertex index come from _right_left_weights and _index_from_base_and_increment of the
                        class under analysis (virtual dispatch).
R2  gradient            gradient(x, axis) is exact for every linear function: F := 1 gives 0 and F := X_j gives
                        delta(j, axis), for every axis.
R3  linear index        the strides used to read the dense value table equal the strides of the order in which
                        the table is filled (meshgrid indexing + ravel order); the fill stores function(point i)
                        in column i of the attribute the reader reads; the linear index is sum(vertex * strides).
R4  index/coordinate    the cell search floor((x - O) / h) and the node coordinate map are inverse to each other
    and adaptive wiring (same origin, same h) in both classes; the multi-indices requested for on-demand evaluation
                        (linear=False) are the vertices looked up when interpolating (linear=True); the
                        coordinates handed to the function and the indices handed to the sparse table are
                        selected in lock-step and filtered with the same masks; the overriding interpolate /
                        gradient fill missing values before delegating, with unchanged arguments; the value
                        array read is the one aligned with the searched coordinate array; user-ordered
                        coordinates appended to _pt are permuted with the permutation returned by the table;
                        caller-supplied values OVERWRITE (additive=False, explicitly or by the callee's default); the
                        cell index of the unbounded adaptive lattice is a FLOOR, not an int() truncation.
R6  closed box          dense table: the cell search accepts x = high on an axis and then takes the last node as base; every vertex
                        base + 1 on that axis (outside the grid) has zero weight in interpolate and in gradient for every axis.
R5  space typing        the default base point has one entry per PARAMETER axis (it is zipped with the rows of the
                        query points), not one per component of the function value.
Not decided: floating-point behaviour (rounding in the floor division, the safeguarding thresholds, tolerances of
intersect_sets), SparseNdArray itself (C46), behaviour outside the box, accuracy for non-multilinear functions.
"""
from __future__ import annotations

import ast
import itertools
from typing import Optional

import numpy as np
import sympy as sp

from ..core.astutil import u, dotted, walk_local, call_name, kwarg, arg_or_kw, methods, body_nodoc, names_in, stmts_local, inline_locals
from ..core.loader import AnchorError, Undecided
from ..core.report import Ctx

IT = "src/porepy/utils/interpolation_tables.py"
BASE, ADPT = "InterpolationTable", "AdaptiveInterpolationTable"

META = {
    "explanation": __doc__,
    "rule_text": "one obligation per (class, d, monomial) identity | (class, d, axis, linear function) identity | stride | "
                 "inverse-pair axis | vertex | wiring clause",
    "trusted_base": ["python ast", "sa.core", "sympy expand/simplify as term normaliser",
                     "numpy broadcasting on object arrays of sympy symbols; whitelisted numpy calls (array, asarray, prod, sum, hstack, "
                     "cumprod, ravel, reshape, zeros as the additive zero)",
                     "np.linspace(a, b, n)[k] == a + k (b - a)/(n - 1); np.meshgrid(indexing=)/ravel(order=) layout; "
                     "itertools.product(range(2), repeat=d) enumerates the 2^d increments",
                     "intersect_sets(a, b)[3] lists, per column of a, its position(s) in b (C46 trusts the same)"],
    "assumptions": ["formulas are dimension-generic: checked for d = 1, 2, 3",
                    "SparseNdArray keeps _coords and _values column-aligned (C46)",
                    "coordinates passed by the user to assign_values are grid nodes (documented precondition)"],
    "accepted_forms": ["locals renamed / temporaries introduced or inlined (environment-based evaluation)",
                       "private helpers of the class are interpreted with their arguments bound (depth <= 4), keyword or positional",
                       "vertex loop written directly or through enumerate(); accumulation with or without a mask subscript",
                       "if-arms with a statically known test (ndim of the symbolic query, `linear`, `safeguarding`, `is None` of a bound parameter)",
                       "guards whose body only raises are skipped; asserts are skipped"],
    "technique": "abstract interpretation of straight-line array code to linear forms over symbolic table values (sympy as term normaliser); "
                 "layout/stride agreement; lock-step and index-space typing",
}
MIN_INSTANCES = {"R1": 12, "R2": 16, "R3": 10, "R4": 22, "R5": 1, "R6": 2}


# ------------------------------------------------------------------------------------------------------
# abstract values
# ------------------------------------------------------------------------------------------------------

class Unknown:
    """a value the evaluator does not model; using it in arithmetic is Undecided"""

    def __init__(self, why: str = ""):
        self.why = why


class Mask:
    """a boolean selection / truth value that depends on data"""


class Cond(Mask):
    """an elementwise equality test between symbolic values: usable as a mask, and as the condition of np.where"""

    def __init__(self, rel):
        self.rel = rel


class Linspace:
    def __init__(self, a, b, n):
        self.a, self.b, self.n = a, b, n

    def node(self, k):
        return self.a + k * (self.b - self.a) / (self.n - 1)


class PosLookup:
    """position, in the coordinate array of the sparse table, of the multi-indices `idx` (d x 1 object array)"""

    def __init__(self, idx, owner: str):
        self.idx, self.owner = idx, owner


class Special:
    def __init__(self, kind: str, owner: str = ""):
        self.kind, self.owner = kind, owner


class MaskedArr(np.ndarray):
    """an index array that went through a data-dependent selection (e.g. eval_ind[eval_ind < number of columns])"""


class _Return(Exception):
    def __init__(self, value):
        self.value = value


FSYM = sp.Function("F")
TRUNC = sp.Function("trunc")      # conversion to int of a non-integer value: truncation toward zero (NOT floor for negative arguments)


def _intlike(t) -> bool:
    if t.is_integer or isinstance(t, (sp.floor, sp.ceiling)):
        return True
    if isinstance(t, (sp.Add, sp.Mul, sp.Min, sp.Max)):
        return all(_intlike(a) for a in t.args)
    return False


def _to_int(v):
    def one(t):
        t = sp.sympify(t)
        return t if _intlike(t) else TRUNC(t)
    if isinstance(v, np.ndarray):
        return np.frompyfunc(one, 1, 1)(v) if v.size else v
    if isinstance(v, (sp.Expr, int)) and not isinstance(v, bool):
        return one(v)
    return v


def _num(v):
    return isinstance(v, (int, sp.Integer)) and not isinstance(v, bool)


def _arr(seq):
    out = np.empty(len(seq), dtype=object)
    for i, v in enumerate(seq):
        out[i] = v
    return out


_PRIMES = [3, 5, 7, 11, 13, 17, 19, 23, 29, 31, 37, 41, 43, 47, 53, 59, 61, 67, 71, 73, 79, 83, 89, 97]


def _z(e) -> bool:
    """identically zero?  expand() to 0 proves it; a non-zero value at an exact rational point refutes it; otherwise undecided"""
    e = sp.expand(sp.sympify(e))
    if e == 0:
        return True
    syms = sorted(e.free_symbols, key=str)
    for trial in range(3):
        vals = {}
        for i, s_ in enumerate(syms):
            p_ = _PRIMES[(i + 5 * trial) % len(_PRIMES)]
            vals[s_] = sp.Integer(p_) if s_.is_integer else sp.Rational(p_, 2 + trial)
        v = e.subs(vals)
        if v.is_number and v.is_finite and v != 0:
            return False
    e2 = sp.cancel(sp.together(e))
    if e2 == 0:
        return True
    raise Undecided(f"C41: cannot decide whether {str(e)[:120]} vanishes identically")


class World:
    """one class under analysis for one parameter dimension d"""

    def __init__(self, mod, cname: str, d: int):
        self.mod, self.cname, self.d = mod, cname, d
        self.mro = [mod.cls(cname)] + ([mod.cls(BASE)] if cname != BASE else [])
        self.attrs: dict[str, object] = {}
        self.sigma = None          # symbolic strides (dense table) used to split the linear index into the vertex
        self.coordmap = None       # callable: (d x 1 index array) -> (d x 1 coordinate array)
        self.reads: list = []       # (vertex, masked?) of every value-table read
        self.k = _arr([sp.Symbol(f"k{j}", integer=True) for j in range(d)]).reshape(-1, 1)
        self.x = _arr([sp.Symbol(f"x{j}", real=True) for j in range(d)]).reshape(-1, 1)

    def method(self, name: str) -> tuple[ast.FunctionDef, str]:
        for c in self.mro:
            m = methods(c).get(name)
            if m is not None:
                return m, c.name
        raise AnchorError(f"{IT}:{self.cname}.{name} not found")

    def has_property(self, name: str) -> bool:
        for c in self.mro:
            m = methods(c).get(name)
            if m is not None:
                return any(u(dec) == "property" for dec in m.decorator_list)
        return False

    def vertex_of(self, idx):
        """multi-index (tuple of sympy terms) addressed by a value-table column index"""
        if isinstance(idx, PosLookup):
            return tuple(np.ravel(idx.idx))
        if isinstance(idx, np.ndarray) and idx.size == 1:
            idx = np.ravel(idx)[0]
        if isinstance(idx, sp.Expr) and self.sigma is not None:
            sig = list(np.ravel(self.sigma))
            v = [sp.diff(idx, s) for s in sig]
            if any(vi.has(*sig) for vi in v) or sp.expand(idx - sum(a * b for a, b in zip(v, sig))) != 0:
                raise Undecided(f"{self.cname}: value-table index {idx} is not a linear combination of the strides")
            return tuple(v)
        raise Undecided(f"{self.cname}: cannot relate value-table index {idx!r} to a vertex")


class Ev:
    MAXDEPTH = 4

    def __init__(self, w: World, env: Optional[dict] = None, depth: int = 0, where: str = ""):
        self.w, self.env, self.depth, self.where = w, dict(env or {}), depth, where
        self.yields: list = []

    # ---- expressions -------------------------------------------------------------------------------
    def und(self, msg: str):
        return Undecided(f"{IT}:{self.w.cname}.{self.where}: {msg}")

    def ev(self, e: ast.expr):
        w = self.w
        if isinstance(e, ast.Constant):
            if isinstance(e.value, bool) or e.value is None or isinstance(e.value, str):
                return e.value
            if isinstance(e.value, (int, float)):
                return sp.nsimplify(e.value, rational=True)
            raise self.und(f"constant {e.value!r}")
        if isinstance(e, ast.Name):
            if e.id in self.env:
                return self.env[e.id]
            raise self.und(f"unknown name {e.id}")
        if isinstance(e, (ast.Tuple, ast.List)):
            vals = [self.ev(x) for x in e.elts]
            return tuple(vals) if isinstance(e, ast.Tuple) else vals
        if isinstance(e, ast.UnaryOp):
            v = self.ev(e.operand)
            if isinstance(e.op, ast.USub):
                return -self.need_num(v, e)
            if isinstance(e.op, ast.Not):
                return (not v) if isinstance(v, bool) else Mask()
            raise self.und(f"unary {u(e)}")
        if isinstance(e, ast.BoolOp):
            vals = [self.ev(x) for x in e.values]
            if all(isinstance(v, bool) for v in vals):
                return all(vals) if isinstance(e.op, ast.And) else any(vals)
            return Mask()
        if isinstance(e, ast.Compare):
            return self.compare(e)
        if isinstance(e, ast.BinOp):
            l, r = self.need_num(self.ev(e.left), e.left), self.need_num(self.ev(e.right), e.right)
            op = e.op
            if isinstance(op, ast.Add):
                return l + r
            if isinstance(op, ast.Sub):
                return l - r
            if isinstance(op, ast.Mult):
                return l * r
            if isinstance(op, ast.Div):
                return l / r
            if isinstance(op, ast.FloorDiv):
                return l // r
            if isinstance(op, ast.Pow):
                return l ** r
            raise self.und(f"operator {type(op).__name__}")
        if isinstance(e, ast.Attribute):
            return self.attribute(e)
        if isinstance(e, ast.Subscript):
            return self.subscript(self.ev(e.value), self.index(e.slice), e)
        if isinstance(e, ast.Call):
            return self.call(e)
        if isinstance(e, ast.ListComp):
            return self.listcomp(e)
        if isinstance(e, ast.IfExp):
            t = self.ev(e.test)
            if isinstance(t, bool):
                return self.ev(e.body if t else e.orelse)
            raise self.und(f"conditional expression {u(e)[:50]}")
        raise self.und(f"{type(e).__name__} {u(e)[:60]}")

    def need_num(self, v, e):
        if isinstance(v, (Unknown, Mask, Special, PosLookup, Linspace)) or v is None or isinstance(v, (str, list, tuple)):
            raise self.und(f"arithmetic on unmodelled value `{u(e)[:50]}`")
        if isinstance(v, bool):
            raise self.und(f"arithmetic on a truth value `{u(e)[:50]}`")
        if isinstance(v, int):
            return sp.Integer(v)
        return v

    def compare(self, e: ast.Compare):
        if len(e.ops) != 1:
            return Mask()
        l, r = self.ev(e.left), self.ev(e.comparators[0])
        op = e.ops[0]
        if isinstance(op, (ast.Is, ast.IsNot)):
            if l is None or r is None:
                res = (l is None and r is None)
                return res if isinstance(op, ast.Is) else not res
            return Mask()
        if _num(l) and _num(r):
            l, r = int(l), int(r)
            return {ast.Lt: l < r, ast.LtE: l <= r, ast.Gt: l > r, ast.GtE: l >= r, ast.Eq: l == r, ast.NotEq: l != r}.get(type(op), Mask())
        if isinstance(op, ast.Eq):
            ok_ = lambda v: isinstance(v, (np.ndarray, sp.Expr, int)) and not isinstance(v, (bool, MaskedArr))
            if ok_(l) and ok_(r):
                try:
                    return Cond(np.frompyfunc(lambda a_, b_: sp.Eq(sp.sympify(a_), sp.sympify(b_), evaluate=False), 2, 1)(l, r))
                except Exception:
                    return Mask()
        return Mask()

    def attribute(self, e: ast.Attribute):
        w = self.w
        d = dotted(e)
        if d is not None and d.startswith("self."):
            parts = d.split(".")
            if len(parts) == 2:
                return self.selfattr(parts[1], e)
            if len(parts) == 3 and isinstance(w.attrs.get(parts[1]), Special) and w.attrs[parts[1]].kind == "table":
                if parts[2] == "_coords":
                    return Special("coords", f"self.{parts[1]}")
                if parts[2] == "_values":
                    return Special("values", f"self.{parts[1]}")
        base = self.ev(e.value)
        a = e.attr
        if isinstance(base, (Unknown, Special)):
            return Unknown(f"{u(e)}")
        if isinstance(base, np.ndarray):
            if a == "T":
                return base.T
            if a == "size":
                return int(base.size)
            if a == "shape":
                return tuple(int(s) for s in base.shape)
            if a == "ndim":
                return int(base.ndim)
        raise self.und(f"attribute {u(e)}")

    def selfattr(self, name: str, e):
        w = self.w
        if name in w.attrs:
            return w.attrs[name]
        if w.has_property(name):
            fn, owner = w.method(name)
            return Ev(w, {"self": Special("self")}, self.depth + 1, name).run(fn)
        raise self.und(f"attribute self.{name} has no modelled value")

    def index(self, s: ast.expr):
        if isinstance(s, ast.Slice):
            if s.step is not None:
                raise self.und("stepped slice")
            lo = self.ev(s.lower) if s.lower is not None else None
            hi = self.ev(s.upper) if s.upper is not None else None
            for b in (lo, hi):
                if b is not None and not _num(b):
                    raise self.und(f"slice bound {b!r}")
            return slice(int(lo) if lo is not None else None, int(hi) if hi is not None else None)
        if isinstance(s, ast.Tuple):
            return tuple(self.index(x) for x in s.elts)
        v = self.ev(s)
        return int(v) if _num(v) else v

    def subscript(self, base, idx, e):
        w = self.w
        if isinstance(base, Unknown):
            return Unknown(base.why)
        if isinstance(base, Special):
            if base.kind == "values":
                # column(s) of the value table: one symbolic value per addressed vertex
                col = idx[-1] if isinstance(idx, tuple) else idx
                v = w.vertex_of(col)
                w.reads.append((v, isinstance(col, MaskedArr)))
                return _arr([FSYM(*v)])
            if base.kind == "pt":
                if not (isinstance(idx, tuple) and len(idx) == 2 and isinstance(idx[1], PosLookup)):
                    raise self.und(f"stored coordinates indexed as {u(e)}")
                if w.coordmap is None:
                    raise self.und("coordinate map of the stored points unknown")
                c = w.coordmap(idx[1].idx)
                return c if isinstance(idx[0], slice) else c[idx[0]]
            return Unknown(u(e))
        if isinstance(base, Linspace):
            if isinstance(idx, np.ndarray):
                return _arr([base.node(k) for k in np.ravel(idx)]).reshape(idx.shape)
            if isinstance(idx, (int, sp.Expr)):
                return base.node(idx)
            raise self.und(f"axis nodes indexed as {u(e)}")
        if isinstance(base, (list, tuple)):
            if isinstance(idx, int):
                return base[idx]
            if isinstance(idx, slice):
                return base[idx]
            raise self.und(f"sequence indexed as {u(e)}")
        if isinstance(base, np.ndarray):
            def fix(i):
                if isinstance(i, Mask):
                    return slice(None)   # a data-dependent selection keeps the (single, symbolic) column
                if isinstance(i, (int, slice)):
                    return i
                if isinstance(i, list) and all(_num(t) for t in i):
                    return [int(t) for t in i]
                raise self.und(f"array indexed as {u(e)}")
            try:
                res_ = base[tuple(fix(i) for i in idx)] if isinstance(idx, tuple) else base[fix(idx)]
                if isinstance(res_, np.ndarray) and (isinstance(idx, Mask) or (isinstance(idx, tuple) and any(isinstance(i, Mask) for i in idx))):
                    res_ = res_.view(MaskedArr)
                return res_
            except IndexError:
                raise self.und(f"index out of range in {u(e)}")
        if isinstance(base, PosLookup) and isinstance(idx, Mask):
            return base
        if isinstance(base, sp.Expr) and (isinstance(idx, (Mask, slice)) or (isinstance(idx, tuple) and all(isinstance(i, (Mask, slice)) for i in idx))):
            return base
        raise self.und(f"subscript {u(e)[:60]}")

    def listcomp(self, e: ast.ListComp):
        if len(e.generators) != 1 or e.generators[0].ifs:
            raise self.und(f"comprehension {u(e)[:50]}")
        g = e.generators[0]
        out = []
        for binding in self.iterate(g.iter, g.target):
            sub = Ev(self.w, {**self.env, **binding}, self.depth, self.where)
            out.append(sub.ev(e.elt))
        return out

    # ---- iteration ---------------------------------------------------------------------------------
    def bind(self, target: ast.expr, value) -> dict:
        if isinstance(target, ast.Name):
            return {target.id: value}
        if isinstance(target, (ast.Tuple, ast.List)):
            if isinstance(value, np.ndarray):
                value = list(value)
            if not isinstance(value, (tuple, list)) or len(value) != len(target.elts):
                raise self.und(f"cannot unpack into {u(target)}")
            out = {}
            for t, v in zip(target.elts, value):
                out.update(self.bind(t, v))
            return out
        raise self.und(f"binding target {u(target)}")

    def items(self, it: ast.expr) -> list:
        """the sequence of values an iterable expression produces"""
        if isinstance(it, ast.Call):
            nm = call_name(it)
            d = dotted(it.func) or ""
            if nm == "range" and isinstance(it.func, ast.Name):
                a = [self.ev(x) for x in it.args]
                if not all(_num(x) for x in a):
                    raise self.und(f"range bounds {u(it)}")
                return [sp.Integer(i) for i in range(*[int(x) for x in a])]
            if nm == "enumerate" and len(it.args) == 1:
                return [(sp.Integer(i), v) for i, v in enumerate(self.items(it.args[0]))]
            if nm == "zip" and isinstance(it.func, ast.Name):
                cols = []
                for a_ in it.args:
                    if isinstance(a_, ast.Starred):
                        cols += [self.seq(v, a_) for v in self.seq(self.ev(a_.value), a_)]
                    else:
                        cols.append(self.seq(self.ev(a_), a_))
                if len({len(c) for c in cols}) > 1:
                    raise self.und(f"zip over sequences of different symbolic length: {u(it)[:60]}")
                return [tuple(t) for t in zip(*cols)]
            if d.endswith("itertools.product") or d == "product":
                rep = kwarg(it, "repeat")
                if len(it.args) == 1 and rep is not None and u(it.args[0]) == "range(2)":
                    n = self.ev(rep)
                    if _num(n):
                        return [tuple(sp.Integer(b) for b in t) for t in itertools.product(range(2), repeat=int(n))]
                raise self.und(f"product form {u(it)[:60]}")
            if isinstance(it.func, ast.Attribute) and isinstance(it.func.value, ast.Name) and it.func.value.id == "self":
                fn, owner = self.w.method(it.func.attr)
                if any(isinstance(n, ast.Yield) for n in walk_local(fn)):
                    sub = self.frame(fn, it)
                    sub.run(fn)
                    return sub.yields
        return self.seq(self.ev(it), it)

    def seq(self, v, e) -> list:
        if isinstance(v, np.ndarray):
            return [v[i] for i in range(v.shape[0])]
        if isinstance(v, (list, tuple)):
            return list(v)
        raise self.und(f"iteration over unmodelled value `{u(e)[:50]}`")

    def iterate(self, it: ast.expr, target: ast.expr):
        for v in self.items(it):
            yield self.bind(target, v)

    # ---- calls -------------------------------------------------------------------------------------
    def frame(self, fn: ast.FunctionDef, call: ast.Call) -> "Ev":
        if self.depth >= self.MAXDEPTH:
            raise self.und("helper nesting too deep")
        params = [a.arg for a in fn.args.args]
        static = any(u(dec) == "staticmethod" for dec in fn.decorator_list)
        if fn.args.vararg or fn.args.kwarg or (not static and (not params or params[0] not in ("self", "cls"))):
            raise self.und(f"signature of {fn.name}")
        params = params if static else params[1:]
        env: dict = {**MODS}
        defaults = fn.args.defaults
        for p, dflt in zip(params[len(params) - len(defaults):], defaults):
            env[p] = self.ev(dflt) if isinstance(dflt, ast.Constant) else Unknown("default")
        if any(isinstance(a, ast.Starred) for a in call.args) or len(call.args) > len(params):
            raise self.und(f"arguments of {u(call)[:60]}")
        for p, a in zip(params, call.args):
            env[p] = self.ev(a)
        for k in call.keywords:
            if k.arg not in params:
                raise self.und(f"keyword {k.arg} of {fn.name}")
            env[k.arg] = self.ev(k.value)
        missing = [p for p in params if p not in env]
        if missing:
            raise self.und(f"{fn.name} called without {missing}")
        return Ev(self.w, env, self.depth + 1, fn.name)

    def call(self, e: ast.Call):
        w = self.w
        f = e.func
        d = dotted(f) or ""
        nm = call_name(e)
        # methods of the class under analysis
        if isinstance(f, ast.Attribute) and isinstance(f.value, ast.Name) and (f.value.id == "self" or f.value.id in {c_.name for c_ in w.mro}):
            if nm == "_find_base_vertex" and not kwarg(e, "safeguarding") and len(e.args) == 1:
                # the cell search is analysed on its own (R4); here it yields the symbolic base index of the symbolic query
                a0 = self.ev(e.args[0])
                if not (isinstance(a0, np.ndarray) and a0.shape == w.x.shape and all(a == b for a, b in zip(a0.ravel(), w.x.ravel()))):
                    raise self.und(f"cell search of something else than the query points: {u(e)}")
                return w.k
            fn, owner = w.method(nm)
            return self.frame(fn, e).run(fn)
        if d.endswith("intersect_sets") and len(e.args) == 2 and not e.keywords:
            a0, a1 = self.ev(e.args[0]), self.ev(e.args[1])
            if isinstance(a1, Special) and a1.kind == "coords" and isinstance(a0, np.ndarray):
                return (Unknown("ia"), Unknown("ib"), Mask(), PosLookup(a0, a1.owner))
            return (Unknown("ia"), Unknown("ib"), Mask(), Unknown("intersection"))
        if d in ("np.array", "np.asarray", "np.atleast_2d") and len(e.args) >= 1:
            v = self.ev(e.args[0])
            if isinstance(v, np.ndarray):
                return v
            if isinstance(v, (list, tuple)):
                if not v:
                    return np.empty((0,), dtype=object)
                if all(isinstance(t, np.ndarray) for t in v):
                    return np.stack([t for t in v]) if len({t.shape for t in v}) == 1 else self._bad(e)
                if all(isinstance(t, (sp.Expr, int)) and not isinstance(t, bool) for t in v):
                    return _arr([sp.sympify(t) for t in v])
            if isinstance(v, (PosLookup, Unknown)):
                return v
            raise self.und(f"array construction {u(e)[:60]}")
        if d in ("np.prod", "np.sum") and len(e.args) == 1:
            v = self.ev(e.args[0])
            ax = kwarg(e, "axis")
            if not isinstance(v, np.ndarray):
                raise self.und(f"{d} of unmodelled value")
            fnp = np.prod if d == "np.prod" else np.sum
            if ax is None:
                return fnp(v)
            a = self.ev(ax)
            if not _num(a):
                raise self.und(f"axis of {u(e)[:50]}")
            return fnp(v, axis=int(a))
        if d in ("np.zeros", "np.zeros_like"):
            if kwarg(e, "dtype") is not None and u(kwarg(e, "dtype")) == "bool":
                return Unknown("boolean workspace")
            return sp.Integer(0)     # additive zero of any shape (only ever accumulated into)
        if d == "np.hstack" and len(e.args) == 1:
            parts = self.ev(e.args[0])
            out = []
            for p in parts if isinstance(parts, (tuple, list)) else [parts]:
                if isinstance(p, np.ndarray) and p.ndim == 1:
                    out += list(p)
                elif isinstance(p, (sp.Expr, int)) and not isinstance(p, bool):
                    out.append(sp.sympify(p))
                else:
                    raise self.und(f"hstack of {u(e)[:60]}")
            return _arr(out)
        if d in ("np.cumprod", "np.cumsum") and len(e.args) == 1:
            v = self.ev(e.args[0])
            if not (isinstance(v, np.ndarray) and v.ndim == 1):
                raise self.und(f"{d} of unmodelled value")
            acc, out = (sp.Integer(1) if d == "np.cumprod" else sp.Integer(0)), []
            for t in v:
                acc = acc * t if d == "np.cumprod" else acc + t
                out.append(acc)
            return _arr(out)
        if d == "np.ravel" and len(e.args) == 1:
            v = self.ev(e.args[0])
            if isinstance(v, (PosLookup, Unknown)):
                return v
            if isinstance(v, np.ndarray):
                return v.ravel()
            raise self.und("ravel of unmodelled value")
        if d == "np.linspace" and len(e.args) == 3:
            a, b, n = (self.need_num(self.ev(x), e) for x in e.args)
            for k_ in e.keywords:
                if k_.arg == "endpoint" and isinstance(k_.value, ast.Constant) and k_.value.value is False:
                    n = n + 1          # n nodes with spacing (b - a)/n
                elif k_.arg == "endpoint" and isinstance(k_.value, ast.Constant) and k_.value.value is True:
                    pass
                elif k_.arg != "dtype":
                    raise self.und(f"np.linspace keyword {k_.arg}")
            return Linspace(a, b, n)
        if d in ("np.minimum", "np.maximum") and len(e.args) == 2:
            a, b = self.need_num(self.ev(e.args[0]), e), self.need_num(self.ev(e.args[1]), e)
            f_ = np.frompyfunc(sp.Min if d == "np.minimum" else sp.Max, 2, 1)
            return f_(a, b)
        if d == "np.clip" and len(e.args) == 3:
            a, lo_, hi_ = (self.need_num(self.ev(x), e) for x in e.args)
            return np.frompyfunc(sp.Min, 2, 1)(np.frompyfunc(sp.Max, 2, 1)(a, lo_), hi_)
        if d in ("np.logical_not", "np.all", "np.any", "np.logical_and", "np.logical_or", "np.isclose"):
            return Mask()
        if d == "np.where" and len(e.args) == 3:
            c_ = self.ev(e.args[0])
            if not isinstance(c_, Cond):
                raise self.und(f"np.where on a condition that is not a symbolic equality: {u(e.args[0])[:50]}")
            a_, b_ = self.need_num(self.ev(e.args[1]), e), self.need_num(self.ev(e.args[2]), e)
            return np.frompyfunc(lambda r_, x_, y_: sp.Piecewise((sp.sympify(x_), r_), (sp.sympify(y_), True), evaluate=False), 3, 1)(c_.rel, a_, b_)
        if d in ("np.flatnonzero", "np.where", "np.nonzero") and len(e.args) == 1 and isinstance(self.ev(e.args[0]), Mask):
            # positions selected by a data-dependent condition: used like the condition itself
            return Mask() if d == "np.flatnonzero" else (Mask(),)
        if d == "len" and len(e.args) == 1:
            v = self.ev(e.args[0])
            if isinstance(v, (list, tuple)):
                return len(v)
            if isinstance(v, np.ndarray):
                return int(v.shape[0])
            raise self.und("len of unmodelled value")
        if d in ("int", "float") and len(e.args) == 1:
            return _to_int(self.ev(e.args[0])) if d == "int" else self.ev(e.args[0])
        if d == "list" and not e.args:
            return []
        # methods of values
        if isinstance(f, ast.Attribute):
            base = self.ev(f.value)
            if isinstance(base, Unknown):
                return Unknown(base.why)
            if nm == "astype" and len(e.args) == 1 and u(e.args[0]) in ("int", "np.int32", "np.int64", "np.int_", "'int'", "'i8'", "'i4'"):
                return _to_int(base)
            if nm == "astype" or (nm == "copy" and not e.args):
                return base.copy() if isinstance(base, np.ndarray) and nm == "copy" else base
            if nm == "reshape":
                shp = self.ev(e.args[0]) if len(e.args) == 1 else tuple(self.ev(a) for a in e.args)
                if _num(shp):
                    shp = (shp,)
                if isinstance(base, sp.Expr):
                    return base          # the additive zero / a scalar
                if isinstance(base, np.ndarray) and isinstance(shp, tuple) and all(_num(s) for s in shp):
                    return base.reshape(tuple(int(s) for s in shp))
                raise self.und(f"reshape {u(e)[:60]}")
            if nm == "ravel" and isinstance(base, np.ndarray) and not e.args and not e.keywords:
                return base.ravel()
            if nm in ("sum", "prod") and isinstance(base, np.ndarray):
                ax = kwarg(e, "axis")
                fnp = np.sum if nm == "sum" else np.prod
                return fnp(base) if ax is None else fnp(base, axis=int(self.ev(ax)))
        return Unknown(f"call {u(e)[:50]}")

    def _bad(self, e):
        raise self.und(f"ragged array {u(e)[:60]}")

    # ---- statements --------------------------------------------------------------------------------
    def run(self, fn: ast.FunctionDef):
        try:
            self.exec(body_nodoc(fn))
        except _Return as r:
            return r.value
        return None

    def exec(self, stmts: list) -> None:
        for s in stmts:
            self.stmt(s)

    def store(self, t: ast.expr, v) -> None:
        w = self.w
        if isinstance(t, ast.Name):
            self.env[t.id] = v
        elif isinstance(t, (ast.Tuple, ast.List)):
            self.env.update(self.bind(t, v))
        elif isinstance(t, ast.Attribute) and isinstance(t.value, ast.Name) and t.value.id == "self":
            w.attrs[t.attr] = v
        elif isinstance(t, ast.Subscript) and isinstance(t.value, ast.Name) and t.value.id in self.env:
            base = self.env[t.value.id]
            if isinstance(base, Unknown):
                return
            idx = self.index(t.slice)
            if isinstance(base, np.ndarray) and (isinstance(idx, int) or (isinstance(idx, tuple) and all(isinstance(i, (int, slice)) for i in idx))):
                base = base.copy()
                base[idx] = v if not isinstance(v, np.ndarray) else v.reshape(np.shape(base[idx]))
                self.env[t.value.id] = base
            else:
                raise self.und(f"store {u(t)[:50]}")
        else:
            raise self.und(f"store target {u(t)[:50]}")

    def stmt(self, s: ast.stmt) -> None:
        if isinstance(s, (ast.Pass, ast.Assert)):
            return
        if isinstance(s, ast.Expr):
            v = s.value
            if isinstance(v, ast.Constant):
                return
            if isinstance(v, ast.Yield):
                self.yields.append(self.ev(v.value))
                return
            if isinstance(v, ast.Call) and isinstance(v.func, ast.Attribute) and v.func.attr == "append" and isinstance(v.func.value, ast.Name) \
                    and isinstance(self.env.get(v.func.value.id), list) and len(v.args) == 1:
                self.env[v.func.value.id] = self.env[v.func.value.id] + [self.ev(v.args[0])]
                return
            if isinstance(v, ast.Call):
                self.ev(v)
                return
            raise self.und(f"statement {u(s)[:50]}")
        if isinstance(s, (ast.Assign, ast.AnnAssign)):
            if s.value is None:
                return
            try:
                val = self.ev(s.value)
            except Undecided as ex:   # lazily unknown: only a later USE of the value makes the analysis refuse
                val = Unknown(str(ex))
            for t in (s.targets if isinstance(s, ast.Assign) else [s.target]):
                if isinstance(val, Unknown) and isinstance(t, (ast.Tuple, ast.List)):
                    for n_ in ast.walk(t):
                        if isinstance(n_, ast.Name):
                            self.env[n_.id] = val
                else:
                    self.store(t, val)
            return
        if isinstance(s, ast.AugAssign):
            t = s.target
            name = t.id if isinstance(t, ast.Name) else (t.value.id if isinstance(t, ast.Subscript) and isinstance(t.value, ast.Name) else None)
            if name is None or name not in self.env:
                raise self.und(f"augmented assignment {u(s)[:50]}")
            if isinstance(t, ast.Subscript):
                idx = self.index(t.slice)
                parts = idx if isinstance(idx, tuple) else (idx,)
                if not all(isinstance(i, Mask) or (isinstance(i, slice) and i == slice(None)) for i in parts):
                    raise self.und(f"partial accumulation {u(t)[:50]}")
            cur = self.need_num(self.env[name], t)
            rhs = self.need_num(self.ev(s.value), s.value)
            if isinstance(s.op, ast.Add):
                self.env[name] = cur + rhs
            elif isinstance(s.op, ast.Sub):
                self.env[name] = cur - rhs
            elif isinstance(s.op, ast.Mult):
                self.env[name] = cur * rhs
            elif isinstance(s.op, ast.Div):
                self.env[name] = cur / rhs
            else:
                raise self.und(f"augmented operator in {u(s)[:50]}")
            return
        if isinstance(s, ast.Return):
            raise _Return(self.ev(s.value) if s.value is not None else None)
        if isinstance(s, ast.If):
            t = self.ev(s.test)
            if isinstance(t, bool):
                self.exec(s.body if t else s.orelse)
                return
            if all(isinstance(b, ast.Raise) for b in s.body) and not s.orelse:
                return
            raise self.und(f"data-dependent branch `if {u(s.test)[:60]}`")
        if isinstance(s, ast.For):
            if s.orelse:
                raise self.und("for/else")
            for binding in self.iterate(s.iter, s.target):
                self.env.update(binding)
                self.exec(s.body)
            return
        if isinstance(s, ast.Raise):
            raise self.und("unconditional raise on the analysed path")
        raise self.und(f"statement {type(s).__name__}")


# ------------------------------------------------------------------------------------------------------
# worlds: init-time attributes of the two classes over symbols
# ------------------------------------------------------------------------------------------------------

MODS = {"np": Unknown("module"), "pp": Unknown("module"), "itertools": Unknown("module"), "self": Special("self")}


def _tolerant_exec(ev: Ev, stmts: list) -> None:
    """__init__ bodies: statements that cannot be modelled are skipped (their attributes stay unmodelled, any use refuses)"""
    for s in stmts:
        try:
            ev.stmt(s)
        except Undecided:
            continue
        except _Return:
            return


def _roles(mod) -> dict:
    """attribute roles of the adaptive table, found by what is done with them (not by their names)"""
    cls = mod.cls(ADPT)
    ms = methods(cls)
    for need in ("__init__", "_fill_values", "quadrature_points_from_coordinates", "_index_from_base_and_increment", "_right_left_weights", "_find_base_vertex"):
        if need not in ms:
            raise AnchorError(f"{IT}:{ADPT}.{need} not found")
    table = None
    for s in walk_local(ms["__init__"]):
        if isinstance(s, (ast.Assign, ast.AnnAssign)) and s.value is not None and isinstance(s.value, ast.Call) and call_name(s.value) == "SparseNdArray":
            t = s.targets[0] if isinstance(s, ast.Assign) else s.target
            if isinstance(t, ast.Attribute) and u(t.value) == "self":
                table = t.attr
    if table is None:
        raise AnchorError(f"{IT}:{ADPT}.__init__: the sparse value table (SparseNdArray) is not created")
    # Q returns (coordinates, indices)
    q = ms["quadrature_points_from_coordinates"]
    rets = [r for r in walk_local(q) if isinstance(r, ast.Return) and r.value is not None]
    if len(rets) != 1 or not (isinstance(rets[0].value, ast.Tuple) and len(rets[0].value.elts) == 2 and all(isinstance(x, ast.Name) for x in rets[0].value.elts)):
        raise Undecided(f"{IT}:{ADPT}.quadrature_points_from_coordinates: does not return a pair of names")
    a, b = (x.id for x in rets[0].value.elts)
    first = {}
    for s in body_nodoc(q):
        if isinstance(s, ast.Assign) and len(s.targets) == 1 and isinstance(s.targets[0], ast.Name) and s.targets[0].id in (a, b) and s.targets[0].id not in first:
            first[s.targets[0].id] = s
    if a not in first or b not in first:
        raise Undecided(f"{IT}:{ADPT}.quadrature_points_from_coordinates: returned names are not assigned at top level")
    # the coordinate array is the one computed from the other
    if b in names_in(first[a].value) and a not in names_in(first[b].value):
        cpos, ipos, cname, iname = 0, 1, a, b
    elif a in names_in(first[b].value) and b not in names_in(first[a].value):
        cpos, ipos, cname, iname = 1, 0, b, a
    else:
        raise Undecided(f"{IT}:{ADPT}.quadrature_points_from_coordinates: cannot tell coordinates from indices")
    # the stored-coordinates attribute: appended with the coordinates in _fill_values
    fv = ms["_fill_values"]
    unpack = [s for s in walk_local(fv) if isinstance(s, ast.Assign) and isinstance(s.value, ast.Call) and call_name(s.value) == "quadrature_points_from_coordinates"
              and isinstance(s.targets[0], ast.Tuple) and len(s.targets[0].elts) == 2 and all(isinstance(x, ast.Name) for x in s.targets[0].elts)]
    if len(unpack) != 1:
        raise Undecided(f"{IT}:{ADPT}._fill_values: result of quadrature_points_from_coordinates is not unpacked into two names")
    names = [x.id for x in unpack[0].targets[0].elts]
    fc, fi = names[cpos], names[ipos]
    pt = None
    for s in walk_local(fv):
        if isinstance(s, ast.Assign) and isinstance(s.targets[0], ast.Attribute) and u(s.targets[0].value) == "self" and isinstance(s.value, ast.Call) \
                and call_name(s.value) == "hstack" and fc in names_in(s.value) and f"self.{s.targets[0].attr}" in u(s.value):
            pt = s.targets[0].attr
    if pt is None:
        raise Undecided(f"{IT}:{ADPT}._fill_values: the coordinates of new points are not appended to a stored-coordinate attribute")
    return dict(table=table, pt=pt, q_coord=cname, q_index=iname, q_coord_stmt=first[cname], cpos=cpos, ipos=ipos, fill_coord=fc, fill_index=fi,
                fill_unpack=unpack[0], q_ret=rets[0])


def _world(mod, cname: str, d: int, roles: dict) -> World:
    w = World(mod, cname, d)
    env = dict(MODS)
    init, _ = w.method("__init__")
    params = [a.arg for a in init.args.args][1:]
    if cname == BASE:
        if len(params) < 4:
            raise AnchorError(f"{IT}:{BASE}.__init__: signature changed")
        lo = _arr([sp.Symbol(f"low{j}", real=True) for j in range(d)])
        n = _arr([sp.Symbol(f"n{j}", integer=True, positive=True) for j in range(d)])
        # w.l.o.g. high = low + (n - 1) * H with H the (arbitrary, non-zero) node spacing: keeps all terms Laurent polynomials
        hi = _arr([lo[j] + (n[j] - 1) * sp.Symbol(f"H{j}", positive=True) for j in range(d)])
        env.update({params[0]: lo, params[1]: hi, params[2]: n, params[3]: Unknown("function")})
        for p in params[4:]:
            env[p] = sp.Integer(1)
        _tolerant_exec(Ev(w, env, 0, "__init__"), body_nodoc(init))
        # the attribute returned by the `_values` property is the dense value table
        pv, _ = w.method("_values")
        r = [x for x in walk_local(pv) if isinstance(x, ast.Return) and x.value is not None]
        if len(r) != 1 or not (isinstance(r[0].value, ast.Attribute) and u(r[0].value.value) == "self"):
            raise Undecided(f"{IT}:{BASE}._values: does not return an attribute of self")
        w.value_attr = r[0].value.attr
        w.attrs[w.value_attr] = Special("values", f"self.{w.value_attr}")
        st = w.attrs.get("_strides")
        if not isinstance(st, np.ndarray):
            raise Undecided(f"{IT}:{BASE}: the strides (self._strides) could not be evaluated symbolically")
        w.real_strides = st
        w.sigma = _arr([sp.Symbol(f"sigma{j}", positive=True) for j in range(d)]).reshape(st.shape)
        w.attrs["_strides"] = w.sigma
        axes = None
        for v in w.attrs.values():
            if isinstance(v, list) and len(v) == d and all(isinstance(t, Linspace) for t in v):
                axes = v
        if axes is None:
            raise Undecided(f"{IT}:{BASE}: the axis nodes (list of np.linspace) could not be evaluated")
        w.coordmap = lambda K, axes=axes: _arr([axes[j].node(np.ravel(K)[j]) for j in range(d)]).reshape(-1, 1)
        w.sym = dict(low=lo, high=hi, n=n)
    else:
        if len(params) < 3:
            raise AnchorError(f"{IT}:{ADPT}.__init__: signature changed")
        h = _arr([sp.Symbol(f"h{j}", positive=True) for j in range(d)])
        o = _arr([sp.Symbol(f"O{j}", real=True) for j in range(d)])
        env.update({params[0]: h, params[1]: o, params[2]: Unknown("function")})
        for p in params[3:]:
            env[p] = sp.Integer(1)
        _tolerant_exec(Ev(w, env, 0, "__init__"), body_nodoc(init))
        w.attrs[roles["table"]] = Special("table", f"self.{roles['table']}")
        w.attrs[roles["pt"]] = Special("pt", f"self.{roles['pt']}")
        st = roles["q_coord_stmt"]

        def cmap(K, st=st):
            e = Ev(w, {**MODS, roles["q_index"]: K}, 0, "quadrature_points_from_coordinates")
            c = e.ev(st.value)
            if not (isinstance(c, np.ndarray) and c.shape == K.shape):
                raise Undecided(f"{IT}:{ADPT}.quadrature_points_from_coordinates: coordinates of the quadrature indices could not be evaluated")
            return c
        w.coordmap = cmap
        w.sym = dict(h=h, O=o)
    return w


def _scalar(v, what: str):
    if isinstance(v, np.ndarray) and v.size == 1:
        v = v.ravel()[0]
    if isinstance(v, (Unknown, Mask, Special, PosLookup)) or v is None or isinstance(v, (np.ndarray, list, tuple)):
        raise Undecided(f"{what}: result is not a single symbolic value ({type(v).__name__})")
    return sp.sympify(v)


def _subs_F(expr, w: World, S) -> sp.Expr:
    """F(v) := prod_{j in S} X_j(v_j)"""
    def rep(*v):
        c = w.coordmap(_arr(list(v)).reshape(-1, 1))
        out = sp.Integer(1)
        for j in S:
            out *= np.ravel(c)[j]
        return out
    return expr.replace(FSYM, rep)


def _query(w: World, mname: str, extra: dict) -> sp.Expr:
    fn = methods(w.mod.cls(BASE)).get(mname)
    if fn is None:
        raise AnchorError(f"{IT}:{BASE}.{mname} not found")
    params = [a.arg for a in fn.args.args][1:]
    env = dict(MODS)
    env[params[0]] = w.x
    for p, v in zip(params[1:], extra.values()):
        env[p] = v
    res = Ev(w, env, 0, mname).run(fn)
    return _scalar(res, f"{IT}:{w.cname}.{mname}")


# ------------------------------------------------------------------------------------------------------
# R1 / R2
# ------------------------------------------------------------------------------------------------------

def _local(w: World) -> dict:
    """x_j = node_j(k_j) + t_j * step_j: a bijective re-parametrisation of the query point inside its cell (step != 0) that keeps all terms polynomial"""
    node = w.coordmap(w.k).ravel()
    one = _arr([sp.Integer(1)] * w.d).reshape(-1, 1)
    nxt = w.coordmap(w.k + one).ravel()
    return {w.x.ravel()[j]: node[j] + sp.Symbol(f"t{j}", real=True) * sp.expand(nxt[j] - node[j]) for j in range(w.d)}


def _show(e) -> str:
    try:
        return str(sp.factor(sp.expand(e)))[:200]
    except Exception:  # pragma: no cover
        return str(e)[:200]


def _check_reproduction(ctx: Ctx, mod, worlds: dict) -> None:
    fn_i = mod.func(f"{BASE}.interpolate")
    fn_g = mod.func(f"{BASE}.gradient")
    for (cname, d), w in worlds.items():
        loc = _local(w)
        I = _query(w, "interpolate", {})
        xs = list(w.x.ravel())
        nF = len(I.atoms(sp.core.function.AppliedUndef))
        if d == 2:
            ctx.sample({"rule": "R1", "class": cname, "d": d, "vertices": nF, "interpolant": str(I)[:300]})
        for r in range(d + 1):
            for S in itertools.combinations(range(d), r):
                got = _subs_F(I, w, S)
                want = sp.Integer(1)
                for j in S:
                    want *= xs[j]
                ok = _z((got - want).subs(loc))
                mono = "*".join(f"x{j}" for j in S) or "1"
                ctx.check("R1", ok, mod, f"{cname}.interpolate", fn_i,
                          f"[{cname}, d={d}] the interpolant of the multilinear function {mono} is not {mono}" + ("" if ok else f" but {_show(got)}") +
                          ": the vertex weights (product over the axes of right*incr + left*(1-incr), left = 1 - right, right = (x - node)/h) do not reproduce it",
                          construct=f"{cname}.interpolate reproduces {mono} [d={d}]", desc=f"[{cname}, d={d}] interpolate reproduces the multilinear function {mono}")
        for ax in range(d):
            G = _query(w, "gradient", {"axis": sp.Integer(ax)})
            tests = [((), sp.Integer(0), "1")] + [((j,), sp.Integer(1 if j == ax else 0), f"x{j}") for j in range(d)]
            for S, want, nm in tests:
                got = _subs_F(G, w, S)
                ok = _z((got - want).subs(loc))
                ctx.check("R2", ok, mod, f"{cname}.gradient", fn_g,
                          f"[{cname}, d={d}] d/dx{ax} of the linear function {nm} is not {want}" + ("" if ok else f" but {_show(got)}") +
                          ": the differentiated axis must contribute (2*incr - 1), the other axes their interpolation weights, and the sum must be divided by h of the same axis",
                          construct=f"{cname}.gradient axis {ax} of {nm} [d={d}]", desc=f"[{cname}, d={d}] d/dx{ax} of the linear function {nm} equals {want}")


# ------------------------------------------------------------------------------------------------------
# R3 dense table: fill order vs strides
# ------------------------------------------------------------------------------------------------------

def _writer_strides(indexing: str, order: str, n: list) -> list:
    d = len(n)
    axes = list(range(d))                      # array axis -> parameter axis
    if indexing == "xy" and d >= 2:
        axes[0], axes[1] = axes[1], axes[0]
    out = [None] * d
    seq = axes if order == "F" else list(reversed(axes))      # fastest first
    acc = sp.Integer(1)
    for pax in seq:
        out[pax] = acc
        acc = acc * n[pax]
    return out


def _const_str(e) -> Optional[str]:
    return e.value if isinstance(e, ast.Constant) and isinstance(e.value, str) else None


def _check_dense_layout(ctx: Ctx, mod, worlds: dict) -> None:
    cls = mod.cls(BASE)
    ms = methods(cls)
    # ---- writer order ----
    mesh = [(m, c) for m in ms.values() for c in walk_local(m) if isinstance(c, ast.Call) and call_name(c) == "meshgrid"]
    if len(mesh) != 1:
        raise Undecided(f"{IT}:{BASE}: expected one np.meshgrid call building the table coordinates, found {len(mesh)}")
    mfn, mc = mesh[0]
    if not (len(mc.args) == 1 and isinstance(mc.args[0], ast.Starred)):
        raise Undecided(f"{IT}:{BASE}.{mfn.name}: meshgrid arguments {u(mc)[:60]}")
    ik = kwarg(mc, "indexing")
    indexing = "xy" if ik is None else _const_str(ik)
    if indexing not in ("ij", "xy"):
        raise Undecided(f"{IT}:{BASE}.{mfn.name}: meshgrid indexing {u(mc)[:60]}")
    # the raveled coordinate list
    tname = None
    for s in walk_local(mfn):
        if isinstance(s, ast.Assign) and s.value is mc and isinstance(s.targets[0], ast.Name):
            tname = s.targets[0].id
    rav = None
    for s in walk_local(mfn):
        if isinstance(s, (ast.Assign, ast.AnnAssign)) and isinstance(s.value, ast.ListComp) and len(s.value.generators) == 1:
            g = s.value.generators[0]
            src_ok = (tname is not None and u(g.iter) == tname) or g.iter is mc
            if not src_ok or not isinstance(g.target, ast.Name):
                continue
            el = s.value.elt
            order = None
            if isinstance(el, ast.Call) and isinstance(el.func, ast.Attribute) and el.func.attr in ("ravel", "flatten") and u(el.func.value) == g.target.id:
                oa = arg_or_kw(el, 0, "order")
                order = "C" if oa is None else _const_str(oa)
            elif isinstance(el, ast.Call) and dotted(el.func) == "np.ravel" and el.args and u(el.args[0]) == g.target.id:
                oa = arg_or_kw(el, 1, "order")
                order = "C" if oa is None else _const_str(oa)
            t = s.targets[0] if isinstance(s, ast.Assign) else s.target
            if order in ("C", "F") and isinstance(t, ast.Attribute) and u(t.value) == "self":
                rav = (t.attr, order, s)
    if rav is None:
        raise Undecided(f"{IT}:{BASE}.{mfn.name}: the raveled coordinate list ([c.ravel(order) for c in meshgrid(...)]) was not recognised")
    coord_attr, order, rav_stmt = rav
    for (cname, d), w in worlds.items():
        if cname != BASE:
            continue
        n = list(w.sym["n"])
        want = _writer_strides(indexing, order, n)
        got = list(np.ravel(w.real_strides))
        if len(got) != d:
            ctx.check("R3", False, mod, f"{BASE}._set_sizes", rav_stmt, f"[d={d}] {len(got)} strides for {d} parameter axes", construct=f"number of strides [d={d}]")
            continue
        for j in range(d):
            ok = sp.expand(got[j] - want[j]) == 0
            ctx.check("R3", ok, mod, f"{BASE}._set_sizes", rav_stmt,
                      f"[d={d}] the table is filled in the order meshgrid(indexing='{indexing}') + ravel('{order}'), in which parameter axis {j} advances with stride "
                      f"{want[j]}, but the reader uses stride {got[j]}: values are read from the wrong grid node",
                      construct=f"stride of axis {j} [d={d}]", facts={"writer": str(want[j]), "reader": str(got[j]), "indexing": indexing, "order": order})
    ctx.sample({"rule": "R3", "indexing": indexing, "ravel_order": order, "coordinate_attr": coord_attr})
    # ---- fill loop ----
    init = ms.get("__init__")
    if init is None:
        raise AnchorError(f"{IT}:{BASE}.__init__ not found")
    fparam = [a.arg for a in init.args.args][4] if len(init.args.args) > 4 else None
    w1 = worlds[(BASE, 1)]
    loops = [l for l in walk_local(init) if isinstance(l, ast.For) and f"self.{coord_attr}" in u(l.iter)]
    comps = [c for c in walk_local(init) if isinstance(c, ast.ListComp) and len(c.generators) == 1 and f"self.{coord_attr}" in u(c.generators[0].iter)]
    if len(loops) == 1 and not comps:
        lp = loops[0]
        it = lp.iter
        if not (isinstance(it, ast.Call) and call_name(it) == "enumerate" and len(it.args) == 1 and isinstance(it.args[0], ast.Call) and call_name(it.args[0]) == "zip"
                and u(it.args[0].args[0]) == f"*self.{coord_attr}" and isinstance(lp.target, ast.Tuple) and len(lp.target.elts) == 2
                and all(isinstance(x, ast.Name) for x in lp.target.elts)):
            raise Undecided(f"{IT}:{BASE}.__init__: fill loop is not `for i, c in enumerate(zip(*self.{coord_attr}))`")
        iname, cname_ = (x.id for x in lp.target.elts)
        stores = [s for s in lp.body if isinstance(s, ast.Assign) and isinstance(s.targets[0], ast.Subscript) and isinstance(s.targets[0].value, ast.Attribute)
                  and u(s.targets[0].value.value) == "self"]
        if len(stores) != 1:
            raise Undecided(f"{IT}:{BASE}.__init__: fill loop body not recognised")
        st = stores[0]
        sl = st.targets[0].slice
        col = sl.elts[-1] if isinstance(sl, ast.Tuple) else sl
        ctx.check("R3", u(col) == iname, mod, f"{BASE}.__init__", st, f"the value of point number {iname} must be stored in column {iname}; it is stored in column `{u(col)}`",
                  construct="fill: column index")
        v = st.value
        filled_attr = st.targets[0].value.attr
    elif len(comps) == 1 and not loops:
        # [function(*c) for c in zip(*self._coord)]: the list keeps the order of the points
        cp = comps[0]
        g = cp.generators[0]
        if not (isinstance(g.iter, ast.Call) and call_name(g.iter) == "zip" and len(g.iter.args) == 1 and u(g.iter.args[0]) == f"*self.{coord_attr}"
                and isinstance(g.target, ast.Name) and not g.ifs):
            raise Undecided(f"{IT}:{BASE}.__init__: fill comprehension is not over zip(*self.{coord_attr})")
        cname_, iname = g.target.id, "i"
        st = next((s for s in walk_local(init) if isinstance(s, (ast.Assign, ast.AnnAssign)) and s.value is not None and any(n is cp for n in ast.walk(s.value))), None)
        t = (st.targets[0] if isinstance(st, ast.Assign) else st.target) if st is not None else None
        if not (isinstance(t, ast.Attribute) and u(t.value) == "self"):
            raise Undecided(f"{IT}:{BASE}.__init__: the list of function values is not stored in an attribute")
        ctx.check("R3", True, mod, f"{BASE}.__init__", st, "values are collected in the order of the points", construct="fill: column index")
        v = cp.elt
        filled_attr = t.attr
    else:
        raise Undecided(f"{IT}:{BASE}.__init__: the loop that fills the value table from self.{coord_attr} was not recognised")
    ok = isinstance(v, ast.Call) and fparam is not None and u(v.func) == fparam and len(v.args) == 1 and u(v.args[0]) == f"*{cname_}"
    ctx.check("R3", ok, mod, f"{BASE}.__init__", st, f"column {iname} must hold function(*coordinates of point {iname}); found `{u(v)[:60]}`", construct="fill: function of the same point")
    ctx.check("R3", filled_attr == w1.value_attr, mod, f"{BASE}.__init__", st,
              f"the table is filled into self.{filled_attr} but read (property _values) from self.{w1.value_attr}", construct="fill: attribute read by _values")
    # ---- reader: linear index = sum (base + incr) * stride ----
    w2 = worlds[(BASE, 2)]
    fnx, _ = w2.method("_index_from_base_and_increment")
    for inc in itertools.product(range(2), repeat=2):
        incr = _arr([sp.Integer(b) for b in inc]).reshape(-1, 1)
        e = Ev(w2, dict(MODS), 0, "_index_from_base_and_increment")
        pr = [a.arg for a in fnx.args.args][1:]
        e.env.update({pr[0]: w2.k, pr[1]: incr})
        if len(pr) > 2:
            e.env[pr[2]] = True
        idx = e.run(fnx)
        v_ = w2.vertex_of(idx)
        ok = all(sp.expand(v_[j] - (w2.k.ravel()[j] + inc[j])) == 0 for j in range(2))
        ctx.check("R3", ok, mod, f"{BASE}._index_from_base_and_increment", fnx,
                  f"the linear index for increment {inc} addresses vertex {v_}, expected base + increment", construct=f"linear index of increment {inc}")


# ------------------------------------------------------------------------------------------------------
# R4 index <-> coordinate pair; adaptive wiring
# ------------------------------------------------------------------------------------------------------

def _clamped_floor(t, x):
    """the floor term of an index expression built from ONE floor by clamping: Min / Max with x-free bounds, np.where with x-free alternatives"""
    if isinstance(t, sp.floor):
        return t
    if isinstance(t, (sp.Min, sp.Max)):
        inner = [a_ for a_ in t.args if a_.has(x)]
        if len(inner) == 1:
            return _clamped_floor(inner[0], x)
        return None
    if isinstance(t, sp.Piecewise):
        inner = [e_ for e_, _ in t.args if e_.has(x)]
        if len(inner) == 1:
            return _clamped_floor(inner[0], x)
        return None
    return None


def _resolve_piecewise(e):
    """evaluate Piecewise terms whose conditions are decidable equalities (after a substitution)"""
    e = sp.sympify(e)
    for _ in range(6):
        pws = list(e.atoms(sp.Piecewise))
        if not pws:
            return e
        pw = pws[0]
        chosen = None
        for val, cond in pw.args:
            if cond == True:     # noqa: E712  (sympy BooleanTrue)
                chosen = val
                break
            if isinstance(cond, sp.Eq):
                dlt = sp.expand(_resolve_piecewise(cond.lhs) - _resolve_piecewise(cond.rhs))
                if dlt == 0:
                    chosen = val
                    break
                if dlt.is_number or dlt.is_nonzero:
                    continue
            raise Undecided(f"C41: cannot decide the condition {cond}")
        if chosen is None:
            raise Undecided(f"C41: no branch of {pw} applies")
        e = e.xreplace({pw: chosen})
    return e


def _check_inverse_pair(ctx: Ctx, mod, worlds: dict) -> None:
    for (cname, d), w in worlds.items():
        if d == 3:
            continue
        fn, owner = w.method("_find_base_vertex")
        params = [a.arg for a in fn.args.args][1:]
        e = Ev(w, dict(MODS), 0, "_find_base_vertex")
        e.env[params[0]] = w.x
        for p, dflt in zip(params[len(params) - len(fn.args.defaults):], fn.args.defaults):
            e.env[p] = e.ev(dflt) if isinstance(dflt, ast.Constant) else Unknown("default")
        res = e.run(fn)
        if not (isinstance(res, np.ndarray) and res.size == d):
            raise Undecided(f"{IT}:{cname}._find_base_vertex: the cell index could not be evaluated symbolically (got {type(res).__name__})")
        node = w.coordmap(w.k)
        w.search = [res.ravel()[j] for j in range(d)]
        for j in range(d):
            t = res.ravel()[j]
            if getattr(t, "func", None) == TRUNC and cname == ADPT:
                w.search_inconsistent = True
                ctx.check("R4", False, mod, f"{owner}._find_base_vertex", fn,
                          f"[{cname}, d={d}] the cell index of axis {j} is obtained by converting {t.args[0]} to int, i.e. by truncation toward zero; the lattice of the "
                          f"adaptive table extends below its base point, and for x below the base point truncation gives the index of the cell ABOVE (floor is needed)",
                          construct=f"{cname}: cell index by floor on axis {j} [d={d}]")
                continue
            fl = _clamped_floor(t, w.x.ravel()[j])
            if fl is None:
                raise Undecided(f"{IT}:{cname}._find_base_vertex: index of axis {j} is not a (clamped) floor division: {t}")
            t = fl
            arg = t.args[0].subs({w.x.ravel()[j]: node.ravel()[j]}, simultaneous=True)
            ok = _z(arg - w.k.ravel()[j])
            if not ok:
                w.search_inconsistent = True
            ctx.check("R4", ok, mod, f"{owner}._find_base_vertex", fn,
                      f"[{cname}, d={d}] the cell search maps the coordinate of node k on axis {j} ({node.ravel()[j]}) to index {arg if ok else _show(arg)}, not k: "
                      f"search and node coordinates use different origins or mesh sizes", construct=f"{cname}: index(node_k) == k on axis {j} [d={d}]",
                      facts={"search": str(t), "node": str(node.ravel()[j])})


def _check_boundary(ctx: Ctx, mod, worlds: dict) -> None:
    """dense table: the cell search admits x_a = high_a and then returns the LAST node as base; the vertices base + 1 on that axis lie outside
    the grid (their linear index addresses another node or nothing) and must carry zero weight in every reader"""
    w = worlds[(BASE, 2)]
    d = 2
    if not hasattr(w, "search"):
        raise Undecided(f"{IT}:{BASE}: cell search not evaluated")
    if getattr(w, "search_inconsistent", False):
        ctx.note("R6 skipped: the cell search of the dense table is inconsistent with the node coordinates (reported under R4)")
        return
    n, xs, ks = list(w.sym["n"]), list(w.x.ravel()), list(w.k.ravel())
    loc = _local(w)
    axes = []
    for a in range(d):
        t = w.search[a]
        hi_node = w.coordmap(_arr([n[j] - 1 for j in range(d)]).reshape(-1, 1)).ravel()[a]       # = high_a
        kmax = sp.expand(_resolve_piecewise(t.subs({xs[a]: hi_node}, simultaneous=True)))
        if _eq0(kmax - (n[a] - 1)):
            axes.append(a)        # base index n_a - 1 is reachable: vertex n_a is outside the grid
        elif _eq0(kmax - (n[a] - 2)):
            ctx.check("R6", True, mod, f"{BASE}._find_base_vertex", None, f"axis {a}: the base index is clamped to the last cell", construct=f"axis {a}: base index clamped to the last cell")
        else:
            raise Undecided(f"{IT}:{BASE}._find_base_vertex: base index at x{a} = high{a} is {kmax}")
    readers, masked = [], {}
    for nm, b in [("interpolate", None)] + [("gradient", b_) for b_ in range(d)]:
        w.reads = []
        readers.append((nm, b, _query(w, nm, {} if b is None else {"axis": sp.Integer(b)})))
        masked[nm] = all(m for _, m in w.reads) and bool(w.reads)
    fns = {"interpolate": mod.func(f"{BASE}.interpolate"), "gradient": mod.func(f"{BASE}.gradient")}
    # the slowest axis of the table: a vertex one past its last node has a linear index beyond the table, so the read itself must be masked
    total = sp.Integer(1)
    for nj in n:
        total *= nj
    slow = [a for a in axes if _eq0(np.ravel(w.real_strides)[a] * n[a] - total)]
    for a in slow:
        for nm in ("interpolate", "gradient"):
            ctx.check("R6", masked[nm], mod, f"{BASE}.{nm}", fns[nm],
                      f"at x{a} = high{a} the vertices base + 1 on axis {a} have linear indices >= the number of table columns; {nm} reads the value table with these "
                      f"indices without excluding them (IndexError even where their weight is zero)", construct=f"{nm}: reads beyond the table are masked",
                      desc=f"{nm}: value-table reads beyond the table are masked (upper boundary of axis {a})")
    for a in axes:
        ta = sp.Symbol(f"t{a}", real=True)
        for nm, b, E in readers:
            E2 = sp.expand(E.subs(loc).subs(ta, 0))
            bad = []
            for atom in E.atoms(sp.core.function.AppliedUndef):
                if atom.func == FSYM and _eq0(atom.args[a] - (ks[a] + 1)):
                    c = E2.coeff(atom)
                    if not _z(c):
                        bad.append((atom, c))
            what = nm if b is None else f"{nm}(axis={b})"
            ctx.check("R6", not bad, mod, f"{BASE}.{nm}", fns[nm],
                      f"at x{a} = high{a} (a point of the box: the cell search accepts it and returns the last node as base) {what} gives weight "
                      f"{_show(bad[0][1]) if bad else 0} to the vertex base + 1 on axis {a}, which is outside the grid: its linear index addresses a node of the next "
                      f"grid line (silently wrong value) or lies beyond the table (IndexError)", construct=f"{what}: weight of the out-of-grid vertex at the upper boundary of axis {a}",
                      desc=f"{what}: out-of-grid vertices carry zero weight at x{a} = high{a}")


def _eq0(e) -> bool:
    return sp.expand(sp.sympify(e)) == 0


def _order_names(v: ast.expr) -> set[str]:
    """names whose column order the value inherits; a call of another method of the object (other than the cell search, which works column by
    column) yields columns in an order of its own"""
    out: set[str] = set()

    def visit(n):
        if isinstance(n, ast.Call) and isinstance(n.func, ast.Attribute) and isinstance(n.func.value, ast.Name) and n.func.value.id == "self" \
                and n.func.attr != "_find_base_vertex":
            return
        if isinstance(n, ast.Name):
            out.add(n.id)
        for c in ast.iter_child_nodes(n):
            visit(c)
    visit(v)
    return out


def _deps(fn: ast.FunctionDef, name: str) -> set[str]:
    """names a local transitively inherits its column order from (all assignments, all arms)"""
    seen, todo = set(), [name]
    while todo:
        nm = todo.pop()
        if nm in seen:
            continue
        seen.add(nm)
        for s in walk_local(fn):
            if isinstance(s, (ast.Assign, ast.AnnAssign)) and s.value is not None:
                ts = s.targets if isinstance(s, ast.Assign) else [s.target]
                if any(isinstance(n, ast.Name) and n.id == nm for t in ts for n in ast.walk(t)):
                    todo += list(_order_names(s.value))
    return seen


AO = "src/porepy/utils/array_operations.py"


def _callee_default(ctx: Ctx, pname: str) -> Optional[ast.expr]:
    fn = ctx.repo.module(AO).func("SparseNdArray.add")
    args = fn.args.args
    names = [a.arg for a in args]
    if pname not in names:
        raise AnchorError(f"{AO}:SparseNdArray.add has no parameter {pname}")
    k = names.index(pname) - (len(names) - len(fn.args.defaults))
    return fn.args.defaults[k] if k >= 0 else None


def _check_adaptive(ctx: Ctx, mod, worlds: dict, roles: dict) -> None:
    cls = mod.cls(ADPT)
    ms = methods(cls)
    T, PT = roles["table"], roles["pt"]
    # (b) requested multi-indices == looked-up vertices
    fnx = ms["_index_from_base_and_increment"]
    pr = [a.arg for a in fnx.args.args][1:]
    if len(pr) != 3:
        raise AnchorError(f"{IT}:{ADPT}._index_from_base_and_increment: signature changed")
    owner_seen = set()
    for d in (2, 3):
        if (ADPT, d) not in worlds:
            continue
        w = worlds[(ADPT, d)]
        for inc in itertools.product(range(2), repeat=d):
            incr = _arr([sp.Integer(b) for b in inc]).reshape(-1, 1)
            res = {}
            for lin in (True, False):
                e = Ev(w, dict(MODS), 0, "_index_from_base_and_increment")
                e.env.update({pr[0]: w.k, pr[1]: incr, pr[2]: lin})
                res[lin] = e.run(fnx)
            if not isinstance(res[True], PosLookup):
                raise Undecided(f"{IT}:{ADPT}._index_from_base_and_increment: the linear arm is not a position lookup in the table coordinates")
            owner_seen.add(res[True].owner)
            if not (isinstance(res[False], np.ndarray) and res[False].size == d):
                raise Undecided(f"{IT}:{ADPT}._index_from_base_and_increment: the multi-index arm could not be evaluated")
            a, b = list(np.ravel(res[True].idx)), list(np.ravel(res[False]))
            ok = all(sp.expand(x - y) == 0 for x, y in zip(a, b)) and all(sp.expand(x - (w.k.ravel()[j] + inc[j])) == 0 for j, x in enumerate(a))
            ctx.check("R4", ok, mod, f"{ADPT}._index_from_base_and_increment", fnx,
                      f"[d={d}] increment {inc}: the vertex requested for on-demand evaluation is {tuple(b)}, the vertex looked up when interpolating is {tuple(a)}; "
                      f"both must be base + increment", construct=f"requested == looked-up vertex for increment {inc} [d={d}]")
    # (d) value array aligned with the searched coordinate array
    pv = ms.get("_values")
    if pv is None:
        raise AnchorError(f"{IT}:{ADPT}._values not found")
    r = [x for x in walk_local(pv) if isinstance(x, ast.Return) and x.value is not None]
    got = u(r[0].value) if len(r) == 1 else "?"
    ctx.check("R4", len(owner_seen) == 1 and got == f"{next(iter(owner_seen))}._values", mod, f"{ADPT}._values", pv,
              f"positions are looked up in {sorted(owner_seen)}._coords but values are read from `{got}`", construct="value array aligned with the searched coordinates")
    # (c) lock-step selection in quadrature_points_from_coordinates / _fill_values
    q = ms["quadrature_points_from_coordinates"]
    C, I = roles["q_coord"], roles["q_index"]
    filt: dict[str, list] = {C: [], I: []}
    for s in stmts_local(q):
        if isinstance(s, ast.Assign) and len(s.targets) == 1 and isinstance(s.targets[0], ast.Name) and s.targets[0].id in (C, I) and s is not roles["q_coord_stmt"]:
            nm = s.targets[0].id
            if nm in names_in(s.value):
                if not (isinstance(s.value, ast.Subscript) and u(s.value.value) == nm):
                    raise Undecided(f"{IT}:{ADPT}.quadrature_points_from_coordinates: re-assignment `{u(s)[:60]}` is not a column selection")
                filt[nm].append(s)
    sel_c, sel_i = [u(s.value.slice) for s in filt[C]], [u(s.value.slice) for s in filt[I]]
    ctx.check("R4", sel_c == sel_i, mod, f"{ADPT}.quadrature_points_from_coordinates", roles["q_ret"],
              f"coordinates are filtered with {sel_c} but their indices with {sel_i}: the returned columns no longer correspond",
              construct="coordinates and indices filtered in lock-step")
    fv = ms["_fill_values"]
    fc, fi = roles["fill_coord"], roles["fill_index"]
    fcalls = [c for c in ast.walk(fv) if isinstance(c, ast.Call) and u(c.func) == "self._function"]
    adds = [c for c in ast.walk(fv) if isinstance(c, ast.Call) and u(c.func) == f"self.{T}.add"]
    if len(fcalls) != 1 or len(adds) != 1:
        raise Undecided(f"{IT}:{ADPT}._fill_values: expected one evaluation of self._function and one self.{T}.add")
    pm = {c: p for p in ast.walk(fv) for c in ast.iter_child_nodes(p)}

    def selection_of(node):
        """(iterable text, loop variable) of the comprehension / for loop that encloses node"""
        while node in pm:
            node = pm[node]
            if isinstance(node, (ast.ListComp, ast.GeneratorExp)) and len(node.generators) == 1 and not node.generators[0].ifs:
                return u(node.generators[0].iter), u(node.generators[0].target)
            if isinstance(node, ast.For):
                return u(node.iter), u(node.target)
            if isinstance(node, (ast.If, ast.While, ast.FunctionDef)):
                return None
        return None
    fsel = selection_of(fcalls[0])
    farg = fcalls[0].args[0].value if len(fcalls[0].args) == 1 and isinstance(fcalls[0].args[0], ast.Starred) else None
    key = adds[0].args[0] if adds[0].args else kwarg(adds[0], "coords")
    if isinstance(key, (ast.ListComp, ast.GeneratorExp)) and len(key.generators) == 1 and not key.generators[0].ifs:
        iarg, isel = key.elt, (u(key.generators[0].iter), u(key.generators[0].target))
    elif isinstance(key, ast.Name):
        apps_ = [c for c in ast.walk(fv) if isinstance(c, ast.Call) and isinstance(c.func, ast.Attribute) and c.func.attr == "append" and u(c.func.value) == key.id and len(c.args) == 1]
        if len(apps_) != 1:
            raise Undecided(f"{IT}:{ADPT}._fill_values: keys `{key.id}` handed to the table are not built by one append in a loop")
        iarg, isel = apps_[0].args[0], selection_of(apps_[0])
    else:
        iarg, isel = None, None
    if fsel is None or isel is None or farg is None or iarg is None:
        raise Undecided(f"{IT}:{ADPT}._fill_values: function evaluation / table insertion are not a comprehension or loop over a selection")

    def col_of(e, var):
        if isinstance(e, ast.Subscript) and isinstance(e.value, ast.Name) and isinstance(e.slice, ast.Tuple) and len(e.slice.elts) == 2 \
                and u(e.slice.elts[0]) == ":" and u(e.slice.elts[1]) == var:
            return e.value.id
        return None
    fa, ia = col_of(farg, fsel[1]), col_of(iarg, isel[1])
    if fa is None or ia is None:
        raise Undecided(f"{IT}:{ADPT}._fill_values: column selections `{u(farg)}` / `{u(iarg)}` not recognised")
    ctx.check("R4", fa == fc, mod, f"{ADPT}._fill_values", fcalls[0], f"the function must be evaluated at the COORDINATES of the new quadrature points (`{fc}`), it is evaluated at `{fa}`",
              construct="function evaluated at coordinates")
    ctx.check("R4", ia == fi, mod, f"{ADPT}._fill_values", adds[0], f"the sparse table must be keyed by the integer INDICES of the new quadrature points (`{fi}`), it is keyed by `{ia}`",
              construct="table keyed by indices")
    ctx.check("R4", fsel[0] == isel[0], mod, f"{ADPT}._fill_values", adds[0],
              f"values are computed for the selection `{fsel[0]}` but stored under the indices of the selection `{isel[0]}`",
              construct="values and keys selected in lock-step")
    # the values handed to add are the computed ones
    vals = adds[0].args[1] if len(adds[0].args) > 1 else kwarg(adds[0], "values")
    vname = vals.id if isinstance(vals, ast.Name) else None
    vdef = [s for s in walk_local(fv) if isinstance(s, ast.Assign) and isinstance(s.targets[0], ast.Name) and s.targets[0].id == vname]
    ok = len(vdef) == 1 and any(n is fcalls[0] for n in ast.walk(vdef[0].value))
    if len(vdef) == 1 and not ok:
        # values collected by append in the selection loop, then converted: new_values = np.array(vals).T
        for nm_ in names_in(vdef[0].value):
            if any(isinstance(c, ast.Call) and isinstance(c.func, ast.Attribute) and c.func.attr == "append" and u(c.func.value) == nm_
                   and any(n is fcalls[0] for n in ast.walk(c)) for c in ast.walk(fv)):
                ok = True
    ctx.check("R4", ok, mod, f"{ADPT}._fill_values", adds[0], "the values stored in the table are the ones just computed by the function", construct="stored values are the computed ones")
    # (e) overriding query methods fill, then delegate unchanged
    for nm in ("interpolate", "gradient"):
        fn = ms.get(nm)
        if fn is None:
            raise Undecided(f"{IT}:{ADPT}.{nm}: no override (values would never be computed on demand)")
        params = [a.arg for a in fn.args.args][1:]
        rets = [x for x in walk_local(fn) if isinstance(x, ast.Return) and x.value is not None]
        sup = [x for x in rets if isinstance(x.value, ast.Call) and isinstance(x.value.func, ast.Attribute) and u(x.value.func.value) in ("super()", f"super({ADPT}, self)")]
        if not rets or len(sup) != len(rets):
            raise Undecided(f"{IT}:{ADPT}.{nm}: not every return is a super() call")
        base_fn = methods(mod.cls(BASE)).get(nm)
        bparams = [a.arg for a in base_fn.args.args][1:] if base_fn is not None else []
        pmf = {c: p for p in ast.walk(fn) for c in ast.iter_child_nodes(p)}
        fills = [x for x in walk_local(fn) if isinstance(x, ast.Call) and u(x.func) == "self._fill_values"]
        for r_ in sup:
            c = r_.value
            bound = {bparams[i]: u(a) for i, a in enumerate(c.args) if i < len(bparams)}
            bound.update({k.arg: u(k.value) for k in c.keywords})
            ok = c.func.attr == nm and bparams == params and all(bound.get(p) == p for p in params)
            ctx.check("R4", ok, mod, f"{ADPT}.{nm}", r_, f"{nm} must delegate to {BASE}.{nm} with its own arguments {params}; found `{u(c)}`", construct=f"{nm}: delegation")
            # a return in the arm `if self._function is None:` has nothing to fill
            par = pmf.get(r_)
            no_function_arm = isinstance(par, ast.If) and r_ in par.body and u(par.test).replace(" ", "") in ("self._functionisNone",)
            if no_function_arm:
                continue
            ok = bool(fills) and all(x.lineno < r_.lineno for x in fills) and all(len(x.args) == 1 and u(x.args[0]) == params[0] for x in fills)
            ctx.check("R4", ok, mod, f"{ADPT}.{nm}", fn, f"{nm} must compute missing table values for the query points ({params[0]}) before delegating: without it a query in a "
                      f"cell not visited before reads vertices that are not in the table", construct=f"{nm}: fill before delegation")
    # (f) writers of the stored coordinates
    for mname, fn in ms.items():
        if mname == "__init__":
            continue
        apps = [s for s in walk_local(fn) if isinstance(s, ast.Assign) and isinstance(s.targets[0], ast.Attribute) and u(s.targets[0]) == f"self.{PT}"]
        if not apps:
            continue
        addc = [s for s in walk_local(fn) if isinstance(s, ast.Call) and u(s.func) == f"self.{T}.add"]
        ctx.check("R4", len(addc) == 1 and len(apps) == 1, mod, f"{ADPT}.{mname}", apps[0], f"self.{PT} (coordinates) and self.{T} (indices, values) must be extended together, once each",
                  construct=f"{mname}: coordinates and table extended together")
        if len(addc) != 1 or len(apps) != 1:
            continue
        params = {a.arg for a in fn.args.args} - {"self"}
        key = addc[0].args[0] if addc[0].args else kwarg(addc[0], "coords")
        user_ordered = any(params & _deps(fn, n) for n in names_in(key)) if key is not None else False
        if not user_ordered:
            continue
        # keys chosen by the caller may repeat or name nodes that are already stored: the write must OVERWRITE, an assigned value is a value, not an increment
        mode = arg_or_kw(addc[0], 2, "additive")
        if mode is None:
            mode = _callee_default(ctx, "additive")
        if not (isinstance(mode, ast.Constant) and isinstance(mode.value, bool)):
            raise Undecided(f"{IT}:{ADPT}.{mname}: write mode `{u(mode) if mode is not None else '?'}` of self.{T}.add is not a constant")
        ctx.check("R4", mode.value is False, mod, f"{ADPT}.{mname}", addc[0],
                  f"{mname} stores caller-supplied values with additive={mode.value}: a node that is assigned again (or twice in one batch) then holds the SUM of the "
                  f"assigned values, and the table no longer interpolates the assigned function", construct=f"{mname}: caller-supplied values overwrite")
        # name bound to the permutation returned by add
        perm = None
        for s in walk_local(fn):
            if isinstance(s, ast.Assign) and s.value is addc[0] and isinstance(s.targets[0], ast.Name):
                perm = s.targets[0].id
        v = inline_locals(fn, apps[0].value, stop=params | ({perm} if perm else set()))
        appended = [n for n in ast.walk(v) if isinstance(n, ast.Subscript) and perm is not None and perm in names_in(n.slice)]
        ctx.check("R4", bool(appended), mod, f"{ADPT}.{mname}", apps[0],
                  f"the keys come from the caller in arbitrary order and self.{T}.add sorts and de-duplicates them; the coordinates appended to self.{PT} must be permuted "
                  f"with the permutation it returns (found `{u(v)[:70]}`), otherwise column p of self.{PT} is not the coordinate of column p of the table",
                  construct=f"{mname}: appended coordinates permuted like the table")


# ------------------------------------------------------------------------------------------------------
# R5 parameter space vs value space
# ------------------------------------------------------------------------------------------------------

def _check_spaces(ctx: Ctx, mod) -> None:
    init = mod.func(f"{ADPT}.__init__")
    params = [a.arg for a in init.args.args][1:]
    if len(params) < 4:
        raise AnchorError(f"{IT}:{ADPT}.__init__: signature changed")
    dx, bp, dimp = params[0], params[1], params[3]
    # parameter-space sizes: derived from dx; value-space sizes: derived from dim
    P = {f"{dx}.size", f"len({dx})", f"{dx}.shape[0]", f"np.size({dx})"}
    V = {dimp, f"self.{dimp}"}
    for s in walk_local(init):
        if isinstance(s, (ast.Assign, ast.AnnAssign)) and s.value is not None:
            t = s.targets[0] if isinstance(s, ast.Assign) else s.target
            if isinstance(t, ast.Attribute) and u(t.value) == "self":
                if u(s.value) in P:
                    P.add(u(t))
                elif u(s.value) in V:
                    V.add(u(t))
    found = 0
    for iff in [n for n in walk_local(init) if isinstance(n, ast.If)]:
        t = iff.test
        if not (isinstance(t, ast.Compare) and u(t.left) == bp and isinstance(t.ops[0], ast.Is) and u(t.comparators[0]) == "None"):
            continue
        for s in iff.body:
            if isinstance(s, ast.Assign) and u(s.targets[0]) == bp and isinstance(s.value, ast.Call) and call_name(s.value) in ("zeros", "ones", "full", "empty") and s.value.args:
                size = u(s.value.args[0])
                found += 1
                if size in P or size in {f"({p},)" for p in P}:
                    ok = True
                elif size in V or size in {f"({p},)" for p in V}:
                    ok = False
                else:
                    raise Undecided(f"{IT}:{ADPT}.__init__: size `{size}` of the default base point is neither the parameter nor the value dimension")
                ctx.check("R5", ok, mod, f"{ADPT}.__init__", s,
                          f"the default base point has `{size}` entries = dimension of the function VALUE; it is zipped with the rows of the query points and with dx "
                          f"(one entry per PARAMETER axis) in _find_base_vertex, so with dx.size != {dimp} the cell search silently drops axes",
                          construct=f"default base point sized by the value dimension ({size})")
    if not found:
        raise Undecided(f"{IT}:{ADPT}.__init__: default of the base point not recognised")


# ------------------------------------------------------------------------------------------------------

def run(ctx: Ctx) -> None:
    mod = ctx.repo.module(IT)
    for c in (BASE, ADPT):
        mod.cls(c)
    roles = _roles(mod)
    dims = (1, 2, 3) if ctx.tier == "thorough" else (1, 2)     # the mutant battery always runs with d = 1, 2
    worlds = {(c, d): _world(mod, c, d, roles) for c in (BASE, ADPT) for d in dims}
    _check_reproduction(ctx, mod, worlds)
    _check_dense_layout(ctx, mod, worlds)
    _check_inverse_pair(ctx, mod, worlds)
    _check_boundary(ctx, mod, worlds)
    _check_adaptive(ctx, mod, worlds, roles)
    _check_spaces(ctx, mod)
    ctx.note("observation (outside the claimed clauses): AdaptiveInterpolationTable._find_base_vertex tests `np.any(rows_with_repeats)` on an array of row "
             "INDICES; when only parameter axis 0 is in rounding danger the array is [0], the test is False and no safeguarding points are added "
             "(e.g. dx=(0.1,0.1), x=(0.49999,0.25) returns 4 quadrature points, x=(0.25,0.49999) returns 6)")
    ctx.note("observation: _fill_values appends ALL coordinates returned by quadrature_points_from_coordinates to _pt but adds only the not-yet-stored indices to the "
             "table; the two agree as long as stored coordinates equal base_point + dx*index within 1e-10 (documented precondition of assign_values)")


def _m(name, old, new, rule, control=False, count=1, accept_undecided=False):
    return dict(name=name, file=IT, old=old, new=new, rule=rule, control=control, count=count, accept_undecided=accept_undecided)


MUTANTS = [
    # R1 weights / vertices
    _m("weights-left-right-swapped", "                right_weight * incr + left_weight * (1 - incr), axis=0\n",
       "                left_weight * incr + right_weight * (1 - incr), axis=0\n", "R1"),
    _m("adaptive-weight-divided-by-h-of-axis-0", "(x[i] - (self._pt[i, raveled_ind])) / self._h[i]", "(x[i] - (self._pt[i, raveled_ind])) / self._h[0]", "R1"),
    _m("dense-weight-divided-by-h-of-axis-0", "(x[i] - (self._pt_on_axes[i][base_ind[i]])) / self._h[i]", "(x[i] - (self._pt_on_axes[i][base_ind[i]])) / self._h[0]", "R1"),
    _m("mesh-size-inconsistent-with-linspace", "        self._h = (high - low) / (npt - 1)\n", "        self._h = (high - low) / npt\n", "R1"),
    _m("adaptive-left-weight", "        left_weight = 1 - right_weight\n\n        return right_weight, left_weight\n\n    def _find_base_vertex(self, coord: np.ndarray, safeguarding=False)",
       "        left_weight = 1 + right_weight\n\n        return right_weight, left_weight\n\n    def _find_base_vertex(self, coord: np.ndarray, safeguarding=False)", "R1"),
    _m("weight-sum-instead-of-product", "            weight = np.prod(\n                right_weight * incr", "            weight = np.sum(\n                right_weight * incr", "R1"),
    _m("adaptive-lookup-ignores-increment", "                base_ind + incr, self._table._coords\n", "                base_ind, self._table._coords\n", "R1"),
    _m("dense-vertex-minus-increment", "        vertex_ind = base_ind + incr\n", "        vertex_ind = base_ind - incr\n", "R1"),
    # R2 gradient
    _m("gradient-sign", "            weight_ind[axis] = 2 * incr[axis] - 1\n", "            weight_ind[axis] = 1 - 2 * incr[axis]\n", "R2"),
    _m("gradient-divided-by-h-of-axis-0", "        return values / self._h[axis]\n", "        return values / self._h[0]\n", "R2"),
    _m("gradient-not-divided", "        return values / self._h[axis]\n", "        return values\n", "R2"),
    _m("gradient-patches-axis-0", "            weight_ind[axis] = 2 * incr[axis] - 1\n", "            weight_ind[0] = 2 * incr[axis] - 1\n", "R2"),
    _m("gradient-keeps-interpolation-weight", "            weight_ind[axis] = 2 * incr[axis] - 1\n", "            weight_ind[axis] = weight_ind[axis] * (2 * incr[axis] - 1)\n", "R2"),
    # R3 dense layout
    _m("ravel-default-order", 'self._coord: list[np.ndarray] = [c.ravel("F") for c in coord_table]', "self._coord: list[np.ndarray] = [c.ravel() for c in coord_table]", "R3"),
    _m("meshgrid-default-indexing", 'coord_table = np.meshgrid(*self._pt_on_axes, indexing="ij")', "coord_table = np.meshgrid(*self._pt_on_axes)", "R3"),
    _m("strides-shifted-by-one-axis", "np.cumprod(tmp)[: self._param_dim]", "np.cumprod(tmp)[1 : self._param_dim + 1]", "R3"),
    _m("strides-without-leading-one", "        tmp = np.hstack((1, self._npt))\n", "        tmp = np.hstack((self._npt, 1))\n", "R3"),
    _m("fill-column-off-by-one", "            self._table_values[:, i] = function(*c)\n", "            self._table_values[:, i - 1] = function(*c)\n", "R3"),
    # R4 index/coordinate pair and adaptive wiring
    _m("adaptive-search-forgets-origin", "            floored_ind = ((x_i - base_i) // h_i).astype(int)\n", "            floored_ind = (x_i // h_i).astype(int)\n", "R4"),
    _m("adaptive-node-coordinates-forget-origin", "        coord = self._base_point + self._h * unique_ind\n", "        coord = self._h * unique_ind\n", "R4"),
    _m("dense-search-forgets-origin", "            ind.append(np.minimum(((x_i - low_i) // h_i).astype(int), npt_i - 2))\n",
       "            ind.append(np.minimum((x_i // h_i).astype(int), npt_i - 2))\n", "R4"),
    _m("gradient-override-does-not-fill", "        if self._function is not None:\n            self._fill_values(x)\n\n        # Use standard method for differentiation.",
       "        # Use standard method for differentiation.", "R4"),
    _m("assign-values-ignores-permutation", "        self._pt = np.hstack((self._pt, coord[:, column_permutation]))\n", "        self._pt = np.hstack((self._pt, coord))\n", "R4"),
    _m("function-evaluated-at-indices", "[self._function(*coord[:, i]) for i in indices_to_compute]", "[self._function(*unique_ind[:, i]) for i in indices_to_compute]", "R4"),
    _m("filter-only-coordinates", "            unique_ind = unique_ind[:, np.logical_not(exists)]\n", "", "R4"),
    _m("keys-for-all-values-for-new", "self._table.add([unique_ind[:, i] for i in indices_to_compute], new_values)",
       "self._table.add([unique_ind[:, i] for i in range(unique_ind.shape[1])], new_values)", "R4"),
    _m("requested-vertices-only-base", "            return np.asarray(base_ind + incr)\n", "            return np.asarray(base_ind)\n", "R4"),
    _m("gradient-delegates-to-interpolate", "        return super().gradient(x, axis)\n", "        return super().interpolate(x)\n", "R4"),
    # R6 closed box
    _m("revert-fix-base-index-clamp", "            ind.append(np.minimum(((x_i - low_i) // h_i).astype(int), npt_i - 2))\n",
       "            ind.append(((x_i - low_i) // h_i).astype(int))\n", "R6", control=True),
    _m("base-index-clamp-off-by-one", "            ind.append(np.minimum(((x_i - low_i) // h_i).astype(int), npt_i - 2))\n",
       "            ind.append(np.minimum(((x_i - low_i) // h_i).astype(int), npt_i - 1))\n", "R6"),
    _m("seed-cell-index-by-truncation", "            floored_ind = ((x_i - base_i) // h_i).astype(int)\n",
       "            exact_ = (x_i - base_i) / h_i\n            floored_ind = exact_.astype(int)\n", "R4"),
    _m("seed-assign-values-additive", "self._table.add(ind_list, val, additive=False)", "self._table.add(ind_list, val, additive=True)", "R4"),
    # R5
    _m("revert-fix-default-base-point-uses-dim", "            base_point = np.zeros(dx.size)\n", "            base_point = np.zeros(dim)\n", "R5", control=True),
    _m("default-base-point-self-dim", "            base_point = np.zeros(dx.size)\n", "            base_point = np.zeros(self.dim)\n", "R5"),
]
