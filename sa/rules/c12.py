"""C12 - TPFA is symmetric, conservative, and exact on K-orthogonal grids: identities of the EXTRACTED assembly.

Tpfa.discretize is a straight-line numpy/scipy program over the half-face triple (face, cell, sign) of
sd.cell_faces.  Its syntax tree is abstractly interpreted (nothing of porepy is imported or run; the rule's own
interpreter walks the AST) on a MODEL MESH: the incidence pattern of a 2 x 2 Cartesian grid - 4 cells, 12 faces,
16 half-faces, all three sizes different, every face class present (interior; Dirichlet / Neumann / internal
(fracture) boundary faces of both orientations) - with a fully SYMBOLIC geometry (normals, face and cell centres),
a symbolic symmetric tensor per cell and symbolic data.  The stored matrices are therefore sympy terms, valid for
every geometry and tensor on that incidence pattern; sympy only normalises the extracted terms.  The clauses are
stated on the matrices stored under the keys of FVElliptic, never on local names or statement positions.

R1  well-formed assembly   interpreting the assembly on the model mesh raises no index / shape error (a cell-indexed
                           array gathered with face indices, a bincount keyed by the wrong index, rows/cols of a
                           coo matrix of different length ...) and every matrix is stored under its key with the
                           shape its readers expect.
R2  two-point consistency  under local K-orthogonality (K n_out = alpha d on each half-face, alpha > 0) the flux
                           entries of an interior face are  sign * a1 a2 / (a1 + a2)  (half transmissibility
                           n.K.d/|d|^2 and its harmonic mean; the Aavatsmark variant |nK|/|d| is checked the same
                           way), those of a Dirichlet face are sign * alpha with bound_flux = -sign * alpha.
                           Two sub-families that are literally in the property: constant symmetric K (linear
                           exactness) and heterogeneous diagonal K with axis-aligned normals (agreement with MPFA
                           on Cartesian grids, M-matrix signs).
R3  conservation           for the unconstrained symbolic mesh: an interior-face row of `flux` has exactly the two
                           neighbour cells, entries summing to zero; a boundary row only its cell; div @ flux
                           (div = cell_faces^T of the model) is symmetric; bound_flux is diagonal and supported on
                           boundary faces.
R4  constant state         a constant pressure with matching Dirichlet data gives zero flux on EVERY face (interior:
                           row sum; Dirichlet: flux row + bound_flux entry cancel); Neumann and internal-boundary
                           faces have a zero flux row and bound_flux = sign of the face in cell_faces.
R5  pressure trace         bound_pressure_cell / bound_pressure_face reproduce the constant state on the boundary;
                           on a Neumann face the face coefficient is -1 / t with t the transmissibility BEFORE the
                           Neumann rows were zeroed (a dropped copy gives 1/0), = -1/alpha under K-orthogonality.
R6  vector source          hydrostatic state p = c + G.x with vector source G: zero flux on every face and the
                           reconstructed boundary pressure is c + G.x_face (sign, face-to-cell vector, and the
                           cell-major nd-expansion of rows/columns agree).  This clause concerns the vector_source
                           matrices of the same function; it is the linear-exactness clause in the presence of gravity.
R7  periodic pairs         (only while the deprecated periodic_face_map branch exists) a periodic pair of faces acts as
                           one interior face: left cell coupled to the right face's cell with negated sign, one
                           transmissibility (harmonic mean over the pair), zero row sums.

Not decided: anything about a concrete grid (floating point, degenerate geometry, t <= 0 on bad grids), the M-matrix
property off K-orthogonal grids, agreement with the MPFA *code*, linear exactness as a run-time fact, incidence
patterns other than the model's (the assembly is local per half-face and the model contains every face class, but
generality over topologies is an argument, not a verdict), Robin faces (not supported by Tpfa).
"""
from __future__ import annotations

import ast
from typing import Optional

import numpy as np
import sympy as sp

from ..core.astutil import u, dotted, methods, body_nodoc
from ..core.loader import AnchorError, Undecided
from ..core.report import Ctx

TPFA = "src/porepy/numerics/fv/tpfa.py"
FVE = "src/porepy/numerics/fv/fv_elliptic.py"
CONSTS = "src/porepy/utils/common_constants.py"


# ======================================================================================================
# values of the abstract interpreter
# ======================================================================================================

class Unknown:
    """a value the interpreter does not model (data-dependent choice); it poisons what it flows into"""

    def __init__(self, why: str = ""):
        self.why = why

    def __repr__(self):
        return f"Unknown({self.why})"


class ModelCrash(Exception):
    """the interpreted code raises an index / shape error on the model mesh (numpy itself raised it on arrays of the
    real shapes): a positively recognised wrong form, reported as a finding"""

    def __init__(self, msg: str, node: Optional[ast.AST] = None, where: str = ""):
        super().__init__(msg)
        self.msg, self.node, self.where = msg, node, where


class _Return(Exception):
    def __init__(self, value):
        self.value = value


class Obj:
    """a model object: attributes + methods implemented by the model (grid, tensor, boundary condition, dataclass)"""

    def __init__(self, kind: str, attrs: Optional[dict] = None, meths: Optional[dict] = None):
        self.kind, self.attrs, self.meths = kind, dict(attrs or {}), dict(meths or {})

    def __repr__(self):
        return f"<{self.kind}>"


class Closure:
    def __init__(self, fn: ast.FunctionDef, env: dict, interp: "Interp"):
        self.fn, self.env, self.interp = fn, env, interp


def oarr(seq, shape=None) -> np.ndarray:
    """object array of sympy terms"""
    seq = list(seq)
    out = np.empty(len(seq), dtype=object)
    for i, v in enumerate(seq):
        out[i] = sp.sympify(v)
    return out.reshape(shape) if shape is not None else out


def _symb(a: np.ndarray) -> np.ndarray:
    """numeric array -> object array of sympy numbers (bool arrays are left alone)"""
    if a.dtype == object:
        return a
    out = np.empty(a.shape, dtype=object)
    flat = out.reshape(-1)
    for i, v in enumerate(a.reshape(-1)):
        flat[i] = sp.Integer(int(v)) if float(v).is_integer() else sp.nsimplify(float(v), rational=True)
    return out


def _sym_scalar(v):
    if isinstance(v, (bool, np.bool_)):
        return v
    if isinstance(v, (int, np.integer)):
        return sp.Integer(int(v))
    if isinstance(v, (float, np.floating)):
        return sp.nsimplify(float(v), rational=True)
    return v


# ------------------------------------------------------------------------------------------------------
# sparse matrices: compressed / coordinate / diagonal storage with explicit entries, as scipy keeps them
# ------------------------------------------------------------------------------------------------------

class SpM:
    """model of a scipy sparse matrix.  fmt csr/csc: (data, indices, indptr); coo: (row, col, data), duplicates allowed;
    dia: main diagonal only.  Explicit zeros are kept exactly where scipy keeps them (dia -> other formats drops them)."""

    def __init__(self, shape, fmt, **kw):
        self.shape = (int(shape[0]), int(shape[1]))
        self.fmt = fmt
        if fmt in ("csr", "csc"):
            self.data, self.indices, self.indptr = kw["data"], np.asarray(kw["indices"], dtype=int), np.asarray(kw["indptr"], dtype=int)
        elif fmt == "coo":
            self.row, self.col, self.data = np.asarray(kw["row"], dtype=int), np.asarray(kw["col"], dtype=int), kw["data"]
        elif fmt == "dia":
            self.diag = kw["diag"]
        else:
            raise Undecided(f"sparse format {fmt}")

    # ---- construction
    @staticmethod
    def from_entries(shape, fmt, ents, sum_dups=True) -> "SpM":
        """ents: list of (i, j, v) in storage order"""
        m, n = int(shape[0]), int(shape[1])
        for i, j, _ in ents:
            if not (0 <= i < m and 0 <= j < n):
                raise ModelCrash(f"sparse matrix of shape {(m, n)} receives an entry at ({i}, {j})")
        if fmt == "coo":
            return SpM(shape, "coo", row=[e[0] for e in ents], col=[e[1] for e in ents], data=oarr([e[2] for e in ents]))
        if fmt == "dia":
            d = [sp.Integer(0)] * min(m, n)
            for i, j, v in ents:
                if i != j:
                    raise Undecided("dia matrix with an off-diagonal entry")
                d[i] = d[i] + v
            return SpM(shape, "dia", diag=oarr(d))
        acc: dict = {}
        order = []
        for i, j, v in ents:
            k = (i, j)
            if k in acc:
                if not sum_dups:
                    raise Undecided("duplicate entries in compressed storage")
                acc[k] = acc[k] + v
            else:
                acc[k] = v
                order.append(k)
        major = (lambda k: (k[0], k[1])) if fmt == "csr" else (lambda k: (k[1], k[0]))
        keys = sorted(order, key=major)
        nmaj = m if fmt == "csr" else n
        indptr = np.zeros(nmaj + 1, dtype=int)
        for k in keys:
            indptr[(k[0] if fmt == "csr" else k[1]) + 1] += 1
        indptr = np.cumsum(indptr)
        return SpM(shape, fmt, data=oarr([acc[k] for k in keys]), indices=[(k[1] if fmt == "csr" else k[0]) for k in keys], indptr=indptr)

    def entries(self) -> list:
        """(i, j, v) in storage order (explicit zeros included, except for dia where zeros are not entries)"""
        if self.fmt == "coo":
            return [(int(i), int(j), v) for i, j, v in zip(self.row, self.col, self.data)]
        if self.fmt == "dia":
            return [(i, i, v) for i, v in enumerate(self.diag) if not (v == 0)]
        out = []
        for a in range(len(self.indptr) - 1):
            for p in range(self.indptr[a], self.indptr[a + 1]):
                b = int(self.indices[p])
                out.append((a, b, self.data[p]) if self.fmt == "csr" else (b, a, self.data[p]))
        return out

    def to(self, fmt: str) -> "SpM":
        if fmt == self.fmt:
            return self.copy()
        return SpM.from_entries(self.shape, fmt, self.entries(), sum_dups=True)

    def copy(self) -> "SpM":
        if self.fmt == "coo":
            return SpM(self.shape, "coo", row=self.row.copy(), col=self.col.copy(), data=self.data.copy())
        if self.fmt == "dia":
            return SpM(self.shape, "dia", diag=self.diag.copy())
        return SpM(self.shape, self.fmt, data=self.data.copy(), indices=self.indices.copy(), indptr=self.indptr.copy())

    def todict(self) -> dict:
        d: dict = {}
        for i, j, v in self.entries():
            d[(i, j)] = d.get((i, j), sp.Integer(0)) + v
        return d

    # ---- algebra
    def transpose(self) -> "SpM":
        if self.fmt == "coo":
            return SpM(self.shape[::-1], "coo", row=self.col.copy(), col=self.row.copy(), data=self.data.copy())
        if self.fmt == "dia":
            return SpM(self.shape[::-1], "dia", diag=self.diag.copy())
        return SpM(self.shape[::-1], "csc" if self.fmt == "csr" else "csr", data=self.data.copy(), indices=self.indices.copy(), indptr=self.indptr.copy())

    def _rows(self) -> dict:
        r: dict = {}
        for i, j, v in self.to("csr").entries() if self.fmt != "csr" else self.entries():
            r.setdefault(i, []).append((j, v))
        return r

    def matmul(self, other):
        if isinstance(other, SpM):
            if self.shape[1] != other.shape[0]:
                raise ModelCrash(f"matrix product of shapes {self.shape} and {other.shape}")
            rb = other._rows()
            acc: dict = {}
            order = []
            for i, k, a in (self.to("csr").entries() if self.fmt != "csr" else self.entries()):
                for j, b in rb.get(k, ()):
                    if (i, j) in acc:
                        acc[(i, j)] = acc[(i, j)] + a * b
                    else:
                        acc[(i, j)] = a * b
                        order.append((i, j))
            return SpM.from_entries((self.shape[0], other.shape[1]), "csr", [(i, j, acc[(i, j)]) for i, j in order])
        if isinstance(other, np.ndarray):
            if other.ndim != 1 or other.shape[0] != self.shape[1]:
                raise ModelCrash(f"matrix-vector product of shapes {self.shape} and {other.shape}")
            out = [sp.Integer(0)] * self.shape[0]
            for i, j, v in self.entries():
                out[i] = out[i] + v * other[j]
            return oarr(out)
        raise Undecided("sparse matrix multiplied with an unmodelled value")

    def add(self, other: "SpM", sign=1) -> "SpM":
        if self.shape != other.shape:
            raise ModelCrash(f"sum of sparse matrices of shapes {self.shape} and {other.shape}")
        ents = list(self.to("csr").entries()) + [(i, j, sign * v) for i, j, v in other.to("csr").entries()]
        return SpM.from_entries(self.shape, "csr", ents)

    def scale(self, c) -> "SpM":
        r = self.copy()
        if r.fmt == "dia":
            r.diag = r.diag * c
        else:
            r.data = r.data * c
        return r

    def diagonal(self) -> np.ndarray:
        d = [sp.Integer(0)] * min(self.shape)
        for i, j, v in self.entries():
            if i == j:
                d[i] = d[i] + v
        return oarr(d)

    def take_rows(self, idx) -> "SpM":
        idx = [int(i) for i in idx]
        for i in idx:
            if not (-self.shape[0] <= i < self.shape[0]):
                raise ModelCrash(f"row index {i} out of range for a sparse matrix with {self.shape[0]} rows")
        rows = self._rows()
        ents = [(new, j, v) for new, old in enumerate(idx) for j, v in rows.get(old % self.shape[0], ())]
        fmt = self.fmt if self.fmt in ("csr", "csc") else "csr"
        return SpM.from_entries((len(idx), self.shape[1]), fmt, ents)

    def take_cols(self, idx) -> "SpM":
        return self.transpose().take_rows(idx).transpose()

    def find(self):
        c = self.to("csr")          # canonical C-order, duplicates summed (scipy >= 1.13: coo.sum_duplicates sorts rows, then cols)
        ents = [(i, j, v) for i, j, v in c.entries() if not (v == 0)]
        return (np.array([e[0] for e in ents], dtype=int), np.array([e[1] for e in ents], dtype=int), oarr([e[2] for e in ents]))


def kron(a: SpM, b: SpM, fmt: Optional[str]) -> SpM:
    ea, eb = a.to("coo").entries(), b.to("coo").entries()
    mb, nb = b.shape
    ents = [(i * mb + k, j * nb + l, v * w) for i, j, v in ea for k, l, w in eb]
    return SpM.from_entries((a.shape[0] * mb, a.shape[1] * nb), fmt or "coo", ents)


# ======================================================================================================
# the model mesh
# ======================================================================================================

class Mesh:
    """incidence pattern of a small Cartesian grid with symbolic geometry.  half = [(face, cell, sign)] in the storage
    order of a csc cell_faces matrix (cell by cell, faces ascending) - the order sparse_array_to_row_col_data returns."""

    def __init__(self, dim: int, shape: tuple):
        self.dim = dim
        dims = list(shape) + [1] * (3 - len(shape))
        nx, ny, nz = dims
        self.nc = nx * ny * nz
        cell = lambda i, j, k: (k * ny + j) * nx + i
        trip = []
        face_axis: list = []
        nf = 0
        for axis in range(dim):
            ext = [nx, ny, nz]
            ext[axis] += 1
            for k in range(ext[2]):
                for j in range(ext[1]):
                    for i in range(ext[0]):
                        pos = [i, j, k]
                        lo = list(pos)
                        lo[axis] -= 1
                        if pos[axis] > 0:
                            trip.append((nf, cell(*lo), 1))
                        if pos[axis] < dims[axis]:
                            trip.append((nf, cell(*pos), -1))
                        face_axis.append(axis)
                        nf += 1
        self.nf = nf
        self.face_axis = face_axis      # model assumption used only for data-dependent choices: |N[face_axis[f], f]| is the largest component of N[:, f]
        self.half = sorted(trip, key=lambda t: (t[1], t[0]))
        self.cells_of = {f: [(c, s) for f2, c, s in self.half if f2 == f] for f in range(nf)}
        self.boundary = [f for f in range(nf) if len(self.cells_of[f]) == 1]
        self.interior = [f for f in range(nf) if len(self.cells_of[f]) == 2]
        real: dict = {}
        self.N = oarr([sp.Symbol(f"N{i}_{f}", **real) for i in range(3) for f in range(nf)], (3, nf))
        self.XF = oarr([sp.Symbol(f"XF{i}_{f}", **real) for i in range(3) for f in range(nf)], (3, nf))
        self.XC = oarr([sp.Symbol(f"XC{i}_{c}", **real) for i in range(3) for c in range(self.nc)], (3, self.nc))
        self.A = oarr([sp.Symbol(f"A_{f}", positive=True) for f in range(nf)])
        self.V = oarr([sp.Symbol(f"V_{c}", positive=True) for c in range(self.nc)])
        self.K = np.empty((3, 3, self.nc), dtype=object)
        for c in range(self.nc):
            for i in range(3):
                for j in range(3):
                    a, b = min(i, j), max(i, j)
                    self.K[i, j, c] = sp.Symbol(f"K{a}{b}_{c}")

    def cell_faces(self) -> SpM:
        return SpM.from_entries((self.nf, self.nc), "csc", [(f, c, sp.Integer(s)) for f, c, s in self.half])

    def dominant_axis_oracle(self, fname: str, x: np.ndarray, axis):
        """argmax over the components of |face normals|: decided by the model assumption `face_axis` (each face of the Cartesian
        pattern is closest to its own coordinate axis); anything else stays undecided"""
        if fname != "argmax" or axis != 0 or x.ndim != 2 or x.shape[1] != self.nf or x.shape[0] > 3:
            return None
        for f in range(self.nf):
            for i in range(x.shape[0]):
                if x[i, f] != sp.Abs(self.N[i, f]):
                    return None
        if any(a_ >= x.shape[0] for a_ in self.face_axis):
            return None
        return np.array(self.face_axis, dtype=int)

    def grid(self, fracture=(), periodic=None) -> Obj:
        """the object playing the role of `sd`"""
        tags = {"fracture_faces": np.array([f in fracture for f in range(self.nf)]),
                "tip_faces": np.zeros(self.nf, dtype=bool),
                "domain_boundary_faces": np.array([f in self.boundary and f not in fracture for f in range(self.nf)])}
        if periodic is not None:
            for f in np.asarray(periodic).ravel():
                tags["domain_boundary_faces"][int(f)] = False
        allb = np.array([f for f in range(self.nf) if any(tags[t][f] for t in tags)], dtype=int)

        def signs_and_cells(faces):
            faces = np.asarray(faces, dtype=int)
            for f in faces:
                if len(self.cells_of[int(f)]) != 1:
                    raise Undecided("signs_and_cells_of_boundary_faces called with an interior face")
            return (oarr([self.cells_of[int(f)][0][1] for f in faces]), np.array([self.cells_of[int(f)][0][0] for f in faces], dtype=int))

        attrs = dict(dim=self.dim, num_cells=self.nc, num_faces=self.nf, cell_faces=self.cell_faces(), face_normals=self.N.copy(),
                     face_centers=self.XF.copy(), cell_centers=self.XC.copy(), face_areas=self.A.copy(), cell_volumes=self.V.copy(), tags=tags)
        if periodic is not None:
            attrs["periodic_face_map"] = np.asarray(periodic, dtype=int)
        meths = dict(get_all_boundary_faces=lambda: allb.copy(),
                     get_boundary_faces=lambda: np.array([f for f in range(self.nf) if tags["domain_boundary_faces"][f]], dtype=int),
                     get_internal_faces=lambda: np.array([f for f in range(self.nf) if f not in set(allb.tolist())], dtype=int),
                     signs_and_cells_of_boundary_faces=signs_and_cells)
        return Obj("grid", attrs, meths)


# ======================================================================================================
# the interpreter
# ======================================================================================================

def _is_num(v) -> bool:
    return isinstance(v, (int, sp.Expr, np.integer)) and not isinstance(v, (bool, np.bool_))


def _as_int(v, what="value") -> int:
    if isinstance(v, (bool, np.bool_)):
        return int(v)
    if isinstance(v, (int, np.integer)):
        return int(v)
    if isinstance(v, sp.Integer):
        return int(v)
    if isinstance(v, sp.Expr) and v.is_Integer:
        return int(v)
    raise Undecided(f"{what} is not a concrete integer: {v!r}")


def _as_bool(v, what="condition") -> bool:
    if isinstance(v, (bool, np.bool_)):
        return bool(v)
    if v is sp.true or v is sp.false:
        return bool(v)
    if isinstance(v, (int, np.integer, sp.Integer)):
        return bool(int(v))
    if isinstance(v, np.ndarray) and v.size == 1:
        return _as_bool(v.reshape(-1)[0], what)
    if v is None:
        return False
    if isinstance(v, (list, tuple, dict, str)):
        return bool(v)
    raise Undecided(f"{what} does not have a truth value that is known on the model mesh ({type(v).__name__})")


def _dtype_kind(t) -> Optional[str]:
    if t is None:
        return None
    if t in (int, "int", "i8", "i4") or (isinstance(t, str) and t.startswith("int")):
        return "int"
    if t in (bool, "bool"):
        return "bool"
    if t in (float, "float", "f8") or (isinstance(t, str) and t.startswith("float")):
        return "float"
    if t is object:
        return "float"
    raise Undecided(f"dtype {t!r}")


CRASH_WORDS = ("broadcast", "shape", "mismatch", "out of bounds", "out of range", "too many indices", "same length", "dimension")


class World:
    """what the interpreter resolves names against: the analysed module, the class, literal attributes of self"""

    def __init__(self, repo, rel: str, clsname: Optional[str], base_inits=()):
        self.repo, self.rel = repo, rel
        self.mod = repo.module(rel)
        self.cls = self.mod.cls(clsname) if clsname else None
        self.clsname = clsname
        self.toplevel = {n.name: n for n in self.mod.tree.body if isinstance(n, (ast.FunctionDef, ast.ClassDef))}
        self.consts: dict = {}
        try:
            cm = repo.module(CONSTS)
            for st in cm.tree.body:
                if isinstance(st, (ast.Assign, ast.AnnAssign)) and isinstance(getattr(st, "value", None), ast.Constant):
                    tg = st.targets[0] if isinstance(st, ast.Assign) else st.target
                    if isinstance(tg, ast.Name):
                        self.consts[tg.id] = st.value.value
        except AnchorError:
            pass
        # literal attributes assigned in __init__ (own class first, then the listed bases)
        self.selfattrs: dict = {}
        inits = []
        if self.cls is not None and "__init__" in methods(self.cls):
            inits.append(methods(self.cls)["__init__"])
        for brel, bname in base_inits:
            bc = repo.module(brel).cls(bname)
            if "__init__" in methods(bc):
                inits.append(methods(bc)["__init__"])
        for init in reversed(inits):
            for st in ast.walk(init):
                tg = val = None
                if isinstance(st, ast.Assign) and len(st.targets) == 1:
                    tg, val = st.targets[0], st.value
                elif isinstance(st, ast.AnnAssign) and st.value is not None:
                    tg, val = st.target, st.value
                if isinstance(tg, ast.Attribute) and isinstance(tg.value, ast.Name) and tg.value.id == "self" and isinstance(val, ast.Constant):
                    self.selfattrs[tg.attr] = val.value
        self.store_nodes: dict = {}
        self.oracle = None          # optional model knowledge for data-dependent choices: (function name, array, axis) -> value or None
        self.matdict: Optional[dict] = None
        self.steps = 0

    def method(self, name: str) -> Optional[ast.FunctionDef]:
        if self.cls is None:
            return None
        return methods(self.cls).get(name)


class Interp:
    MAXDEPTH = 6
    MAXSTEPS = 200000

    def __init__(self, world: World, env: Optional[dict] = None, depth: int = 0, where: str = ""):
        self.w, self.env, self.depth, self.where = world, dict(env or {}), depth, where

    # ---- errors ------------------------------------------------------------------------------------
    def und(self, msg: str, node: Optional[ast.AST] = None) -> Undecided:
        ln = getattr(node, "lineno", None)
        return Undecided(f"{self.w.rel}:{self.where}{':' + str(ln) if ln else ''}: {msg}")

    def nat(self, node, fn, *a, **k):
        """a native numpy operation on arrays of the real shapes: its index / shape errors are the code's own"""
        try:
            return fn(*a, **k)
        except IndexError as ex:
            raise ModelCrash(f"IndexError: {ex}", node, self.where)
        except ValueError as ex:
            if any(wd in str(ex) for wd in CRASH_WORDS):
                raise ModelCrash(f"ValueError: {ex}", node, self.where)
            raise self.und(f"numpy refused `{u(node)[:60]}`: {ex}", node)
        except (TypeError, AttributeError, ZeroDivisionError, OverflowError) as ex:
            raise self.und(f"`{u(node)[:60]}` is outside the modelled numpy subset: {type(ex).__name__}: {ex}", node)

    # ---- expressions -------------------------------------------------------------------------------
    def ev(self, e: ast.expr):
        self.w.steps += 1
        if self.w.steps > self.MAXSTEPS:
            raise self.und("interpretation budget exhausted", e)
        if isinstance(e, ast.Constant):
            v = e.value
            if isinstance(v, float):
                return sp.nsimplify(v, rational=True)
            return v
        if isinstance(e, ast.Name):
            if e.id in self.env:
                return self.env[e.id]
            if e.id in BUILTIN_VALUES:
                return BUILTIN_VALUES[e.id]
            if e.id in self.w.toplevel or e.id in MODULE_ROOTS or e.id in PRIMS or e.id in BUILTIN_FUNCS:
                return Unknown(f"name {e.id} used as a value")
            raise self.und(f"unknown name {e.id}", e)
        if isinstance(e, (ast.Tuple, ast.List)):
            vals = []
            for x in e.elts:
                if isinstance(x, ast.Starred):
                    vals.extend(self.seq(self.ev(x.value), x))
                else:
                    vals.append(self.ev(x))
            return tuple(vals) if isinstance(e, ast.Tuple) else vals
        if isinstance(e, ast.Dict):
            return {self.ev(k): self.ev(v) for k, v in zip(e.keys, e.values)}
        if isinstance(e, ast.UnaryOp):
            v = self.ev(e.operand)
            if isinstance(v, Unknown):
                return v
            if isinstance(e.op, ast.Not):
                return not _as_bool(v)
            if isinstance(e.op, ast.USub):
                if isinstance(v, SpM):
                    return v.scale(-1)
                if isinstance(v, np.ndarray):
                    return self.nat(e, np.negative, _symb(v) if v.dtype == bool else v)
                return -v
            if isinstance(e.op, ast.UAdd):
                return v
            if isinstance(e.op, ast.Invert):
                if isinstance(v, np.ndarray) and v.dtype == bool:
                    return ~v
                if isinstance(v, (bool, np.bool_)):
                    return not v
                raise self.und(f"~ on {type(v).__name__}", e)
        if isinstance(e, ast.BoolOp):
            last = None
            for x in e.values:
                last = self.ev(x)
                if isinstance(last, Unknown):
                    return last
                b = _as_bool(last)
                if isinstance(e.op, ast.And) and not b:
                    return last
                if isinstance(e.op, ast.Or) and b:
                    return last
            return last
        if isinstance(e, ast.Compare):
            l = self.ev(e.left)
            res = True
            for op, c in zip(e.ops, e.comparators):
                r = self.ev(c)
                res = self.compare(op, l, r, e)
                if isinstance(res, Unknown):
                    return res
                if len(e.ops) > 1 and not _as_bool(res):
                    return False
                l = r
            return res
        if isinstance(e, ast.BinOp):
            return self.binop(e.op, self.ev(e.left), self.ev(e.right), e)
        if isinstance(e, ast.IfExp):
            t = self.ev(e.test)
            if isinstance(t, Unknown):
                raise self.und(f"conditional expression on an unmodelled value", e)
            return self.ev(e.body if _as_bool(t) else e.orelse)
        if isinstance(e, ast.Attribute):
            d = dotted(e)
            if d is not None:
                root = d.split(".")[0]
                if root not in self.env and root in MODULE_ROOTS:
                    return self.module_value(d, e)
            return self.getattr(self.ev(e.value), e.attr, e)
        if isinstance(e, ast.Subscript):
            return self.getitem(self.ev(e.value), self.index(e.slice), e)
        if isinstance(e, ast.Call):
            return self.call(e)
        if isinstance(e, (ast.ListComp, ast.GeneratorExp)):
            return self.comp(e)
        if isinstance(e, ast.JoinedStr):
            return Unknown("f-string")
        if isinstance(e, ast.Lambda):
            return Unknown("lambda")
        raise self.und(f"{type(e).__name__} `{u(e)[:60]}`", e)

    def module_value(self, d: str, e):
        parts = d.split(".")
        if parts[0] in ("np", "numpy"):
            if d.endswith(".newaxis"):
                return None
            if parts[-1] in ("int32", "int64", "int_", "intp"):
                return int
            if parts[-1] in ("float64", "float32", "float_", "double"):
                return float
            if parts[-1] == "bool_":
                return bool
            if parts[-1] == "pi":
                return sp.pi
            if parts[-1] == "inf":
                return sp.oo
        if parts[0] == "pp" and len(parts) == 2 and parts[1] in self.w.consts:
            return self.w.consts[parts[1]]
        return Unknown(d)

    def comp(self, e):
        if len(e.generators) != 1:
            raise self.und("nested comprehension", e)
        g = e.generators[0]
        out = []
        for v in self.seq(self.ev(g.iter), g.iter):
            sub = Interp(self.w, self.env, self.depth, self.where)
            sub.bind(g.target, v)
            if all(_as_bool(sub.ev(c)) for c in g.ifs):
                out.append(sub.ev(e.elt))
        return out

    # ---- operators ---------------------------------------------------------------------------------
    def binop(self, op, l, r, e):
        if isinstance(l, Unknown):
            return l
        if isinstance(r, Unknown):
            return r
        if isinstance(l, float):
            l = sp.nsimplify(l, rational=True)
        if isinstance(r, float):
            r = sp.nsimplify(r, rational=True)
        if isinstance(l, SpM) or isinstance(r, SpM):
            return self.sp_binop(op, l, r, e)
        if isinstance(l, (list, tuple)) and isinstance(r, (list, tuple)) and isinstance(op, ast.Add):
            return l + r
        if isinstance(l, (list, tuple)) and isinstance(op, ast.Mult) and isinstance(r, int):
            return l * r
        if isinstance(l, str) or isinstance(r, str):
            return Unknown("string arithmetic")
        arr = isinstance(l, np.ndarray) or isinstance(r, np.ndarray)
        if not arr:
            if l is None or r is None or isinstance(l, (Obj, dict)) or isinstance(r, (Obj, dict)):
                raise self.und(f"arithmetic on {type(l).__name__} and {type(r).__name__}", e)
            pyint = isinstance(l, (int, np.integer)) and isinstance(r, (int, np.integer)) and not isinstance(l, bool) and not isinstance(r, bool)
            if isinstance(l, (bool, np.bool_)):
                l = int(l)
            if isinstance(r, (bool, np.bool_)):
                r = int(r)
            try:
                if isinstance(op, ast.Add):
                    return l + r
                if isinstance(op, ast.Sub):
                    return l - r
                if isinstance(op, ast.Mult):
                    return l * r
                if isinstance(op, ast.Div):
                    return sp.Rational(int(l), int(r)) if pyint and r != 0 else sp.sympify(l) / sp.sympify(r)
                if isinstance(op, ast.FloorDiv) and pyint:
                    return int(l) // int(r)
                if isinstance(op, ast.Mod) and pyint:
                    return int(l) % int(r)
                if isinstance(op, ast.Pow):
                    return int(l) ** int(r) if pyint and r >= 0 else sp.sympify(l) ** sp.sympify(r)
            except (TypeError, ZeroDivisionError) as ex:
                raise self.und(f"`{u(e)[:60]}`: {ex}", e)
            raise self.und(f"operator {type(op).__name__} on scalars", e)
        # arrays
        def prep(v, for_div=False):
            if isinstance(v, np.ndarray):
                if v.dtype == bool and not isinstance(op, (ast.BitAnd, ast.BitOr, ast.BitXor)):
                    return v.astype(int)
                if for_div and v.dtype != object:
                    return _symb(v)
                return v
            if isinstance(v, (bool, np.bool_)):
                return int(v)
            if isinstance(v, (list, tuple)):
                return self.np_array(v, None, e)
            return v
        if isinstance(op, ast.Div):
            a, b = prep(l, True), prep(r, True)
            if not isinstance(a, np.ndarray):
                a = sp.sympify(a)
            if not isinstance(b, np.ndarray):
                b = sp.sympify(b)
            return self.nat(e, np.true_divide, a, b)
        a, b = prep(l), prep(r)
        fn = {ast.Add: np.add, ast.Sub: np.subtract, ast.Mult: np.multiply, ast.Pow: np.power, ast.FloorDiv: np.floor_divide,
              ast.Mod: np.mod, ast.BitAnd: np.logical_and, ast.BitOr: np.logical_or, ast.BitXor: np.logical_xor}.get(type(op))
        if isinstance(op, ast.MatMult):
            return self.nat(e, np.dot, _symb(a) if isinstance(a, np.ndarray) else a, _symb(b) if isinstance(b, np.ndarray) else b)
        if fn is None:
            raise self.und(f"operator {type(op).__name__} on arrays", e)
        if isinstance(op, ast.Pow):
            a = _symb(a) if isinstance(a, np.ndarray) else sp.sympify(a)
        return self.nat(e, fn, a, b)

    def sp_binop(self, op, l, r, e):
        if isinstance(op, ast.MatMult):
            if isinstance(l, SpM):
                return l.matmul(_symb(r) if isinstance(r, np.ndarray) else r)
            if isinstance(l, np.ndarray) and l.ndim == 1:
                return r.transpose().matmul(_symb(l))
            raise self.und("matrix product with a sparse right operand", e)
        if isinstance(op, (ast.Add, ast.Sub)) and isinstance(l, SpM) and isinstance(r, SpM):
            return l.add(r, 1 if isinstance(op, ast.Add) else -1)
        if isinstance(op, ast.Mult):
            if isinstance(l, SpM) and isinstance(r, SpM):
                raise self.und("`*` between two sparse matrices (matrix vs array semantics)", e)
            m, c = (l, r) if isinstance(l, SpM) else (r, l)
            if _is_num(c):
                return m.scale(sp.sympify(c))
        if isinstance(op, ast.Div) and isinstance(l, SpM) and _is_num(r):
            return l.scale(1 / sp.sympify(r))
        raise self.und(f"operator {type(op).__name__} with a sparse matrix: `{u(e)[:60]}`", e)

    def compare(self, op, l, r, e):
        if isinstance(op, (ast.Is, ast.IsNot)):
            res = l is r or (l is None and r is None)
            if not (l is None or r is None or isinstance(l, bool) or isinstance(r, bool)):
                return Unknown("identity test")
            return res if isinstance(op, ast.Is) else not res
        if isinstance(l, Unknown):
            return l
        if isinstance(r, Unknown):
            return r
        if isinstance(op, (ast.In, ast.NotIn)):
            if isinstance(r, (dict, list, tuple, str, set, frozenset)):
                res = l in r
                return res if isinstance(op, ast.In) else not res
            raise self.und("membership test on an unmodelled container", e)
        pyop = {ast.Eq: lambda a, b: a == b, ast.NotEq: lambda a, b: a != b, ast.Lt: lambda a, b: a < b, ast.LtE: lambda a, b: a <= b,
                ast.Gt: lambda a, b: a > b, ast.GtE: lambda a, b: a >= b}.get(type(op))
        if pyop is None:
            raise self.und(f"comparison {type(op).__name__}", e)

        def one(a, b):
            a = sp.sympify(a) if isinstance(a, (float, np.floating)) else a
            b = sp.sympify(b) if isinstance(b, (float, np.floating)) else b
            res_ = pyop(a, b)
            if isinstance(res_, (bool, np.bool_)):
                return bool(res_)
            if res_ is sp.true or res_ is sp.false:
                return bool(res_)
            return None

        if isinstance(l, np.ndarray) or isinstance(r, np.ndarray):
            la = l if isinstance(l, np.ndarray) else np.asarray(l, dtype=object)
            ra = r if isinstance(r, np.ndarray) else np.asarray(r, dtype=object)
            if la.dtype != object and ra.dtype != object:
                return self.nat(e, pyop, la, ra)
            out = self.nat(e, np.frompyfunc(one, 2, 1), la, ra)
            flat = np.asarray(out, dtype=object).reshape(-1)
            if any(v is None for v in flat):
                return Unknown("comparison of symbolic values")
            return np.asarray(out, dtype=object).astype(bool)
        if isinstance(l, (str, tuple, list, type(None))) or isinstance(r, (str, tuple, list, type(None))):
            return pyop(l, r) if isinstance(op, (ast.Eq, ast.NotEq)) else Unknown("ordering of non-numbers")
        res = one(l, r)
        return Unknown("comparison of symbolic values") if res is None else res

    # ---- attributes, subscripts ----------------------------------------------------------------------
    def getattr(self, base, attr: str, e):
        if isinstance(base, Unknown):
            return Unknown(f"{base.why}.{attr}")
        if isinstance(base, Obj):
            if attr in base.attrs:
                return base.attrs[attr]
            if base.kind == "self" and attr in self.w.selfattrs:
                return self.w.selfattrs[attr]
            if attr in base.meths:
                return Unknown(f"bound method {attr}")
            raise self.und(f"the model {base.kind} has no attribute `{attr}`", e)
        if isinstance(base, np.ndarray):
            if attr == "T":
                return base.T
            if attr == "size":
                return int(base.size)
            if attr == "shape":
                return tuple(int(s) for s in base.shape)
            if attr == "ndim":
                return int(base.ndim)
            if attr == "dtype":
                return Unknown("dtype")
        if isinstance(base, SpM):
            if attr == "shape":
                return base.shape
            if attr == "T":
                return base.transpose()
            if attr in ("data", "indices", "indptr") and base.fmt in ("csr", "csc"):
                return getattr(base, attr)
            if attr in ("data", "row", "col") and base.fmt == "coo":
                return getattr(base, attr)
            if attr == "data" and base.fmt == "dia":
                return base.diag.reshape(1, -1)
            if attr == "nnz":
                return len(base.entries())
            if attr == "format":
                return base.fmt
        raise self.und(f"attribute `{attr}` of {type(base).__name__}", e)

    def index(self, s: ast.expr):
        if isinstance(s, ast.Slice):
            def b(x):
                if x is None:
                    return None
                v = self.ev(x)
                return None if v is None else _as_int(v, "slice bound")
            return slice(b(s.lower), b(s.upper), b(s.step))
        if isinstance(s, ast.Tuple):
            return tuple(self.index(x) for x in s.elts)
        return self.ev(s)

    @staticmethod
    def _fix_index(i):
        if isinstance(i, sp.Integer):
            return int(i)
        if isinstance(i, list) and all(isinstance(t, (int, np.integer, sp.Integer)) for t in i):
            return [int(t) for t in i]
        if isinstance(i, np.ndarray) and i.dtype == object:
            try:
                return np.array([int(t) for t in i.reshape(-1)], dtype=int).reshape(i.shape)
            except (TypeError, ValueError):
                raise Undecided("array indexed with symbolic values")
        return i

    def getitem(self, base, idx, e):
        parts = idx if isinstance(idx, tuple) else (idx,)
        if isinstance(base, Unknown):
            return base
        if isinstance(base, dict):
            if isinstance(idx, Unknown):
                return idx
            try:
                return base[idx]
            except (KeyError, TypeError):
                raise self.und(f"key {idx!r} not in the model dictionary", e)
        if any(isinstance(p, Unknown) for p in parts):
            return Unknown("indexed with an unmodelled value")
        if isinstance(base, (list, tuple, str)):
            if isinstance(idx, (int, np.integer, sp.Integer)):
                try:
                    return base[int(idx)]
                except IndexError as ex:
                    raise ModelCrash(f"IndexError: {ex}", e, self.where)
            if isinstance(idx, slice):
                return base[idx]
            raise self.und(f"sequence indexed as `{u(e)[:50]}`", e)
        if isinstance(base, np.ndarray):
            fixed = tuple(self._fix_index(p) for p in parts)
            res = self.nat(e, lambda: base[fixed if isinstance(idx, tuple) else fixed[0]])
            if isinstance(res, np.integer):
                return int(res)
            if isinstance(res, np.bool_):
                return bool(res)
            return res
        if isinstance(base, SpM):
            rows = parts[0]
            cols = parts[1] if len(parts) > 1 else slice(None)
            full = lambda s: isinstance(s, slice) and s == slice(None)
            def ixs(s, n):
                if isinstance(s, slice):
                    return list(range(*s.indices(n)))
                s = self._fix_index(s)
                if isinstance(s, np.ndarray) and s.dtype == bool:
                    if s.shape != (n,):
                        raise ModelCrash(f"boolean index of length {s.shape} on a sparse axis of length {n}", e, self.where)
                    return list(np.nonzero(s)[0])
                if isinstance(s, (np.ndarray, list)):
                    return [int(t) for t in np.asarray(s).reshape(-1)]
                raise self.und(f"sparse matrix indexed as `{u(e)[:50]}`", e)
            out = base
            if not full(rows):
                out = out.take_rows(ixs(rows, base.shape[0]))
            if not full(cols):
                out = out.take_cols(ixs(cols, base.shape[1]))
            return out if out is not base else base.copy()
        raise self.und(f"subscript of {type(base).__name__}: `{u(e)[:50]}`", e)

    def setitem(self, base, idx, val, e):
        if isinstance(base, dict):
            if isinstance(idx, Unknown):
                raise self.und("dictionary store under an unmodelled key", e)
            base[idx] = val
            if base is self.w.matdict:
                self.w.store_nodes[idx] = e
            return
        parts = idx if isinstance(idx, tuple) else (idx,)
        if isinstance(base, Unknown):
            return
        if isinstance(val, Unknown) or any(isinstance(p, Unknown) for p in parts):
            raise self.und(f"store of / under an unmodelled value into a modelled array: `{u(e)[:60]}`", e)
        if isinstance(base, list):
            base[_as_int(idx)] = val
            return
        if isinstance(base, np.ndarray):
            fixed = tuple(self._fix_index(p) for p in parts)
            key = fixed if isinstance(idx, tuple) else fixed[0]
            if base.dtype == object:
                if isinstance(val, np.ndarray):
                    val = _symb(val.astype(int) if val.dtype == bool else val)
                elif isinstance(val, (list, tuple)):
                    val = self.np_array(val, None, e)
                    val = _symb(val)
                else:
                    val = sp.sympify(_sym_scalar(val)) if not isinstance(val, (bool, np.bool_)) else sp.Integer(int(val))
            elif base.dtype == bool:
                if isinstance(val, np.ndarray) and val.dtype != bool:
                    raise self.und("non-boolean stored into a boolean array", e)
            else:
                if isinstance(val, sp.Expr):
                    val = _as_int(val, "value stored into an integer array")
                elif isinstance(val, np.ndarray) and val.dtype == object:
                    val = np.array([_as_int(t, "value stored into an integer array") for t in val.reshape(-1)], dtype=int).reshape(val.shape)

            def do():
                base[key] = val
            self.nat(e, do)
            return
        raise self.und(f"item assignment on {type(base).__name__}", e)

    # ---- sequences -----------------------------------------------------------------------------------
    def seq(self, v, e) -> list:
        if isinstance(v, np.ndarray):
            out = []
            for i in range(v.shape[0]):
                t = v[i]
                out.append(int(t) if isinstance(t, np.integer) else bool(t) if isinstance(t, np.bool_) else t)
            return out
        if isinstance(v, (list, tuple)):
            return list(v)
        if isinstance(v, range):
            return list(v)
        if isinstance(v, dict):
            return list(v.keys())
        raise self.und(f"iteration over {type(v).__name__}", e)

    def bind(self, target: ast.expr, value, e=None):
        if isinstance(target, ast.Name):
            self.env[target.id] = value
            return
        if isinstance(target, (ast.Tuple, ast.List)):
            if isinstance(value, Unknown):
                for t in target.elts:
                    self.bind(t.value if isinstance(t, ast.Starred) else t, value)
                return
            vals = self.seq(value, target)
            star = [i for i, t in enumerate(target.elts) if isinstance(t, ast.Starred)]
            if star:
                i = star[0]
                after = len(target.elts) - i - 1
                if len(vals) < len(target.elts) - 1:
                    raise self.und(f"cannot unpack {len(vals)} values into `{u(target)}`", target)
                for t, v in zip(target.elts[:i], vals[:i]):
                    self.bind(t, v)
                self.bind(target.elts[i].value, vals[i:len(vals) - after])
                for t, v in zip(target.elts[i + 1:], vals[len(vals) - after:]):
                    self.bind(t, v)
                return
            if len(vals) != len(target.elts):
                raise self.und(f"cannot unpack {len(vals)} values into `{u(target)}`", target)
            for t, v in zip(target.elts, vals):
                self.bind(t, v)
            return
        if isinstance(target, ast.Subscript):
            self.setitem(self.ev(target.value), self.index(target.slice), value, target)
            return
        if isinstance(target, ast.Attribute):
            base = self.ev(target.value)
            if isinstance(base, Obj):
                base.attrs[target.attr] = value
                return
            if isinstance(base, SpM) and target.attr == "data" and base.fmt != "dia":
                base.data = _symb(value) if isinstance(value, np.ndarray) else value
                return
            raise self.und(f"attribute store `{u(target)}`", target)
        raise self.und(f"assignment target `{u(target)[:50]}`", target)


    # ---- calls ---------------------------------------------------------------------------------------
    def args_of(self, e: ast.Call):
        args = []
        for a in e.args:
            if isinstance(a, ast.Starred):
                args.extend(self.seq(self.ev(a.value), a))
            else:
                args.append(self.ev(a))
        kw = {}
        for k in e.keywords:
            if k.arg is None:
                v = self.ev(k.value)
                if not isinstance(v, dict):
                    raise self.und("** of an unmodelled value", e)
                kw.update(v)
            else:
                kw[k.arg] = self.ev(k.value)
        return args, kw

    def call(self, e: ast.Call):
        f = e.func
        d = dotted(f)
        # ---- plain names
        if isinstance(f, ast.Name) and f.id not in self.env:
            nm = f.id
            if nm in BUILTIN_FUNCS:
                args, kw = self.args_of(e)
                return BUILTIN_FUNCS[nm](self, e, args, kw)
            if nm in PRIMS:
                args, kw = self.args_of(e)
                return PRIMS[nm](self, e, args, kw)
            top = self.w.toplevel.get(nm)
            if isinstance(top, ast.FunctionDef):
                args, kw = self.args_of(e)
                return self.invoke(top, args, kw, None, e)
            if isinstance(top, ast.ClassDef):
                args, kw = self.args_of(e)
                return self.construct(top, args, kw, e)
            raise self.und(f"call of unknown function {nm}", e)
        if isinstance(f, ast.Name):
            callee = self.env[f.id]
            args, kw = self.args_of(e)
            if isinstance(callee, Closure):
                return callee.interp.invoke(callee.fn, args, kw, None, e, closure_env=callee.env)
            if isinstance(callee, Unknown):
                return Unknown(f"call of {f.id}")
            raise self.und(f"call of local value {f.id}", e)
        if not isinstance(f, ast.Attribute):
            raise self.und(f"call `{u(e)[:60]}`", e)
        root = d.split(".")[0] if d else None
        # ---- module functions
        if root is not None and root not in self.env and root in MODULE_ROOTS:
            args, kw = self.args_of(e)
            return self.module_call(d, e, args, kw)
        # ---- class-level call  Cls.method(...)
        if root is not None and root not in self.env and root == self.w.clsname and len(d.split(".")) == 2:
            fn = self.w.method(f.attr)
            if fn is None:
                raise self.und(f"{d} is not a method of the analysed class", e)
            args, kw = self.args_of(e)
            static = any(u(dec) == "staticmethod" for dec in fn.decorator_list)
            return self.invoke(fn, args, kw, None if static else Unknown("cls"), e)
        # ---- `np.logical_or.reduce` style is a module call (handled above); everything else is a method of a value
        base = self.ev(f.value)
        args, kw = self.args_of(e)
        return self.method_call(base, f.attr, args, kw, e)

    def construct(self, cls: ast.ClassDef, args, kw, e):
        fields = [st.target.id for st in cls.body if isinstance(st, ast.AnnAssign) and isinstance(st.target, ast.Name)]
        is_dc = any("dataclass" in u(dec) for dec in cls.decorator_list)
        if not is_dc or "__init__" in methods(cls):
            raise self.und(f"construction of class {cls.name}", e)
        if len(args) > len(fields):
            raise self.und(f"too many arguments for dataclass {cls.name}", e)
        vals = dict(zip(fields, args))
        for k, v in kw.items():
            if k not in fields or k in vals:
                raise self.und(f"argument {k} of dataclass {cls.name}", e)
            vals[k] = v
        missing = [f_ for f_ in fields if f_ not in vals]
        if missing:
            raise self.und(f"dataclass {cls.name} constructed without {missing}", e)
        return Obj(cls.name, vals)

    def invoke(self, fn: ast.FunctionDef, args, kw, selfobj, e, closure_env: Optional[dict] = None):
        if self.depth >= self.MAXDEPTH:
            raise self.und("helper nesting too deep", e)
        a = fn.args
        if a.vararg or a.kwarg or a.posonlyargs:
            raise self.und(f"signature of {fn.name}", e)
        params = [p.arg for p in a.args]
        env: dict = dict(closure_env or {})
        if selfobj is not None:
            if not params:
                raise self.und(f"{fn.name} has no receiver parameter", e)
            env[params[0]] = selfobj
            params = params[1:]
        if len(args) > len(params):
            raise self.und(f"too many arguments for {fn.name}", e)
        bound = dict(zip(params, args))
        konly = [p.arg for p in a.kwonlyargs]
        for k, v in kw.items():
            if (k not in params and k not in konly) or k in bound:
                raise self.und(f"keyword {k} of {fn.name}", e)
            bound[k] = v
        sub = Interp(self.w, env, self.depth + 1, fn.name if self.w.cls is None or fn.name not in methods(self.w.cls) else f"{self.w.clsname}.{fn.name}")
        defaults = dict(zip(params[len(params) - len(a.defaults):], a.defaults))
        for p, dflt in zip(konly, a.kw_defaults):
            if dflt is not None:
                defaults[p] = dflt
        for p in params + konly:
            if p in bound:
                sub.env[p] = bound[p]
            elif p in defaults:
                sub.env[p] = sub.ev(defaults[p])
            else:
                raise self.und(f"{fn.name} called without `{p}`", e)
        return sub.run(fn)

    def run(self, fn: ast.FunctionDef):
        try:
            self.exec(body_nodoc(fn))
        except _Return as r:
            return r.value
        return None

    def method_call(self, base, nm: str, args, kw, e):
        if isinstance(base, Unknown):
            return Unknown(f"{base.why}.{nm}()")
        if isinstance(base, Obj):
            if base.kind == "self":
                fn = self.w.method(nm)
                if fn is None:
                    raise self.und(f"self.{nm} is not defined in {self.w.clsname} (inherited methods are not interpreted)", e)
                static = any(u(dec) == "staticmethod" for dec in fn.decorator_list)
                return self.invoke(fn, args, kw, None if static else base, e)
            if nm in base.meths:
                try:
                    return base.meths[nm](*args, **kw)
                except TypeError as ex:
                    raise self.und(f"model method {nm}: {ex}", e)
            if nm == "copy" and not args:
                return Obj(base.kind, {k: (v.copy() if isinstance(v, (np.ndarray, SpM)) else v) for k, v in base.attrs.items()}, base.meths)
            raise self.und(f"the model {base.kind} has no method `{nm}`", e)
        if _has_unknown(list(args) + list(kw.values())):
            return Unknown(f"{nm}() with an unmodelled argument")
        if isinstance(base, dict):
            if nm == "get":
                return base.get(args[0], args[1] if len(args) > 1 else kw.get("default"))
            if nm in ("keys", "values", "items"):
                return list(getattr(base, nm)())
            if nm == "update" and len(args) == 1 and isinstance(args[0], dict):
                for k_, v_ in args[0].items():
                    self.setitem(base, k_, v_, e)
                return None
            if nm == "copy":
                return dict(base)
            raise self.und(f"dict.{nm}", e)
        if isinstance(base, list):
            if nm == "append":
                base.append(args[0])
                return None
            if nm == "extend":
                base.extend(self.seq(args[0], e))
                return None
            raise self.und(f"list.{nm}", e)
        if isinstance(base, np.ndarray):
            return self.nd_method(base, nm, args, kw, e)
        if isinstance(base, SpM):
            return self.sp_method(base, nm, args, kw, e)
        raise self.und(f"method `{nm}` of {type(base).__name__}", e)

    # ---- ndarray methods -----------------------------------------------------------------------------
    def nd_method(self, a: np.ndarray, nm: str, args, kw, e):
        def order(v):
            if v is None:
                return "C"
            if isinstance(v, str) and v.upper() in ("C", "F"):
                return v.upper()
            raise self.und(f"order {v!r}", e)
        if nm == "copy":
            return a.copy()
        if nm in ("ravel", "flatten"):
            return self.nat(e, a.ravel, order(args[0] if args else kw.get("order"))).copy() if nm == "flatten" else self.nat(e, a.ravel, order(args[0] if args else kw.get("order")))
        if nm == "reshape":
            shp = args[0] if len(args) == 1 else tuple(args)
            shp = tuple(_as_int(s) for s in shp) if isinstance(shp, (tuple, list)) else (_as_int(shp),)
            return self.nat(e, lambda: a.reshape(shp, order=order(kw.get("order"))))
        if nm in ("sum", "prod", "any", "all", "max", "min", "cumsum"):
            return NP[f"np.{nm}"](self, e, [a] + list(args), kw)
        if nm == "astype":
            k = _dtype_kind(args[0] if args else kw.get("dtype"))
            if k == "bool":
                if a.dtype == object:
                    return np.array([_as_bool(t) for t in a.reshape(-1)], dtype=bool).reshape(a.shape)
                return a.astype(bool)
            if k == "int":
                if a.dtype == object:
                    return np.array([_as_int(t) for t in a.reshape(-1)], dtype=int).reshape(a.shape)
                return a.astype(int)
            return _symb(a.astype(int) if a.dtype == bool else a).copy()
        if nm == "transpose" and not args:
            return a.T
        if nm == "nonzero" and a.dtype != object:
            return tuple(a.nonzero())
        if nm == "tolist" and a.dtype != object:
            return a.tolist()
        if nm == "squeeze":
            return a.squeeze()
        if nm == "argsort" and a.dtype != object:
            return a.argsort(kind="stable")
        if nm == "dot":
            return self.binop(ast.MatMult(), a, args[0], e)
        if nm == "fill":
            a[...] = sp.sympify(_sym_scalar(args[0])) if a.dtype == object else args[0]
            return None
        if nm == "item" and a.size == 1:
            return a.reshape(-1)[0]
        raise self.und(f"ndarray.{nm}", e)

    # ---- sparse methods ------------------------------------------------------------------------------
    def sp_method(self, m: SpM, nm: str, args, kw, e):
        if nm in ("tocsr", "tocsc", "tocoo", "todia"):
            return m.to(nm[2:])
        if nm == "asformat":
            return m.to(args[0])
        if nm == "copy":
            return m.copy()
        if nm == "transpose":
            return m.transpose()
        if nm == "diagonal" and not args:
            return m.diagonal()
        if nm in ("toarray", "todense"):
            out = np.empty(m.shape, dtype=object)
            out[...] = sp.Integer(0)
            for (i, j), v in m.todict().items():
                out[i, j] = v
            return out
        if nm == "dot":
            return self.sp_binop(ast.MatMult(), m, args[0], e)
        if nm == "eliminate_zeros":
            keep = [(i, j, v) for i, j, v in m.entries() if not (v == 0)]
            new = SpM.from_entries(m.shape, m.fmt, keep)
            m.__dict__.update(new.__dict__)
            return None
        if nm == "sum_duplicates":
            new = m.to("csr").to(m.fmt) if m.fmt == "coo" else m
            m.__dict__.update(new.__dict__)
            return None
        if nm == "getnnz":
            return len(m.entries())
        if nm == "multiply" and len(args) == 1 and _is_num(args[0]):
            return m.scale(sp.sympify(args[0]))
        if nm == "sum":
            ax = args[0] if args else kw.get("axis")
            d = m.todict()
            if ax is None:
                return sum(d.values(), sp.Integer(0))
            ax = _as_int(ax)
            out = [sp.Integer(0)] * m.shape[1 - ax]
            for (i, j), v in d.items():
                out[j if ax == 0 else i] += v
            return oarr(out)
        raise self.und(f"sparse method `{nm}`", e)

    # ---- module-level calls ----------------------------------------------------------------------------
    def module_call(self, d: str, e, args, kw):
        parts = d.split(".")
        if parts[0] == "warnings":
            return None
        if _has_unknown(list(args) + list(kw.values())):
            return Unknown(f"{d}() with an unmodelled argument")
        if parts[0] in ("np", "numpy"):
            key = "np." + ".".join(parts[1:])
            if key in NP:
                return NP[key](self, e, args, kw)
            raise self.und(f"{d} is not in the modelled numpy subset", e)
        if parts[0] in ("sps", "scipy"):
            key = "sps." + parts[-1]
            if key in SPS:
                return SPS[key](self, e, args, kw)
            raise self.und(f"{d} is not in the modelled scipy.sparse subset", e)
        if parts[0] == "pp":
            if parts[-1] in PRIMS:
                return PRIMS[parts[-1]](self, e, args, kw)
            raise self.und(f"{d} is not a modelled porepy helper", e)
        raise self.und(f"call {d}", e)

    def np_array(self, x, dtype, e):
        k = _dtype_kind(dtype)
        if isinstance(x, np.ndarray):
            if k == "int":
                return self.nd_method(x, "astype", [int], {}, e)
            if k == "bool":
                return self.nd_method(x, "astype", [bool], {}, e)
            return x.copy()

        def leaves(v):
            if isinstance(v, (list, tuple)):
                for t in v:
                    yield from leaves(t)
            elif isinstance(v, np.ndarray):
                yield from v.reshape(-1)
            else:
                yield v
        lv = list(leaves(x))
        if any(isinstance(t, Unknown) for t in lv):
            return Unknown("array of unmodelled values")
        if k == "int" or (k is None and lv and all(isinstance(t, (int, np.integer)) and not isinstance(t, (bool, np.bool_)) for t in lv)):
            return self.nat(e, lambda: np.array(x if not isinstance(x, (sp.Expr,)) else int(x), dtype=int))
        if k == "bool" or (k is None and lv and all(isinstance(t, (bool, np.bool_)) for t in lv)):
            return self.nat(e, lambda: np.array(x, dtype=bool))
        if not lv and k is None:
            return np.empty(np.array(x, dtype=object).shape, dtype=object)

        def conv(v):
            if isinstance(v, (list, tuple)):
                return [conv(t) for t in v]
            if isinstance(v, np.ndarray):
                return _symb(v.astype(int) if v.dtype == bool else v)
            return sp.sympify(_sym_scalar(v)) if not isinstance(v, (bool, np.bool_)) else sp.Integer(int(v))
        c = conv(x)
        if isinstance(c, sp.Expr):
            out = np.empty((), dtype=object)
            out[()] = c
            return out
        arr = self.nat(e, lambda: np.array(c, dtype=object))
        if sum(1 for _ in leaves(c)) != arr.size:
            raise self.und("ragged array construction", e)
        return arr

    # ---- statements ----------------------------------------------------------------------------------
    def exec(self, body: list) -> None:
        for st in body:
            self.stmt(st)

    def stmt(self, st: ast.stmt) -> None:
        self.w.steps += 1
        if isinstance(st, ast.Expr):
            if isinstance(st.value, ast.Constant):
                return
            self.ev(st.value)
            return
        if isinstance(st, ast.Assign):
            val = self.ev(st.value)
            for tg in st.targets:
                self.bind(tg, val)
            return
        if isinstance(st, ast.AnnAssign):
            if st.value is not None:
                self.bind(st.target, self.ev(st.value))
            return
        if isinstance(st, ast.AugAssign):
            tg = st.target
            cur = self.ev(ast.copy_location(_as_load(tg), tg))
            rhs = self.ev(st.value)
            if isinstance(cur, np.ndarray) and not isinstance(rhs, Unknown) and not isinstance(rhs, SpM):
                # in place: aliases of the array see the update (numpy semantics)
                new = self.binop(st.op, cur, rhs, st)
                if isinstance(new, np.ndarray) and new.shape == cur.shape and (cur.dtype == object or new.dtype == cur.dtype):
                    cur[...] = new
                    return
                raise ModelCrash(f"in-place `{u(st)[:60]}` changes shape {cur.shape} -> {getattr(new, 'shape', None)} or dtype", st, self.where) \
                    if isinstance(new, np.ndarray) and new.shape != cur.shape else self.und(f"in-place update `{u(st)[:60]}`", st)
            self.bind(tg, self.binop(st.op, cur, rhs, st))
            return
        if isinstance(st, ast.If):
            t = self.ev(st.test)
            if isinstance(t, Unknown):
                raise self.und(f"branch on a value that is not known on the model mesh: `{u(st.test)[:70]}`", st)
            self.exec(st.body if _as_bool(t) else st.orelse)
            return
        if isinstance(st, ast.For):
            for v in self.seq(self.iter_value(st.iter), st.iter):
                self.bind(st.target, v)
                try:
                    self.exec(st.body)
                except _Break:
                    break
                except _Continue:
                    continue
            else:
                self.exec(st.orelse)
            return
        if isinstance(st, ast.Return):
            raise _Return(self.ev(st.value) if st.value is not None else None)
        if isinstance(st, ast.Raise):
            raise self.und(f"the interpreted code raises on the model mesh: `{u(st)[:80]}`", st)
        if isinstance(st, ast.Assert):
            t = self.ev(st.test)
            if not isinstance(t, Unknown) and not _as_bool(t):
                raise self.und(f"assertion fails on the model mesh: `{u(st.test)[:70]}`", st)
            return
        if isinstance(st, ast.Pass):
            return
        if isinstance(st, ast.Break):
            raise _Break()
        if isinstance(st, ast.Continue):
            raise _Continue()
        if isinstance(st, ast.FunctionDef):
            self.env[st.name] = Closure(st, self.env, self)
            return
        if isinstance(st, (ast.Import, ast.ImportFrom)):
            return
        if isinstance(st, ast.Delete):
            for t in st.targets:
                if isinstance(t, ast.Name):
                    self.env.pop(t.id, None)
                else:
                    raise self.und("del of a non-name", st)
            return
        raise self.und(f"statement {type(st).__name__}", st)

    def iter_value(self, it: ast.expr):
        return self.ev(it)


def _has_unknown(v) -> bool:
    if isinstance(v, Unknown):
        return True
    if isinstance(v, (list, tuple)):
        return any(_has_unknown(t) for t in v)
    return False


class _Break(Exception):
    pass


class _Continue(Exception):
    pass


def _as_load(t: ast.expr) -> ast.expr:
    import copy
    t2 = copy.deepcopy(t)
    for n in ast.walk(t2):
        if hasattr(n, "ctx"):
            n.ctx = ast.Load()
    return t2


# ======================================================================================================
# tables: builtins, numpy, scipy.sparse, porepy helpers (the trusted semantics)
# ======================================================================================================

MODULE_ROOTS = {"np", "numpy", "sps", "scipy", "pp", "warnings"}
BUILTIN_VALUES = {"int": int, "float": float, "bool": bool, "object": object, "True": True, "False": False, "None": None,
                  "DeprecationWarning": "DeprecationWarning", "UserWarning": "UserWarning", "NotImplementedError": "NotImplementedError",
                  "ValueError": "ValueError", "RuntimeError": "RuntimeError", "str": str}


def _b_len(it, e, a, k):
    v = a[0]
    if isinstance(v, np.ndarray):
        return int(v.shape[0])
    if isinstance(v, (list, tuple, dict, str, range)):
        return len(v)
    if isinstance(v, Unknown):
        return v
    raise it.und("len of an unmodelled value", e)


def _b_range(it, e, a, k):
    return list(range(*[_as_int(x, "range bound") for x in a]))


def _b_allany(fn):
    def f(it, e, a, k):
        v = a[0]
        if isinstance(v, Unknown):
            return v
        vals = it.seq(v, e)
        if any(isinstance(t, Unknown) for t in vals):
            return Unknown("all/any over unmodelled values")
        return fn(_as_bool(t) for t in vals)
    return f


def _b_sum(it, e, a, k):
    vals = it.seq(a[0], e)
    acc = a[1] if len(a) > 1 else 0
    for v in vals:
        acc = it.binop(ast.Add(), acc, v, e)
    return acc


def _b_minmax(fn):
    def f(it, e, a, k):
        vals = it.seq(a[0], e) if len(a) == 1 else list(a)
        if all(isinstance(v, (int, np.integer, sp.Integer)) for v in vals):
            return fn(int(v) for v in vals)
        return Unknown("min/max of symbolic values")
    return f


def _b_hasattr(it, e, a, k):
    o, nm = a
    if isinstance(o, Obj):
        return nm in o.attrs or nm in o.meths or (o.kind == "self" and (nm in it.w.selfattrs or it.w.method(nm) is not None))
    raise it.und("hasattr on an unmodelled value", e)


def _b_getattr(it, e, a, k):
    o, nm = a[0], a[1]
    if isinstance(o, Obj) and nm not in o.attrs and len(a) > 2 and not (o.kind == "self" and nm in it.w.selfattrs):
        return a[2]
    return it.getattr(o, nm, e)


def _b_int(it, e, a, k):
    v = a[0]
    if isinstance(v, Unknown):
        return v
    return _as_int(v)


BUILTIN_FUNCS: dict = {
    "len": _b_len, "range": _b_range, "all": _b_allany(all), "any": _b_allany(any), "sum": _b_sum, "min": _b_minmax(min), "max": _b_minmax(max),
    "hasattr": _b_hasattr, "getattr": _b_getattr, "int": _b_int,
    "float": lambda it, e, a, k: sp.sympify(_sym_scalar(a[0])) if not isinstance(a[0], Unknown) else a[0],
    "bool": lambda it, e, a, k: a[0] if isinstance(a[0], Unknown) else _as_bool(a[0]),
    "abs": lambda it, e, a, k: a[0] if isinstance(a[0], Unknown) else (abs(a[0]) if not isinstance(a[0], np.ndarray) else NP["np.abs"](it, e, a, k)),
    "list": lambda it, e, a, k: list(it.seq(a[0], e)) if a else [],
    "tuple": lambda it, e, a, k: tuple(it.seq(a[0], e)) if a else (),
    "dict": lambda it, e, a, k: dict(a[0]) if a else dict(k),
    "zip": lambda it, e, a, k: [tuple(t) for t in zip(*[it.seq(x, e) for x in a])],
    "enumerate": lambda it, e, a, k: [(i, v) for i, v in enumerate(it.seq(a[0], e), *( [_as_int(a[1])] if len(a) > 1 else []))],
    "reversed": lambda it, e, a, k: list(reversed(it.seq(a[0], e))),
    "sorted": lambda it, e, a, k: sorted(_as_int(v) for v in it.seq(a[0], e)),
    "set": lambda it, e, a, k: set(_as_int(v) if not isinstance(v, (str, tuple)) else v for v in it.seq(a[0], e)) if a else set(),
    "frozenset": lambda it, e, a, k: frozenset(_as_int(v) if not isinstance(v, (str, tuple)) else v for v in it.seq(a[0], e)) if a else frozenset(),
    "print": lambda it, e, a, k: None,
    "cast": lambda it, e, a, k: a[1],
    "isinstance": lambda it, e, a, k: Unknown("isinstance"),
    "str": lambda it, e, a, k: Unknown("str()"),
}


# ---- numpy -------------------------------------------------------------------------------------------

def _np_zeros(fill):
    def f(it, e, a, k):
        shp = a[0]
        shp = tuple(_as_int(s) for s in shp) if isinstance(shp, (tuple, list)) else (_as_int(shp),)
        kind = _dtype_kind(a[1] if len(a) > 1 else k.get("dtype"))
        if kind == "int":
            return np.full(shp, fill, dtype=int)
        if kind == "bool":
            return np.full(shp, bool(fill), dtype=bool)
        out = np.empty(shp, dtype=object)
        out[...] = sp.Integer(fill)
        return out
    return f


def _np_like(fill):
    def f(it, e, a, k):
        src = a[0]
        if not isinstance(src, np.ndarray):
            raise it.und("zeros_like / ones_like of a non-array", e)
        kind = _dtype_kind(k.get("dtype")) or ("int" if src.dtype.kind in "iu" else "bool" if src.dtype == bool else "float")
        return _np_zeros(fill)(it, e, [src.shape], {"dtype": {"int": int, "bool": bool, "float": float}[kind]})
    return f


def _arrs(it, e, seq):
    """list of arrays for concatenation: everything symbolic unless all are integer (or all boolean) arrays"""
    parts = []
    for p in it.seq(seq, e) if not isinstance(seq, np.ndarray) else [seq]:
        if isinstance(p, np.ndarray):
            parts.append(p)
        elif isinstance(p, (list, tuple)):
            parts.append(it.np_array(p, None, e))
        else:
            parts.append(it.np_array([p], None, e))
    kinds = {("o" if p.dtype == object else "b" if p.dtype == bool else "i") for p in parts}
    if "o" in kinds:
        parts = [_symb(p.astype(int) if p.dtype == bool else p) for p in parts]
    elif kinds == {"b", "i"}:
        parts = [p.astype(int) for p in parts]
    return parts


def _np_cat(fn):
    def f(it, e, a, k):
        parts = _arrs(it, e, a[0])
        ax = k.get("axis", a[1] if len(a) > 1 else None)
        if ax is not None:
            return it.nat(e, fn, parts, axis=_as_int(ax))
        return it.nat(e, fn, parts)
    return f


def _np_reduce(fn, symbolic_ok=True):
    def f(it, e, a, k):
        x = a[0]
        if isinstance(x, (list, tuple)):
            x = it.np_array(x, None, e)
        if not isinstance(x, np.ndarray):
            return x
        ax = k.get("axis", a[1] if len(a) > 1 else None)
        ax = None if ax is None else _as_int(ax)
        if x.dtype == bool and fn in (np.sum, np.cumsum, np.prod):
            x = x.astype(int)
        if x.dtype == object and not symbolic_ok:
            try:
                x = np.array([_as_int(t) for t in x.reshape(-1)], dtype=int).reshape(x.shape)
            except Undecided:
                return Unknown(f"{fn.__name__} of symbolic values")
        res = it.nat(e, fn, x, axis=ax)
        if isinstance(res, np.integer):
            return int(res)
        if isinstance(res, np.bool_):
            return bool(res)
        if x.dtype == object and not isinstance(res, np.ndarray) and isinstance(res, int):
            return sp.Integer(res)
        return res
    return f


def _np_truth(fn):
    def f(it, e, a, k):
        x = a[0]
        if isinstance(x, (bool, np.bool_)):
            return bool(x)
        if isinstance(x, (list, tuple)):
            x = it.np_array(x, None, e)
        if isinstance(x, np.ndarray) and x.dtype == object:
            x = np.array([_as_bool(t) for t in x.reshape(-1)], dtype=bool).reshape(x.shape)
        if not isinstance(x, np.ndarray):
            return _as_bool(x)
        ax = k.get("axis", a[1] if len(a) > 1 else None)
        res = it.nat(e, fn, x, axis=None if ax is None else _as_int(ax))
        return bool(res) if isinstance(res, np.bool_) else res
    return f


def _boolarr(it, e, x):
    if isinstance(x, (bool, np.bool_)):
        return bool(x)
    if isinstance(x, (list, tuple)):
        x = it.np_array(x, None, e)
    if isinstance(x, np.ndarray):
        if x.dtype == bool:
            return x
        if x.dtype == object:
            return np.array([_as_bool(t) for t in x.reshape(-1)], dtype=bool).reshape(x.shape)
        return x.astype(bool)
    return _as_bool(x)


def _np_logical(fn):
    def f(it, e, a, k):
        res = it.nat(e, fn, *[_boolarr(it, e, x) for x in a])
        return bool(res) if isinstance(res, np.bool_) else res
    return f


def _np_logical_reduce(fn):
    def f(it, e, a, k):
        parts = [_boolarr(it, e, x) for x in it.seq(a[0], e)] if not isinstance(a[0], np.ndarray) else _boolarr(it, e, a[0])
        ax = _as_int(k.get("axis", a[1] if len(a) > 1 else 0))
        res = it.nat(e, lambda: fn.reduce(np.array(parts), axis=ax))
        return bool(res) if isinstance(res, np.bool_) else res
    return f


def _np_elementwise(pyf):
    def f(it, e, a, k):
        xs = [(_symb(x.astype(int) if x.dtype == bool else x) if isinstance(x, np.ndarray) else sp.sympify(_sym_scalar(x))) for x in a]
        if not any(isinstance(x, np.ndarray) for x in xs):
            return pyf(*xs)
        return it.nat(e, np.frompyfunc(pyf, len(xs), 1), *xs)
    return f


def _np_norm(it, e, a, k):
    x = a[0]
    o = a[1] if len(a) > 1 else k.get("ord")
    ax = k.get("axis", a[2] if len(a) > 2 else None)
    if o not in (None, 2) or not isinstance(x, np.ndarray):
        raise it.und("np.linalg.norm other than the 2-norm of an array", e)
    sq = it.nat(e, np.sum, _symb(x) ** 2, axis=None if ax is None else _as_int(ax))
    return np.frompyfunc(sp.sqrt, 1, 1)(sq) if isinstance(sq, np.ndarray) else sp.sqrt(sq)


def _np_bincount(it, e, a, k):
    x = a[0]
    w = k.get("weights", a[1] if len(a) > 1 else None)
    ml = _as_int(k.get("minlength", a[2] if len(a) > 2 else 0))
    x = Interp._fix_index(x)
    if not isinstance(x, np.ndarray) or x.ndim != 1 or x.dtype.kind not in "iu":
        raise it.und("np.bincount of something else than a 1-d integer array", e)
    if (x < 0).any():
        raise ModelCrash("np.bincount: negative index", e, it.where)
    n = max(int(x.max()) + 1 if x.size else 0, ml)
    if w is None:
        return np.bincount(x, minlength=ml)
    if not isinstance(w, np.ndarray) or w.shape != x.shape:
        raise ModelCrash(f"np.bincount: the weights (shape {getattr(w, 'shape', None)}) and the indices (shape {x.shape}) do not have the same shape", e, it.where)
    w = _symb(w)
    out = [sp.Integer(0)] * n
    for i, v in zip(x, w):
        out[int(i)] = out[int(i)] + v
    return oarr(out)


def _np_where(it, e, a, k):
    c = _boolarr(it, e, a[0])
    if len(a) == 1:
        return tuple(np.nonzero(c)) if isinstance(c, np.ndarray) else (np.array([0] if c else [], dtype=int),)
    x, y = a[1], a[2]
    xs = _symb(x) if isinstance(x, np.ndarray) and x.dtype != bool else x
    ys = _symb(y) if isinstance(y, np.ndarray) and y.dtype != bool else y
    return it.nat(e, np.where, c, xs if isinstance(xs, np.ndarray) else sp.sympify(_sym_scalar(xs)), ys if isinstance(ys, np.ndarray) else sp.sympify(_sym_scalar(ys)))


def _np_ints(fn, nargs=1):
    """functions that are modelled for concrete integer / boolean arrays only"""
    def f(it, e, a, k):
        xs = []
        for x in a[:nargs]:
            if isinstance(x, (tuple, list)):
                x = np.array([np.asarray(t) for t in x]) if x and isinstance(x[0], np.ndarray) else it.np_array(x, None, e)
            x = Interp._fix_index(x)
            if isinstance(x, np.ndarray) and x.dtype == object:
                return Unknown(f"{fn.__name__} of symbolic values")
            xs.append(x)
        kk = {q: (_as_int(v) if q in ("axis",) and v is not None else v) for q, v in k.items()}
        res = it.nat(e, fn, *xs, *a[nargs:], **kk)
        if isinstance(res, np.integer):
            return int(res)
        if isinstance(res, np.bool_):
            return bool(res)
        return res
    return f


def _np_argext(fn):
    def f(it, e, a, k):
        x = a[0]
        if isinstance(x, np.ndarray) and x.dtype == object:
            try:
                x = np.array([_as_int(t) for t in x.reshape(-1)], dtype=int).reshape(x.shape)
            except Undecided:
                ax_ = k.get("axis", a[1] if len(a) > 1 else None)
                oracle = getattr(it.w, "oracle", None)
                res_ = oracle(fn.__name__, x, None if ax_ is None else _as_int(ax_)) if oracle is not None else None
                return res_ if res_ is not None else Unknown(f"{fn.__name__} of symbolic values (data-dependent choice)")
        ax = k.get("axis", a[1] if len(a) > 1 else None)
        res = it.nat(e, fn, x, axis=None if ax is None else _as_int(ax))
        return int(res) if isinstance(res, np.integer) else res
    return f


def _np_repeat(it, e, a, k):
    x, r = a[0], a[1] if len(a) > 1 else k.get("repeats")
    ax = k.get("axis", a[2] if len(a) > 2 else None)
    if not isinstance(x, np.ndarray):
        x = it.np_array([x], None, e)
    r = Interp._fix_index(r) if isinstance(r, np.ndarray) else _as_int(r)
    return it.nat(e, np.repeat, x, r, axis=None if ax is None else _as_int(ax))


def _np_tile(it, e, a, k):
    x, reps = a[0], a[1] if len(a) > 1 else k.get("reps")
    if not isinstance(x, np.ndarray):
        x = it.np_array(x if isinstance(x, (list, tuple)) else [x], None, e)
    reps = tuple(_as_int(r) for r in reps) if isinstance(reps, (tuple, list)) else _as_int(reps)
    return it.nat(e, np.tile, x, reps)


def _np_reshape(it, e, a, k):
    return it.nd_method(a[0], "reshape", [a[1]], {q: v for q, v in k.items() if q == "order"}, e)


def _np_ravel(it, e, a, k):
    return it.nd_method(a[0], "ravel", a[1:], k, e)


def _np_arange(it, e, a, k):
    vals = [_as_int(x, "np.arange bound") for x in a]
    return np.arange(*vals, dtype=int)


def _np_eye(it, e, a, k):
    n = _as_int(a[0])
    return _symb(np.eye(n, dtype=int))


def _np_dot(it, e, a, k):
    return it.binop(ast.MatMult(), a[0], a[1], e)


def _np_isin(it, e, a, k):
    x, y = Interp._fix_index(a[0]), a[1]
    if isinstance(y, tuple):
        y = np.concatenate([np.asarray(t).reshape(-1) for t in y]) if y else np.array([], dtype=int)
    y = Interp._fix_index(y) if isinstance(y, np.ndarray) else np.asarray(y)
    if getattr(x, "dtype", None) == object or y.dtype == object:
        return Unknown("np.isin of symbolic values")
    return np.isin(x, y)


NP: dict = {
    "np.array": lambda it, e, a, k: it.np_array(a[0], a[1] if len(a) > 1 else k.get("dtype"), e),
    "np.asarray": lambda it, e, a, k: (a[0] if isinstance(a[0], np.ndarray) and k.get("dtype") is None and len(a) == 1 else it.np_array(a[0], a[1] if len(a) > 1 else k.get("dtype"), e)),
    "np.atleast_1d": lambda it, e, a, k: a[0] if isinstance(a[0], np.ndarray) and a[0].ndim >= 1 else it.np_array([a[0]] if not isinstance(a[0], (list, tuple, np.ndarray)) else a[0], None, e).reshape(-1),
    "np.zeros": _np_zeros(0), "np.ones": _np_zeros(1), "np.empty": _np_zeros(0),
    "np.zeros_like": _np_like(0), "np.ones_like": _np_like(1), "np.empty_like": _np_like(0),
    "np.arange": _np_arange, "np.eye": _np_eye,
    "np.hstack": _np_cat(np.hstack), "np.vstack": _np_cat(np.vstack), "np.concatenate": _np_cat(np.concatenate), "np.stack": _np_cat(np.stack),
    "np.tile": _np_tile, "np.repeat": _np_repeat, "np.reshape": _np_reshape, "np.ravel": _np_ravel,
    "np.transpose": lambda it, e, a, k: a[0].T if isinstance(a[0], np.ndarray) and len(a) == 1 and not k else Unknown("np.transpose with axes"),
    "np.sum": _np_reduce(np.sum), "np.prod": _np_reduce(np.prod), "np.cumsum": _np_reduce(np.cumsum),
    "np.max": _np_reduce(np.max, False), "np.min": _np_reduce(np.min, False), "np.amax": _np_reduce(np.max, False), "np.amin": _np_reduce(np.min, False),
    "np.any": _np_truth(np.any), "np.all": _np_truth(np.all),
    "np.logical_and": _np_logical(np.logical_and), "np.logical_or": _np_logical(np.logical_or), "np.logical_not": _np_logical(np.logical_not),
    "np.logical_xor": _np_logical(np.logical_xor),
    "np.logical_or.reduce": _np_logical_reduce(np.logical_or), "np.logical_and.reduce": _np_logical_reduce(np.logical_and),
    "np.abs": _np_elementwise(lambda x: sp.Abs(x)), "np.absolute": _np_elementwise(lambda x: sp.Abs(x)), "np.sqrt": _np_elementwise(lambda x: sp.sqrt(x)),
    "np.power": _np_elementwise(lambda x, p: x ** p), "np.square": _np_elementwise(lambda x: x ** 2),
    "np.divide": _np_elementwise(lambda x, y: x / y), "np.true_divide": _np_elementwise(lambda x, y: x / y),
    "np.multiply": _np_elementwise(lambda x, y: x * y), "np.add": _np_elementwise(lambda x, y: x + y),
    "np.subtract": _np_elementwise(lambda x, y: x - y), "np.negative": _np_elementwise(lambda x: -x), "np.reciprocal": _np_elementwise(lambda x: 1 / x),
    "np.linalg.norm": _np_norm, "np.bincount": _np_bincount, "np.where": _np_where, "np.dot": _np_dot, "np.isin": _np_isin, "np.in1d": _np_isin,
    "np.nonzero": lambda it, e, a, k: _np_where(it, e, a[:1], {}),
    "np.flatnonzero": lambda it, e, a, k: _np_where(it, e, [a[0].reshape(-1)], {})[0],
    "np.argwhere": lambda it, e, a, k: np.argwhere(_boolarr(it, e, a[0])),
    "np.argsort": _np_ints(lambda x, **kw: np.argsort(x, kind="stable", **{q: v for q, v in kw.items() if q == "axis"})),
    "np.sort": _np_ints(np.sort), "np.unique": _np_ints(np.unique), "np.diff": _np_ints(np.diff),
    "np.array_equal": _np_ints(np.array_equal, 2), "np.setdiff1d": _np_ints(np.setdiff1d, 2), "np.intersect1d": _np_ints(np.intersect1d, 2),
    "np.union1d": _np_ints(np.union1d, 2), "np.count_nonzero": _np_ints(np.count_nonzero),
    "np.argmax": _np_argext(np.argmax), "np.argmin": _np_argext(np.argmin),
    "np.isclose": lambda it, e, a, k: Unknown("np.isclose"), "np.allclose": lambda it, e, a, k: Unknown("np.allclose"),
    "np.ceil": lambda it, e, a, k: a[0] if isinstance(a[0], (int, sp.Integer)) else Unknown("np.ceil"),
    "np.squeeze": lambda it, e, a, k: a[0].squeeze(),
    "np.copy": lambda it, e, a, k: a[0].copy(),
    "np.delete": lambda it, e, a, k: it.nat(e, np.delete, a[0], Interp._fix_index(a[1]), *( [_as_int(a[2])] if len(a) > 2 else []), **{q: _as_int(v) for q, v in k.items() if q == "axis"}),
    "np.append": lambda it, e, a, k: it.nat(e, np.concatenate, _arrs(it, e, [np.asarray(a[0]).reshape(-1) if not isinstance(a[0], np.ndarray) else a[0].reshape(-1),
                                                                        a[1].reshape(-1) if isinstance(a[1], np.ndarray) else a[1]])),
}


# ---- scipy.sparse ------------------------------------------------------------------------------------

def _sp_data(it, e, v):
    if isinstance(v, (list, tuple)):
        v = it.np_array(v, None, e)
    if not isinstance(v, np.ndarray):
        v = it.np_array([v], None, e)
    return _symb(v.astype(int) if v.dtype == bool else v)


def _sp_make(fmt):
    def f(it, e, a, k):
        if not a:
            raise it.und("sparse constructor without arguments", e)
        x = a[0]
        shape = k.get("shape", a[1] if len(a) > 1 and isinstance(a[1], (tuple, list)) else None)
        if shape is not None:
            shape = tuple(_as_int(s) for s in shape)
        if isinstance(x, SpM):
            return x.to(fmt)
        if isinstance(x, (tuple, list)) and len(x) == 2 and all(isinstance(t, (int, np.integer, sp.Integer)) for t in x):
            return SpM.from_entries((int(x[0]), int(x[1])), fmt, [])
        if fmt == "dia":
            if not (isinstance(x, tuple) and len(x) == 2):
                raise it.und("dia matrix from something else than (data, offsets)", e)
            data, offs = x
            offs = it.seq(offs, e) if isinstance(offs, (list, tuple, np.ndarray)) else [offs]
            if [_as_int(o) for o in offs] != [0]:
                raise it.und("dia matrix with an off-diagonal", e)
            data = _sp_data(it, e, data)
            if data.ndim == 2 and data.shape[0] == 1:
                data = data[0]
            if data.ndim != 1 or shape is None:
                raise it.und("dia matrix data / shape", e)
            n = min(shape[0], shape[1], data.shape[0])
            d = [data[i] if i < n else sp.Integer(0) for i in range(min(shape))]
            return SpM(shape, "dia", diag=oarr(d))
        if isinstance(x, tuple) and len(x) == 2 and isinstance(x[1], (tuple, list)) and len(x[1]) == 2:
            data = _sp_data(it, e, x[0])
            r, c = (Interp._fix_index(t if isinstance(t, np.ndarray) else it.np_array(t, None, e)) for t in x[1])
            if not (data.ndim == r.ndim == c.ndim == 1 and data.shape == r.shape == c.shape):
                raise ModelCrash(f"sparse constructor: data, rows and columns have shapes {data.shape}, {r.shape}, {c.shape}", e, it.where)
            if r.dtype.kind not in "iu" or c.dtype.kind not in "iu":
                raise it.und("sparse constructor with non-integer indices", e)
            if (r < 0).any() or (c < 0).any():
                raise ModelCrash("sparse constructor: negative index", e, it.where)
            if shape is None:
                shape = (int(r.max()) + 1 if r.size else 0, int(c.max()) + 1 if c.size else 0)
            try:
                return SpM.from_entries(shape, fmt, [(int(i), int(j), v) for i, j, v in zip(r, c, data)])
            except ModelCrash as mc:
                raise ModelCrash(mc.msg, e, it.where)
        if isinstance(x, tuple) and len(x) == 3 and fmt in ("csr", "csc"):
            data = _sp_data(it, e, x[0])
            ind, ptr = Interp._fix_index(x[1]), Interp._fix_index(x[2])
            nmaj = len(ptr) - 1
            if data.shape != ind.shape or (len(ptr) and int(ptr[-1]) != len(ind)):
                raise ModelCrash(f"compressed constructor: data {data.shape}, indices {ind.shape}, indptr ends at {int(ptr[-1]) if len(ptr) else None}", e, it.where)
            if shape is None:
                other = int(ind.max()) + 1 if ind.size else 0
                shape = (nmaj, other) if fmt == "csr" else (other, nmaj)
            if (shape[0] if fmt == "csr" else shape[1]) != nmaj:
                raise ModelCrash(f"compressed constructor: indptr of length {len(ptr)} for shape {shape}", e, it.where)
            lim = shape[1] if fmt == "csr" else shape[0]
            if ind.size and (int(ind.max()) >= lim or int(ind.min()) < 0):
                raise ModelCrash(f"compressed constructor: index {int(ind.max())} out of range for shape {shape}", e, it.where)
            return SpM(shape, fmt, data=data.copy(), indices=ind.copy(), indptr=ptr.copy())
        if isinstance(x, (list, np.ndarray)):
            dense = _sp_data(it, e, x)
            if dense.ndim == 1:
                dense = dense.reshape(1, -1)
            ents = [(i, j, dense[i, j]) for i in range(dense.shape[0]) for j in range(dense.shape[1]) if not (dense[i, j] == 0)]
            return SpM.from_entries(dense.shape, fmt, ents)
        raise it.und(f"sparse constructor argument `{u(e)[:60]}`", e)
    return f


def _sp_eye(it, e, a, k):
    n = _as_int(a[0])
    m = _as_int(a[1]) if len(a) > 1 and a[1] is not None else _as_int(k["n"]) if k.get("n") is not None else n
    out = SpM((n, m), "dia", diag=oarr([1] * min(n, m)))
    return out.to(k["format"]) if k.get("format") else out


def _sp_kron(it, e, a, k):
    A, B = a[0], a[1]
    if not isinstance(A, SpM):
        A = _sp_make("coo")(it, e, [A], {})
    if not isinstance(B, SpM):
        B = _sp_make("coo")(it, e, [B], {})
    return kron(A, B, k.get("format", a[2] if len(a) > 2 else None))


def _sp_block_diag(it, e, a, k):
    mats = [m if isinstance(m, SpM) else _sp_make("coo")(it, e, [m], {}) for m in it.seq(a[0], e)]
    ents, r0, c0 = [], 0, 0
    for m in mats:
        ents += [(i + r0, j + c0, v) for i, j, v in m.to("coo").entries()]
        r0, c0 = r0 + m.shape[0], c0 + m.shape[1]
    return SpM.from_entries((r0, c0), k.get("format") or "coo", ents)


def _sp_diags(it, e, a, k):
    offs = a[1] if len(a) > 1 else k.get("offsets", 0)
    if _as_int(offs) != 0:
        raise it.und("sps.diags with an off-diagonal", e)
    d = _sp_data(it, e, a[0])
    out = SpM((len(d), len(d)), "dia", diag=d.copy())
    return out.to(k["format"]) if k.get("format") else out


SPS: dict = {}
for _f in ("coo", "csr", "csc", "dia"):
    SPS[f"sps.{_f}_matrix"] = SPS[f"sps.{_f}_array"] = _sp_make(_f)
SPS.update({"sps.eye": _sp_eye, "sps.identity": _sp_eye, "sps.eye_array": _sp_eye, "sps.kron": _sp_kron, "sps.block_diag": _sp_block_diag, "sps.diags": _sp_diags,
            "sps.find": lambda it, e, a, k: a[0].find() if isinstance(a[0], SpM) else it.und("sps.find of a non-sparse value", e),
            "sps.issparse": lambda it, e, a, k: isinstance(a[0], SpM)})


# ---- porepy helpers taken as primitives (their own clauses: C21-R2, C35-R9, C35 tables) -----------------

def _p_row_col_data(it, e, a, k):
    A = a[0]
    if not isinstance(A, SpM):
        raise it.und("sparse_array_to_row_col_data of a non-sparse value", e)
    ents = A.entries()           # coo_matrix(A) keeps the storage order of A
    if (a[1] if len(a) > 1 else k.get("remove_nz", False)):
        ents = [t for t in ents if not (t[2] == 0)]
    return (np.array([t[0] for t in ents], dtype=int), np.array([t[1] for t in ents], dtype=int), oarr([t[2] for t in ents]))


def _p_expand_indices_nd(it, e, a, k):
    ind, nd = Interp._fix_index(a[0]), _as_int(a[1] if len(a) > 1 else k["nd"])
    order = (a[2] if len(a) > 2 else k.get("order", "F"))
    if not isinstance(ind, np.ndarray) or ind.dtype.kind not in "iu":
        raise it.und("expand_indices_nd of a non-integer array", e)
    if nd == 1:
        return ind
    return (nd * ind + np.arange(nd)[:, np.newaxis]).ravel(order)


def _p_dense_blocks(fmt):
    def f(it, e, a, k):
        data, bs, nb = _sp_data(it, e, a[0]), _as_int(a[1]), _as_int(a[2])
        if data.ndim != 1 or data.size != bs * bs * nb:
            raise ModelCrash(f"csx_matrix_from_dense_blocks: {data.size} values for {nb} blocks of size {bs}", e, it.where)
        ents = []
        for b in range(nb):
            for i in range(bs):
                for j in range(bs):
                    v = data[(b * bs + i) * bs + j]
                    ents.append((b * bs + i, b * bs + j, v) if fmt == "csr" else (b * bs + j, b * bs + i, v))
        return SpM.from_entries((bs * nb, bs * nb), fmt, ents)
    return f


PRIMS: dict = {"sparse_array_to_row_col_data": _p_row_col_data, "expand_indices_nd": _p_expand_indices_nd,
               "csr_matrix_from_dense_blocks": _p_dense_blocks("csr"), "csc_matrix_from_dense_blocks": _p_dense_blocks("csc")}


# ======================================================================================================
# term normalisation
# ======================================================================================================

_PRIMES = [3, 5, 7, 11, 13, 17, 19, 23, 29, 31, 37, 41, 43, 47, 53, 59, 61, 67, 71, 73, 79, 83, 89, 97, 101, 103, 107, 109, 113]


def bad_number(e) -> bool:
    e = sp.sympify(e)
    return e.has(sp.zoo, sp.nan, sp.oo, -sp.oo)


def _opaque(e):
    """denominators (negative powers of sums) and square roots replaced by dummies: identities that are linear in the
    transmissibilities are then decided by a cheap expansion"""
    rule = {}
    for p in e.atoms(sp.Pow):
        if p.base.is_Add and (p.exp.is_negative or not p.exp.is_Integer):
            rule[p] = sp.Dummy("q", positive=True) ** (-1 if p.exp.is_negative else 1)
    return e.xreplace(rule) if rule else e


def _pull(e):
    """common positive factors pulled out of radicands: sqrt(a**2 * x + a**2 * y) -> a * sqrt(x + y)"""
    rule = {}
    for p in e.atoms(sp.Pow):
        if p.base.is_Add and not p.exp.is_Integer:
            rule[p] = sp.factor_terms(p.base) ** p.exp
    return e.xreplace(rule) if rule else e


def is_zero(e) -> bool:
    """is the extracted term identically zero?  A non-zero value at an exact rational point refutes it; a normal form equal
    to 0 proves it; anything else is undecided (never a verdict)."""
    e = sp.sympify(e)
    if e == 0:
        return True
    if bad_number(e):
        return False
    e = _pull(e)
    if e == 0 or sp.expand(_opaque(e)) == 0:
        return True
    syms = sorted(e.free_symbols, key=str)
    small = 0
    for trial in range(2):
        vals = {s_: sp.Rational(_PRIMES[(i * 7 + 11 * trial) % len(_PRIMES)], 2 + trial + (i % 3)) for i, s_ in enumerate(syms)}
        try:
            v = e.xreplace(vals)
            v = v if v.is_Rational else sp.N(v, 40)
        except (ZeroDivisionError, ValueError, TypeError):
            continue
        if bad_number(v) or not v.is_number:
            continue
        if abs(v) > sp.Float("1e-25"):
            return False
        small += 1
    if small == 0:
        raise Undecided(f"cannot evaluate {str(e)[:120]} at any test point")
    for norm in (lambda t: sp.expand(t.as_numer_denom()[0]), lambda t: sp.cancel(sp.together(t)), sp.radsimp, sp.simplify):
        try:
            if norm(e) == 0:
                return True
        except (sp.PolynomialError, NotImplementedError, ZeroDivisionError):
            continue
    raise Undecided(f"cannot decide whether {str(e)[:160]} vanishes identically (zero at {small} rational points, no normal form found)")


# ======================================================================================================
# C12: interpretation of Tpfa.discretize on the model mesh
# ======================================================================================================

Q = "Tpfa.discretize"
KEYS = {"flux": "flux_matrix_key", "bound_flux": "bound_flux_matrix_key", "bpc": "bound_pressure_cell_matrix_key",
        "bpf": "bound_pressure_face_matrix_key", "vs": "vector_source_matrix_key", "bpvs": "bound_pressure_vector_source_matrix_key"}

# boundary faces of the 2 x 2 model and their class: (bc.is_dir, bc.is_neu, fracture face).  Signs of the faces in cell_faces:
# 0, 3, 6, 7 point into the domain (-1); 2, 5, 10, 11 out of it (+1).
TPFA_CLASSES = {0: ("dir", False), 2: ("dir", False), 11: ("dir", False), 3: ("neu", False), 5: ("neu", False),
                6: ("neu", True), 10: ("neu", True), 7: ("dir", True)}


class Run:
    """matrices stored by one interpretation of the assembly"""

    def __init__(self, mode: str, world: World, mesh: Mesh, stored: dict, vsd: int, crash: Optional[ModelCrash] = None):
        self.mode, self.w, self.mesh, self.stored, self.vsd, self.crash = mode, world, mesh, stored, vsd, crash
        self.mats: dict = {}

    def node(self, name: str, fn):
        return self.w.store_nodes.get(self.w.selfattrs.get(KEYS[name]), fn)


def tpfa_world(repo) -> World:
    w = World(repo, TPFA, "Tpfa", base_inits=[(FVE, "FVElliptic")])
    for attr in KEYS.values():
        if not isinstance(w.selfattrs.get(attr), str):
            raise AnchorError(f"{FVE}: FVElliptic.__init__ does not assign a literal to self.{attr}")
    for c in ("PARAMETERS", "DISCRETIZATION_MATRICES"):
        if c not in w.consts:
            raise AnchorError(f"{CONSTS}: constant {c} not found")
    if w.method("discretize") is None:
        raise AnchorError(f"{TPFA}:{Q} not found")
    return w


def interpret_tpfa(repo, mode: str, flags: dict, params: dict, periodic=None) -> Run:
    w = tpfa_world(repo)
    mesh = Mesh(2, (2, 2))
    classes = dict(TPFA_CLASSES)
    if periodic is not None:
        for f in np.asarray(periodic).ravel():
            classes.pop(int(f))
    sd = mesh.grid(fracture=[f for f, (_, fr) in classes.items() if fr], periodic=periodic)
    nf = mesh.nf
    is_dir = np.array([classes.get(f, ("", 0))[0] == "dir" for f in range(nf)])
    is_neu = np.array([classes.get(f, ("", 0))[0] == "neu" for f in range(nf)])
    bnd = Obj("boundary condition", dict(is_dir=is_dir, is_neu=is_neu, is_rob=np.zeros(nf, dtype=bool), is_internal=sd.attrs["tags"]["fracture_faces"].copy(),
                                         num_faces=nf, dim=1, bf=sd.meths["get_all_boundary_faces"]()))
    tensor = Obj("second order tensor", dict(values=mesh.K.copy(), dim=3))
    matd: dict = {}
    pdict = {"second_order_tensor": tensor, "bc": bnd}
    pdict.update(params)
    data = {w.consts["PARAMETERS"]: {"kw": pdict}, w.consts["DISCRETIZATION_MATRICES"]: {"kw": matd}}
    data.update(flags)
    w.matdict = matd
    fn = w.method("discretize")
    run = Run(mode, w, mesh, matd, int(params.get("ambient_dimension", mesh.dim)))
    run.classes = classes
    try:
        Interp(w, {}, 0, Q).invoke(fn, [sd, data], {}, Obj("self", dict(keyword="kw")), fn)
    except ModelCrash as mc:
        run.crash = mc
    return run


def _expected_shapes(mesh: Mesh, vsd: int) -> dict:
    nf, nc = mesh.nf, mesh.nc
    return {"flux": (nf, nc), "bound_flux": (nf, nf), "bpc": (nf, nc), "bpf": (nf, nf), "vs": (nf, nc * vsd), "bpvs": (nf, nc * vsd)}


def check_wellformed(ctx: Ctx, mod, fn, run: Run) -> bool:
    """R1; returns True when the matrices can be used by the other rules"""
    if run.crash is not None:
        mc = run.crash
        cons = f"{mc.where}: `{u(mc.node)[:110] if mc.node is not None else '?'}` raises on the model mesh"
        ctx.check("R1", False, mod, Q, mc.node if mc.node is not None else fn,
                  f"[{run.mode}] interpreting the assembly on the 2 x 2 model mesh (12 faces, 4 cells, 16 half-faces) fails with {mc.msg}: an array is gathered / "
                  f"scattered with an index of the wrong index space or arrays of different index spaces are combined", construct=cons)
        return False
    ok_all = True
    for name, shape in _expected_shapes(run.mesh, run.vsd).items():
        key = run.w.selfattrs[KEYS[name]]
        m = run.stored.get(key)
        if isinstance(m, Unknown):
            raise Undecided(f"{TPFA}:{Q}: the matrix stored under self.{KEYS[name]} depends on a value the interpreter does not model ({m.why})")
        ok = isinstance(m, SpM) and m.shape == shape
        ctx.check("R1", ok, mod, Q, run.node(name, fn),
                  f"[{run.mode}] the matrix stored under self.{KEYS[name]} must have shape {shape} on the model mesh; found "
                  f"{'nothing stored' if m is None else (m.shape if isinstance(m, SpM) else type(m).__name__)}",
                  construct=f"store under self.{KEYS[name]} [{run.mode}]: shape", facts={"shape": str(getattr(m, 'shape', None))})
        ok_all = ok_all and ok
        if ok:
            d = m.todict()
            run.mats[name] = d
            for (i, j), v in d.items():
                if bad_number(v) and name not in ("bpf",):
                    ctx.check("R1", False, mod, Q, run.node(name, fn), f"[{run.mode}] entry ({i}, {j}) of the matrix under self.{KEYS[name]} is {v}: division by an exact zero",
                              construct=f"store under self.{KEYS[name]} [{run.mode}]: division by zero")
                    ok_all = False
                    break
    return ok_all


def check_point_grid(ctx: Ctx, mod, fn, repo) -> None:
    """R1, 0-d shortcut: a point grid (one cell, no faces) must get every key, with zero rows and the column count of the full arm"""
    w = tpfa_world(repo)
    nc = 1
    empty3 = np.empty((3, 0), dtype=object)
    sd = Obj("grid", dict(dim=0, num_cells=nc, num_faces=0, cell_faces=SpM.from_entries((0, nc), "csc", []), face_normals=empty3.copy(), face_centers=empty3.copy(),
                          cell_centers=oarr([sp.Symbol(f"XP{i}") for i in range(3)], (3, 1)), face_areas=np.empty(0, dtype=object), cell_volumes=oarr([1]),
                          tags={k_: np.zeros(0, dtype=bool) for k_ in ("fracture_faces", "tip_faces", "domain_boundary_faces")}),
             dict(get_all_boundary_faces=lambda: np.array([], dtype=int), get_boundary_faces=lambda: np.array([], dtype=int)))
    z = np.zeros(0, dtype=bool)
    bnd = Obj("boundary condition", dict(is_dir=z.copy(), is_neu=z.copy(), is_rob=z.copy(), is_internal=z.copy(), num_faces=0, dim=-1, bf=np.array([], dtype=int)))
    Kp = np.empty((3, 3, 1), dtype=object)
    for i in range(3):
        for j in range(3):
            Kp[i, j, 0] = sp.Symbol(f"KP{min(i, j)}{max(i, j)}")
    for amb in (None, 3):
        matd: dict = {}
        pdict = {"second_order_tensor": Obj("second order tensor", dict(values=Kp.copy(), dim=3)), "bc": bnd}
        if amb is not None:
            pdict["ambient_dimension"] = amb
        data = {w.consts["PARAMETERS"]: {"kw": pdict}, w.consts["DISCRETIZATION_MATRICES"]: {"kw": matd}}
        w.matdict = matd
        try:
            Interp(w, {}, 0, Q).invoke(fn, [sd, data], {}, Obj("self", dict(keyword="kw")), fn)
        except ModelCrash as mc:
            ctx.check("R1", False, mod, Q, mc.node if mc.node is not None else fn, f"[point grid] the assembly fails on a 0-d grid: {mc.msg}",
                      construct=f"{mc.where}: `{u(mc.node)[:110] if mc.node is not None else '?'}` raises on a point grid")
            return
        vsd = max(amb if amb is not None else 0, 1)
        want = {"flux": (0, nc), "bound_flux": (0, 0), "bpc": (0, nc), "bpf": (0, 0), "vs": (0, nc * vsd), "bpvs": (0, nc * vsd)}
        for name, shape in want.items():
            m = matd.get(w.selfattrs[KEYS[name]])
            ok = isinstance(m, SpM) and m.shape == shape
            ctx.check("R1", ok, mod, Q, w.store_nodes.get(w.selfattrs[KEYS[name]], fn),
                      f"[point grid, ambient dimension {amb}] a 0-d grid must get an empty matrix of shape {shape} under self.{KEYS[name]} (every key the full arm stores; "
                      f"columns as in the full arm); found {'nothing stored' if m is None else getattr(m, 'shape', type(m).__name__)}",
                      construct=f"store under self.{KEYS[name]} [point grid, ambient dimension {amb}]: shape")


# ---- K-orthogonal parametrisations -----------------------------------------------------------------------

def korth_subs(mesh: Mesh, f: int, halves: list, family: str, axis: int, q0: int = 0) -> tuple:
    """substitution imposing K n_out = alpha d (alpha > 0) on the listed half-faces [(cell, sign)] of face f, with the normal of f along
    coordinate `axis`.  family A: one full symmetric tensor shared by the cells (the face-to-cell vectors are NOT axis-aligned); family B: a
    different diagonal tensor per cell.  Returns (substitution, [alpha ...])."""
    sub: dict = {}
    alphas = []
    area = sp.Symbol(f"AREA{q0}", positive=True)
    n = [area if i == axis else sp.Integer(0) for i in range(3)]
    for i in range(3):
        sub[mesh.N[i, f]] = n[i]
    KA = [[sp.Symbol(f"KA{min(i, j)}{max(i, j)}") for j in range(3)] for i in range(3)]
    for i in range(3):
        KA[i][i] = sp.Symbol(f"KA{i}{i}", positive=True)
    for q, (c, s) in enumerate(halves):
        al = sp.Symbol(f"alpha{q + q0}", positive=True)
        alphas.append(al)
        Kc = KA if family == "A" else [[(sp.Symbol(f"KD{i}_{c}", positive=True) if i == j else sp.Integer(0)) for j in range(3)] for i in range(3)]
        for i in range(3):
            for j in range(3):
                sub[mesh.K[i, j, c]] = Kc[i][j]
            sub[mesh.XC[i, c]] = mesh.XF[i, f] - s * Kc[i][axis] * area / al
    return sub, alphas


FAMILY_TXT = {"A": "constant symmetric K (linear exactness)", "B": "diagonal K per cell, Cartesian geometry (agreement with MPFA, M-matrix signs)"}


def _axes(ctx: Ctx, f: int, fam: str):
    """coordinate axes along which the normal of face f is laid: all three in the thorough tier, one (varying with the face and the family) otherwise"""
    return range(3) if ctx.tier == "thorough" else ((f + (0 if fam == "A" else 1)) % 3,)


def _sub(v, sub):
    return sp.sympify(v).xreplace(sub)


def _short(v) -> str:
    s = str(v)
    return s if len(s) <= 140 else s[:137] + "..."


def _cls(run: Run, f: int) -> str:
    if f not in run.classes:
        return "periodic" if f in getattr(run, "pairs", {}) else "interior"
    kind, frac = run.classes[f]
    return ("internal boundary tagged " if frac else "") + {"dir": "Dirichlet", "neu": "Neumann"}[kind]


def check_two_point(ctx: Ctx, mod, fn, run: Run) -> None:
    """R2"""
    mesh, F, B = run.mesh, run.mats["flux"], run.mats["bound_flux"]
    for f in mesh.interior:
        halves = mesh.cells_of[f]
        for fam in ("A", "B"):
            found = None
            for axis in _axes(ctx, f, fam):
                sub, (a1, a2) = korth_subs(mesh, f, halves, fam, axis)
                T = a1 * a2 / (a1 + a2)
                for (c, s) in halves:
                    val = _sub(F.get((f, c), 0), sub)
                    if found is None and not is_zero(val - s * T):
                        found = f"normal along axis {axis}: flux[{f},{c}] = {_short(sp.factor_terms(val))} instead of {s} * a1 a2/(a1 + a2)"
            ctx.check("R2", found is None, mod, Q, run.node("flux", fn),
                      f"[{run.mode}] interior face {f}: with K n_out = alpha_i d_i on both half-faces ({FAMILY_TXT[fam]}) the flux entries must be sign * a1 a2 / (a1 + a2) "
                      f"(half transmissibility n.K.d/|d|^2 resp. |nK|/|d|, harmonic mean keyed by the face, sign of cell_faces)" + (f"; {found}" if found else ""),
                      construct=f"flux: interior face, K-orthogonal family {fam} [{run.mode}] face {f}", facts={"found": found})
    for f, (kind, frac) in sorted(run.classes.items()):
        if kind != "dir" or frac:
            continue
        (c, s), = mesh.cells_of[f]
        for fam in ("A", "B"):
            found = None
            for axis in _axes(ctx, f, fam):
                sub, (a1,) = korth_subs(mesh, f, [(c, s)], fam, axis)
                v1, v2 = _sub(F.get((f, c), 0), sub), _sub(B.get((f, f), 0), sub)
                if found is None and not (is_zero(v1 - s * a1) and is_zero(v2 + s * a1)):
                    found = f"normal along axis {axis}: flux[{f},{c}] = {_short(v1)}, bound_flux[{f},{f}] = {_short(v2)} instead of {s} * alpha, {-s} * alpha"
            ctx.check("R2", found is None, mod, Q, run.node("flux", fn),
                      f"[{run.mode}] Dirichlet face {f} (sign {s}): with K n_out = alpha d ({FAMILY_TXT[fam]}) the flux entry must be sign * alpha and the bound_flux entry "
                      f"-sign * alpha" + (f"; {found}" if found else ""),
                      construct=f"flux / bound_flux: Dirichlet face, K-orthogonal family {fam} [{run.mode}] face {f}", facts={"found": found})


def check_conservation(ctx: Ctx, mod, fn, run: Run, rule: str = "R3") -> None:
    """R3"""
    mesh, F, B = run.mesh, run.mats["flux"], run.mats["bound_flux"]
    rows: dict = {}
    for (i, j), v in F.items():
        if not is_zero(v):
            rows.setdefault(i, {})[j] = v
    pairs = getattr(run, "pairs", {})
    for f in range(mesh.nf):
        own = {c for c, _ in mesh.cells_of[f]}
        allowed = own | ({c for c, _ in mesh.cells_of[pairs[f]]} if f in pairs else set())
        supp = set(rows.get(f, {}))
        two = len(allowed) == 2
        ok = (supp == allowed and is_zero(sum(rows[f].values()))) if two else supp <= allowed
        ctx.check(rule, ok, mod, Q, run.node("flux", fn),
                  f"[{run.mode}] row {f} of the flux matrix couples cells {sorted(supp)}; "
                  + ((f"an interior (or periodic) face must couple exactly its two cells {sorted(allowed)} with entries summing to zero"
                      + ("" if ok else f" (sum = {_short(sp.factor_terms(sum(rows.get(f, {}).values(), sp.Integer(0))))})")) if two
                     else f"a boundary face may only couple its own cell {sorted(allowed)}"),
                  construct=f"flux: row support and antisymmetry [{run.mode}] face {f}")
    # symmetry of div @ flux with div = cell_faces^T of the model (each periodic face has its own row)
    A: dict = {}
    for f, c, s in mesh.half:
        for c2, v in rows.get(f, {}).items():
            A[(c, c2)] = A.get((c, c2), sp.Integer(0)) + s * v
    for c1 in range(mesh.nc):
        for c2 in range(c1 + 1, mesh.nc):
            a, b = A.get((c1, c2), sp.Integer(0)), A.get((c2, c1), sp.Integer(0))
            if a == 0 and b == 0:
                continue
            ok = is_zero(a - b)
            ctx.check(rule, ok, mod, Q, run.node("flux", fn),
                      f"[{run.mode}] div @ flux must be symmetric: entry ({c1},{c2}) - entry ({c2},{c1})" + ("" if ok else f" = {_short(sp.factor_terms(a - b))}"),
                      construct=f"div @ flux symmetric [{run.mode}] cells {c1},{c2}")
    bset = set(run.classes)
    bad = [(i, j) for (i, j), v in B.items() if (i != j or i not in bset) and not is_zero(v)]
    ctx.check(rule, not bad, mod, Q, run.node("bound_flux", fn),
              f"[{run.mode}] bound_flux must be diagonal and supported on boundary faces" + (f"; other non-zero entries at {bad[:6]}" if bad else ""),
              construct=f"bound_flux: diagonal on boundary faces [{run.mode}]")


def check_constant_state(ctx: Ctx, mod, fn, run: Run, rule: str = "R4") -> None:
    """R4"""
    mesh, F, B = run.mesh, run.mats["flux"], run.mats["bound_flux"]
    dirf = [f for f, (kind, frac) in run.classes.items() if kind == "dir" and not frac]
    for f in range(mesh.nf):
        tot = sum((v for (i, j), v in F.items() if i == f), sp.Integer(0)) + sum((B.get((f, g), sp.Integer(0)) for g in dirf), sp.Integer(0))
        ok = is_zero(tot)
        ctx.check(rule, ok, mod, Q, run.node("bound_flux" if f in run.classes else "flux", fn),
                  f"[{run.mode}] face {f} ({_cls(run, f)}): a constant pressure with matching Dirichlet data must give zero flux (flux @ 1 + bound_flux @ 1_Dirichlet)"
                  + ("" if ok else f"; found {_short(sp.factor_terms(tot))}"), construct=f"constant state: zero flux [{run.mode}] face {f} ({_cls(run, f)})")
    for f, (kind, frac) in sorted(run.classes.items()):
        if kind == "dir" and not frac:
            continue
        (c, s), = mesh.cells_of[f]
        row0 = all(is_zero(v) for (i, j), v in F.items() if i == f)
        bf = B.get((f, f), sp.Integer(0))
        ok = row0 and is_zero(bf - s)
        ctx.check(rule, ok, mod, Q, run.node("bound_flux", fn),
                  f"[{run.mode}] face {f} ({_cls(run, f)}, sign {s} in cell_faces): a Neumann / internal-boundary face must have a zero flux row and bound_flux = sign of the "
                  f"face = {s} (the datum is the flux out of the domain)" + ("" if ok else f"; found a {'zero' if row0 else 'non-zero'} row and bound_flux = {_short(bf)}"),
                  construct=f"Neumann face: zero row and bound_flux = sign [{run.mode}] face {f} ({_cls(run, f)})")


def check_trace(ctx: Ctx, mod, fn, run: Run) -> None:
    """R5"""
    mesh, C, Fm = run.mesh, run.mats["bpc"], run.mats["bpf"]
    dirf = [f for f, (kind, frac) in run.classes.items() if kind == "dir" and not frac]
    for f, (kind, frac) in sorted(run.classes.items()):
        (c, s), = mesh.cells_of[f]
        if kind == "dir" and frac:
            ctx.note(f"C12-R5 [{run.mode}] face {f}: internal boundary tagged Dirichlet - the flux part treats it as Neumann, the pressure-trace part "
                     f"reads bc.is_dir / bc.is_neu directly (bound_pressure_face = {Fm.get((f, f), 0)}, bound_pressure_cell = {C.get((f, c), 0)}); not judged")
            continue
        diag = sp.sympify(Fm.get((f, f), sp.Integer(0)))
        if bad_number(diag):
            ctx.check("R5", False, mod, Q, run.node("bpf", fn),
                      f"[{run.mode}] face {f} ({_cls(run, f)}): bound_pressure_face entry is {diag}: the reciprocal is taken of the transmissibility AFTER the Neumann rows "
                      f"were zeroed in place (the saved copy is an alias or is taken too late)", construct=f"pressure trace: reciprocal of a zeroed transmissibility [{run.mode}] face {f}")
            continue
        tot = sum((v for (i, j), v in C.items() if i == f), sp.Integer(0)) + sum((Fm.get((f, g), sp.Integer(0)) for g in dirf), sp.Integer(0))
        ok = is_zero(tot - 1)
        ctx.check("R5", ok, mod, Q, run.node("bpc", fn),
                  f"[{run.mode}] face {f} ({_cls(run, f)}): the reconstructed boundary pressure of a constant state must be that constant "
                  f"(bound_pressure_cell @ 1 + bound_pressure_face @ 1_Dirichlet = 1)" + ("" if ok else f"; found {_short(tot)}"),
                  construct=f"pressure trace: constant state [{run.mode}] face {f} ({_cls(run, f)})")
        if kind == "neu":
            found = None
            others = [(i, j) for (i, j), w_ in list(C.items()) + list(Fm.items()) if i == f and j not in (c, f) and not is_zero(w_)]
            if others or not is_zero(sp.sympify(C.get((f, c), 0)) - 1):
                found = f"bound_pressure_cell[{f},{c}] = {_short(C.get((f, c), 0))}, other entries {others[:4]}"
            for axis in _axes(ctx, f, "A"):
                sub, (a1,) = korth_subs(mesh, f, [(c, s)], "A", axis)
                v = _sub(diag, sub)
                if found is None and not is_zero(v + 1 / a1):
                    found = f"normal along axis {axis}: bound_pressure_face[{f},{f}] = {_short(v)} instead of -1/alpha"
            ctx.check("R5", found is None, mod, Q, run.node("bpf", fn),
                      f"[{run.mode}] Neumann face {f}: p_face = p_cell - g / t_half, i.e. bound_pressure_cell = 1 at the cell and bound_pressure_face = -1 / alpha under "
                      f"K n_out = alpha d, t_half being the transmissibility before the Neumann rows were zeroed" + (f"; {found}" if found else ""),
                      construct=f"pressure trace: Neumann face inverts the half-face law [{run.mode}] face {f}")


def check_hydrostatic(ctx: Ctx, mod, fn, run: Run) -> None:
    """R6"""
    mesh, vsd = run.mesh, run.vsd
    F, B, C, Fm, VS, PVS = (run.mats[k_] for k_ in ("flux", "bound_flux", "bpc", "bpf", "vs", "bpvs"))
    G = [sp.Symbol(f"G{k_}") for k_ in range(vsd)]
    pc = [sum(G[k_] * mesh.XC[k_, c] for k_ in range(vsd)) for c in range(mesh.nc)]
    pf = [sum(G[k_] * mesh.XF[k_, f] for k_ in range(vsd)) for f in range(mesh.nf)]
    dirf = [f for f, (kind, frac) in run.classes.items() if kind == "dir" and not frac]

    def apply(M, MB, MV, f):
        tot = sp.Integer(0)
        for (i, j), v in M.items():
            if i == f:
                tot += v * pc[j]
        for g in dirf:
            tot += MB.get((f, g), sp.Integer(0)) * pf[g]
        for (i, j), v in MV.items():
            if i == f:
                tot += v * G[j % vsd]
        return tot

    for f in range(mesh.nf):
        tot = apply(F, B, VS, f)
        ok = is_zero(tot)
        ctx.check("R6", ok, mod, Q, run.node("vs", fn),
                  f"[{run.mode}] face {f} ({_cls(run, f)}): the hydrostatic state p = G.x with vector source G must give zero flux "
                  f"(flux @ p + bound_flux @ p_Dirichlet + vector_source @ G; sign, face-to-cell vector and the cell-major expansion of rows / columns must agree)"
                  + ("" if ok else f"; found {_short(sp.factor_terms(tot))}"), construct=f"hydrostatic state: zero flux [{run.mode}] face {f} ({_cls(run, f)})")
    for f, (kind, frac) in sorted(run.classes.items()):
        if (kind == "dir" and frac) or bad_number(sp.sympify(Fm.get((f, f), 0))):
            continue
        tot = apply(C, Fm, PVS, f) - pf[f]
        ok = is_zero(tot)
        ctx.check("R6", ok, mod, Q, run.node("bpvs", fn),
                  f"[{run.mode}] face {f} ({_cls(run, f)}): the reconstructed boundary pressure of the hydrostatic state must be G.x_face"
                  + ("" if ok else f"; the difference is {_short(sp.factor_terms(tot))}"), construct=f"hydrostatic state: pressure trace [{run.mode}] face {f} ({_cls(run, f)})")


# ---- periodic pairs (deprecated branch; armed only while the function still reads periodic_face_map) ----------------

PERIODIC = [[6, 7], [10, 11]]     # bottom faces (sign -1) paired with top faces (sign +1) of the 2 x 2 model


def check_periodic(ctx: Ctx, mod, fn, repo) -> None:
    """R7"""
    run = interpret_tpfa(repo, "periodic", {}, {}, periodic=PERIODIC)
    run.pairs = {}
    for l, r in zip(*PERIODIC):
        run.pairs[l], run.pairs[r] = r, l
    if run.crash is not None:
        mc = run.crash
        ctx.check("R7", False, mod, Q, mc.node if mc.node is not None else fn, f"[periodic] the assembly fails on the model mesh with two periodic pairs: {mc.msg}",
                  construct=f"{mc.where}: `{u(mc.node)[:110] if mc.node is not None else '?'}` raises on the periodic model mesh")
        return
    key = run.w.selfattrs[KEYS["flux"]]
    m = run.stored.get(key)
    if not isinstance(m, SpM) or m.shape != (run.mesh.nf, run.mesh.nc):
        ctx.check("R7", False, mod, Q, fn, "[periodic] flux matrix missing or of the wrong shape", construct="periodic: flux matrix shape")
        return
    run.mats["flux"] = m.todict()
    bf = run.stored.get(run.w.selfattrs[KEYS["bound_flux"]])
    run.mats["bound_flux"] = bf.todict() if isinstance(bf, SpM) else {}
    check_conservation(ctx, mod, fn, run, "R7")
    check_constant_state(ctx, mod, fn, run, "R7")
    mesh, F = run.mesh, run.mats["flux"]
    for l, r in zip(*PERIODIC):
        (cl, sl), = mesh.cells_of[l]
        (cr, sr), = mesh.cells_of[r]
        found = None
        for fam in ("A", "B"):
            for axis in _axes(ctx, l, fam):
                sub, (a1,) = korth_subs(mesh, l, [(cl, sl)], fam, axis, 0)
                sub2, (a2,) = korth_subs(mesh, r, [(cr, sr)], fam, axis, 1)
                sub.update(sub2)
                T = a1 * a2 / (a1 + a2)
                for (row, col, want) in ((l, cl, sl * T), (l, cr, -sl * T), (r, cr, sr * T), (r, cl, -sr * T)):
                    val = _sub(F.get((row, col), 0), sub)
                    if found is None and not is_zero(val - want):
                        found = f"family {fam}, axis {axis}: flux[{row},{col}] = {_short(val)} instead of {_short(want)}"
        ctx.check("R7", found is None, mod, Q, run.node("flux", fn),
                  f"[periodic] pair ({l}, {r}): the two faces act as one interior face - own cell +sign * T, the cell of the partner face -sign * T, T the harmonic mean "
                  f"of the two half transmissibilities (each computed with its own face and cell)" + (f"; {found}" if found else ""),
                  construct=f"periodic pair ({l}, {r}): coupling and transmissibility")


# ======================================================================================================
# driver
# ======================================================================================================

MODES = [("standard", {}, {}), ("Aavatsmark", {"Aavatsmark_transmissibilities": True}, {}), ("ambient dimension 3", {}, {"ambient_dimension": 3})]


def run(ctx: Ctx) -> None:
    repo = ctx.repo
    w0 = tpfa_world(repo)
    mod = w0.mod
    fn = w0.method("discretize")
    reads_flag = any(isinstance(n, ast.Constant) and n.value == "Aavatsmark_transmissibilities" for n in ast.walk(w0.cls))
    reads_amb = any(isinstance(n, ast.Constant) and n.value == "ambient_dimension" for n in ast.walk(w0.cls))
    for mode, flags, params in MODES:
        if mode == "Aavatsmark" and not reads_flag:
            ctx.note("the Aavatsmark variant is no longer read by Tpfa: mode skipped")
            continue
        if mode.startswith("ambient") and not reads_amb:
            continue
        if mode.startswith("ambient") and ctx.tier != "thorough":
            continue
        r = interpret_tpfa(repo, mode, flags, params)
        if not check_wellformed(ctx, mod, fn, r):
            continue
        if mode != "ambient dimension 3":
            check_two_point(ctx, mod, fn, r)
            check_constant_state(ctx, mod, fn, r)
            check_trace(ctx, mod, fn, r)
        if mode == "standard" or ctx.tier == "thorough":
            check_conservation(ctx, mod, fn, r)
        if mode != "Aavatsmark":
            check_hydrostatic(ctx, mod, fn, r)
        if mode == "standard":
            (c, s), = r.mesh.cells_of[0]
            ctx.sample({"rule": "R2", "mode": mode, "flux[1,0]": _short(r.mats["flux"].get((1, 0))), "bound_flux[0,0]": _short(r.mats["bound_flux"].get((0, 0))),
                        "steps": r.w.steps})
    check_point_grid(ctx, mod, fn, repo)
    if any(isinstance(n, ast.Constant) and n.value == "periodic_face_map" for n in ast.walk(w0.cls)):
        check_periodic(ctx, mod, fn, repo)
    else:
        ctx.check("R7", True, mod, Q, fn, "Tpfa no longer reads periodic_face_map: there are no periodic pairs to judge", construct="periodic branch absent")


META = {
    "explanation": __doc__,
    "rule_text": "one obligation per (mode, stored matrix) | (mode, face, K-orthogonal family) | (mode, face row) | (mode, cell pair) | (mode, face, state)",
    "trusted_base": ["python ast", "sa.core (loader, astutil, report)",
                     "the rule's interpreter for the numpy / scipy.sparse subset used by the assembly (object arrays of sympy terms carry the values; index, "
                     "boolean and shape behaviour is numpy's own): array, zeros, ones, arange, hstack/vstack/concatenate, tile, repeat, ravel/reshape(order), "
                     "argsort, array_equal, sum, power, divide, abs, linalg.norm (2-norm), bincount(weights, minlength), logical_*, any/all, where, isin; "
                     "coo/csr/csc/dia constructors, tocsr/tocsc, .data/.indices/.indptr, row slicing, @, +, -, kron, eye, find, diagonal",
                     "sympy expand / cancel / radsimp / simplify as term normaliser; exact rational evaluation as refutation only",
                     "sparse_array_to_row_col_data(A) returns (row, col, data) of A in storage order (C21-R2); expand_indices_nd numbers nd*index + component "
                     "(C35-R9); cell_faces[f, c] = +1 iff the normal of f points out of c (C17, C21)",
                     "matrix keys are the literals FVElliptic.__init__ assigns to self.*_matrix_key"],
    "assumptions": ["the assembly is local per half-face, so the 2 x 2 incidence pattern with every face class stands for all grids (argument, not verdict)",
                    "bc flags are one-hot (C39); cell_faces of a boundary face has one entry, of an interior face two of opposite sign (C21)",
                    "K is symmetric (SecondOrderTensor); Neumann data is the flux out of the domain; vector unknowns are numbered cell-major (C21-R4)"],
    "accepted_forms": ["any rewrite inside the modelled numpy/scipy subset: renamed locals, temporaries, reordered statements, in-place vs rebinding updates, "
                       "keyword vs positional arguments, loops / comprehensions over concrete ranges",
                       "private helpers of Tpfa, module-level functions and nested functions of tpfa.py are interpreted with their arguments bound (depth <= 6)",
                       "early returns and swapped if-arms whose test is concrete on the model (sd.dim, hasattr, data.get flags, emptiness)",
                       "sps.find / tocoo / .row/.col instead of sparse_array_to_row_col_data; signs_and_cells_of_boundary_faces instead of the .data/.indices idiom",
                       "anything outside the subset, a reached raise, or a branch on symbolic data: exit 2 (undecided), never a finding"],
    "technique": "abstract interpretation of the assembly over a symbolic model mesh (extracted-formula identities; sympy as term normaliser)",
    "level_note": "Decides, for the model incidence pattern and ALL geometries / tensors on it: well-formedness, two-point consistency under K-orthogonality, "
                  "symmetry and conservation structure, the constant and hydrostatic equilibrium identities, the pressure trace.  Not decided: numerical "
                  "behaviour on a concrete grid, M-matrix property off K-orthogonal grids, agreement with the MPFA code, other incidence patterns.",
}
MIN_INSTANCES = {"R1": 24, "R2": 28, "R3": 17, "R4": 34, "R5": 22, "R6": 19, "R7": 1}


def _m(name, old, new, rule, control=False, count=1, accept_undecided=False):
    return dict(name=name, file=TPFA, old=old, new=new, rule=rule, control=control, count=count, accept_undecided=accept_undecided)


MUTANTS = [
    # ---- index spaces of the half-face triple
    _m("perm-gathered-with-face-index", "perm = k.values[::, ::, ci]", "perm = k.values[::, ::, fi]", "R1", control=True),
    _m("normals-gathered-with-cell-index", "n = sd.face_normals[:, fi]", "n = sd.face_normals[:, ci]", "R2"),
    _m("face-centres-gathered-with-cell-index", "fc_cc = sd.face_centers[::, fi] - sd.cell_centers[::, ci]", "fc_cc = sd.face_centers[::, ci] - sd.cell_centers[::, ci]", "R2"),
    _m("bincount-over-cell-index", "t = 1 / np.bincount(fi_periodic, weights=1 / t_face)", "t = 1 / np.bincount(ci_periodic, weights=1 / t_face)", "R1"),
    # ---- half transmissibility and averaging
    _m("normal-not-oriented", "        n *= sgn\n", "", "R2"),
    _m("distance-not-squared", "dist_face_cell = np.power(fc_cc, 2).sum(axis=0)", "dist_face_cell = np.sqrt(np.power(fc_cc, 2).sum(axis=0))", "R2"),
    _m("arithmetic-mean", "t = 1 / np.bincount(fi_periodic, weights=1 / t_face)", "t = np.bincount(fi_periodic, weights=t_face) / np.bincount(fi_periodic)", "R2", control=True),
    _m("harmonic-mean-outer-reciprocal-dropped", "t = 1 / np.bincount(fi_periodic, weights=1 / t_face)", "t = np.bincount(fi_periodic, weights=1 / t_face)", "R2"),
    _m("aavatsmark-mixes-squared-distance", "            dist_face_cell = np.linalg.norm(fc_cc, 2, axis=0)\n", "            dist_face_cell = np.power(fc_cc, 2).sum(axis=0)\n", "R2"),
    _m("tensor-contracted-with-distance-only", "        nk = perm * n\n", "        nk = perm * fc_cc\n", "R2"),
    # ---- flux matrix: sign and pairing
    _m("flux-entries-without-sign", "(t[fi_periodic] * sgn_periodic, (fi_periodic, ci_periodic))\n        ).tocsr()", "(t[fi_periodic], (fi_periodic, ci_periodic))\n        ).tocsr()", "R3"),
    _m("flux-sign-flipped", "(t[fi_periodic] * sgn_periodic, (fi_periodic, ci_periodic))\n        ).tocsr()", "(-t[fi_periodic] * sgn_periodic, (fi_periodic, ci_periodic))\n        ).tocsr()", "R2"),
    # ---- boundary algebra
    _m("dirichlet-bound-flux-sign", "t_b[is_dir] = -t[is_dir]", "t_b[is_dir] = t[is_dir]", "R4"),
    _m("neumann-bound-flux-sign", "t_b[is_neu] = 1\n", "t_b[is_neu] = -1\n", "R4"),
    _m("neumann-rows-not-zeroed", "        t[is_neu] = 0\n", "", "R4"),
    _m("internal-boundaries-not-neumann", "is_neu = np.logical_or(bnd.is_neu, bnd.is_internal)", "is_neu = bnd.is_neu", "R4"),
    _m("boundary-faces-without-internal-boundaries", "bndr_ind = sd.get_all_boundary_faces()", "bndr_ind = sd.get_boundary_faces()", "R4"),
    _m("boundary-signs-not-sorted-to-face-order", "bndr_sgn = bndr_sgn[sort_id]", "bndr_sgn = bndr_sgn[np.argsort(sort_id)]", "R4"),
    _m("boundary-signs-unsorted", "        bndr_sgn = bndr_sgn[sort_id]\n", "", "R4"),
    _m("dirichlet-zeroed-instead-of-neumann", "        t[is_neu] = 0\n", "        t[is_dir] = 0\n", "R4"),
    # ---- pressure trace
    _m("t-full-aliases-t", "t_full = t.copy()", "t_full = t", "R5"),
    dict(name="t-full-saved-after-zeroing", rule="R5", control=False, file=TPFA, old="", new="", edits=[
        dict(file=TPFA, old="        t_full = t.copy()\n", new="", count=1),
        dict(file=TPFA, old="        t[is_neu] = 0\n", new="        t[is_neu] = 0\n        t_full = t.copy()\n", count=1)]),
    _m("neumann-trace-sign", "v_face[bnd.is_neu] = -1 / t_full[bnd.is_neu]", "v_face[bnd.is_neu] = 1 / t_full[bnd.is_neu]", "R5"),
    _m("trace-cell-mask-by-cell-index", "v_cell[bnd.is_neu[fi]] = 1", "v_cell[bnd.is_neu[ci]] = 1", "*"),
    _m("trace-dirichlet-face-dropped", "        v_face[bnd.is_dir] = 1\n", "", "R5"),
    _m("point-grid-vector-source-columns", "            matrix_dictionary[self.vector_source_matrix_key] = sps.csr_matrix(\n                (0, sd.num_cells * max(vector_source_dim, 1))\n            )",
       "            matrix_dictionary[self.vector_source_matrix_key] = sps.csr_matrix(\n                (0, sd.num_cells)\n            )", "R1"),
    _m("trace-matrices-swapped-on-store", "matrix_dictionary[self.bound_pressure_cell_matrix_key] = bound_pressure_cell\n        matrix_dictionary[self.bound_pressure_face_matrix_key] = bound_pressure_face",
       "matrix_dictionary[self.bound_pressure_cell_matrix_key] = bound_pressure_face\n        matrix_dictionary[self.bound_pressure_face_matrix_key] = bound_pressure_cell", "R1"),
    # ---- vector source
    _m("vector-source-rows-component-major", 'rows = np.tile(fi_periodic, (vector_source_dim, 1)).ravel("F")', 'rows = np.tile(fi_periodic, (vector_source_dim, 1)).ravel("C")', "R6"),
    _m("vector-source-values-component-major", '[:vector_source_dim].ravel("f")', '[:vector_source_dim].ravel("c")', "R6"),
    _m("vector-source-without-sign", "vals = (t[fi_periodic] * fc_cc * sgn_periodic)[:vector_source_dim]", "vals = (t[fi_periodic] * fc_cc)[:vector_source_dim]", "R6"),
    _m("vector-source-columns-by-face", "cols = pp.array_operations.expand_indices_nd(ci_periodic, vector_source_dim)", "cols = pp.array_operations.expand_indices_nd(fi_periodic, vector_source_dim)", "*"),
    _m("trace-vector-source-sign", "vals[:, bnd.is_neu[fi]] = fc_cc[:vector_source_dim, bnd.is_neu[fi]]", "vals[:, bnd.is_neu[fi]] = -fc_cc[:vector_source_dim, bnd.is_neu[fi]]", "R6"),
    # ---- periodic pairs
    _m("periodic-left-cells-with-left-faces", "ci_periodic = np.hstack((ci_g, ci_right, ci_left))", "ci_periodic = np.hstack((ci_g, ci_left, ci_right))", "R7"),
    _m("periodic-sign-not-negated", "sgn_periodic = np.hstack((sgn_g, -left_sgn, -right_sgn))", "sgn_periodic = np.hstack((sgn_g, left_sgn, right_sgn))", "R7"),
    _m("periodic-transmissibility-wrong-face", "fi = np.hstack((fi_g, fi_right, fi_left))", "fi = np.hstack((fi_g, fi_left, fi_right))", "R7"),
]
