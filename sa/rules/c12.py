"""C12 - TPFA is symmetric, conservative, and exact on K-orthogonal grids: identities of the EXTRACTED assembly.

Tpfa.discretize is a straight-line numpy/scipy program over the half-face triple (face, cell, sign) of
sd.cell_faces.  Its syntax tree is abstractly interpreted (nothing of porepy is imported or run; the rule's own
interpreter walks the AST) on a MODEL MESH: the incidence pattern of a 2 x 2 Cartesian grid - 4 cells, 12 faces,
16 half-faces, all three sizes different, every face class present (interior; Dirichlet / Neumann / internal
(fracture) boundary faces of both orientations) - with a fully SYMBOLIC geometry (normals, face and cell centres),
a symbolic symmetric tensor per cell and symbolic data.  The stored matrices are therefore sympy terms, valid for
every geometry and tensor on that incidence pattern; sympy only normalises the extracted terms.  The clauses are
stated on the matrices stored under the keys of FVElliptic, never on local names or statement positions.

R1  well-formed assembly   interpreting the assembly on the model mesh raises no index / shape error (a cell-indexed
                           array gathered with face indices, a bincount keyed by the wrong index, rows/cols of a
                           coo matrix of different length ...) and every matrix is stored under its key with the
                           shape its readers expect.
R2  two-point consistency  under local K-orthogonality (K n_out = alpha d on each half-face, alpha > 0) the flux
                           entries of an interior face are  sign * a1 a2 / (a1 + a2)  (half transmissibility
                           n.K.d/|d|^2 and its harmonic mean; the Aavatsmark variant |nK|/|d| is checked the same
                           way), those of a Dirichlet face are sign * alpha with bound_flux = -sign * alpha.
                           Two sub-families that are literally in the property: constant symmetric K (linear
                           exactness) and heterogeneous diagonal K with axis-aligned normals (agreement with MPFA
                           on Cartesian grids, M-matrix signs).
R3  conservation           for the unconstrained symbolic mesh: an interior-face row of `flux` has exactly the two
                           neighbour cells, entries summing to zero; a boundary row only its cell; div @ flux
                           (div = cell_faces^T of the model) is symmetric; bound_flux is diagonal and supported on
                           boundary faces.
R4  constant state         a constant pressure with matching Dirichlet data gives zero flux on EVERY face (interior:
                           row sum; Dirichlet: flux row + bound_flux entry cancel); Neumann and internal-boundary
                           faces have a zero flux row and bound_flux = sign of the face in cell_faces.
R5  pressure trace         bound_pressure_cell / bound_pressure_face reproduce the constant state on the boundary;
                           on a Neumann face the face coefficient is -1 / t with t the transmissibility BEFORE the
                           Neumann rows were zeroed (a dropped copy gives 1/0), = -1/alpha under K-orthogonality.
R6  vector source          hydrostatic state p = c + G.x with vector source G: zero flux on every face and the
                           reconstructed boundary pressure is c + G.x_face (sign, face-to-cell vector, and the
                           cell-major nd-expansion of rows/columns agree).  This clause concerns the vector_source
                           matrices of the same function; it is the linear-exactness clause in the presence of gravity.
R7  periodic pairs         (only while the deprecated periodic_face_map branch exists) a periodic pair of faces acts as
                           one interior face: left cell coupled to the right face's cell with negated sign, one
                           transmissibility (harmonic mean over the pair), zero row sums.

Not decided: anything about a concrete grid (floating point, degenerate geometry, t <= 0 on bad grids), the M-matrix
property off K-orthogonal grids, agreement with the MPFA *code*, linear exactness as a run-time fact, incidence
patterns other than the model's (the assembly is local per half-face and the model contains every face class, but
generality over topologies is an argument, not a verdict), Robin faces (not supported by Tpfa).
"""
from __future__ import annotations

import ast
import itertools
from typing import Any, Callable, Optional

import numpy as np
import sympy as sp

from ..core.astutil import u, dotted, methods, body_nodoc
from ..core.loader import AnchorError, Undecided
from ..core.report import Ctx

TPFA = "src/porepy/numerics/fv/tpfa.py"
FVE = "src/porepy/numerics/fv/fv_elliptic.py"
CONSTS = "src/porepy/utils/common_constants.py"


# ======================================================================================================
# values of the abstract interpreter
# ======================================================================================================

class Unknown:
    """a value the interpreter does not model (data-dependent choice); it poisons what it flows into"""

    def __init__(self, why: str = ""):
        self.why = why

    def __repr__(self):
        return f"Unknown({self.why})"


class ModelCrash(Exception):
    """the interpreted code raises an index / shape error on the model mesh (numpy itself raised it on arrays of the
    real shapes): a positively recognised wrong form, reported as a finding"""

    def __init__(self, msg: str, node: Optional[ast.AST] = None, where: str = ""):
        super().__init__(msg)
        self.msg, self.node, self.where = msg, node, where


class _Return(Exception):
    def __init__(self, value):
        self.value = value


class Obj:
    """a model object: attributes + methods implemented by the model (grid, tensor, boundary condition, dataclass)"""

    def __init__(self, kind: str, attrs: Optional[dict] = None, meths: Optional[dict] = None):
        self.kind, self.attrs, self.meths = kind, dict(attrs or {}), dict(meths or {})

    def __repr__(self):
        return f"<{self.kind}>"


class Closure:
    def __init__(self, fn: ast.FunctionDef, env: dict, interp: "Interp"):
        self.fn, self.env, self.interp = fn, env, interp


def oarr(seq, shape=None) -> np.ndarray:
    """object array of sympy terms"""
    seq = list(seq)
    out = np.empty(len(seq), dtype=object)
    for i, v in enumerate(seq):
        out[i] = sp.sympify(v)
    return out.reshape(shape) if shape is not None else out


def _symb(a: np.ndarray) -> np.ndarray:
    """numeric array -> object array of sympy numbers (bool arrays are left alone)"""
    if a.dtype == object:
        return a
    out = np.empty(a.shape, dtype=object)
    flat = out.reshape(-1)
    for i, v in enumerate(a.reshape(-1)):
        flat[i] = sp.Integer(int(v)) if float(v).is_integer() else sp.nsimplify(float(v), rational=True)
    return out


def _sym_scalar(v):
    if isinstance(v, (bool, np.bool_)):
        return v
    if isinstance(v, (int, np.integer)):
        return sp.Integer(int(v))
    if isinstance(v, (float, np.floating)):
        return sp.nsimplify(float(v), rational=True)
    return v


# ------------------------------------------------------------------------------------------------------
# sparse matrices: compressed / coordinate / diagonal storage with explicit entries, as scipy keeps them
# ------------------------------------------------------------------------------------------------------

class SpM:
    """model of a scipy sparse matrix.  fmt csr/csc: (data, indices, indptr); coo: (row, col, data), duplicates allowed;
    dia: main diagonal only.  Explicit zeros are kept exactly where scipy keeps them (dia -> other formats drops them)."""

    def __init__(self, shape, fmt, **kw):
        self.shape = (int(shape[0]), int(shape[1]))
        self.fmt = fmt
        if fmt in ("csr", "csc"):
            self.data, self.indices, self.indptr = kw["data"], np.asarray(kw["indices"], dtype=int), np.asarray(kw["indptr"], dtype=int)
        elif fmt == "coo":
            self.row, self.col, self.data = np.asarray(kw["row"], dtype=int), np.asarray(kw["col"], dtype=int), kw["data"]
        elif fmt == "dia":
            self.diag = kw["diag"]
        else:
            raise Undecided(f"sparse format {fmt}")

    # ---- construction
    @staticmethod
    def from_entries(shape, fmt, ents, sum_dups=True) -> "SpM":
        """ents: list of (i, j, v) in storage order"""
        m, n = int(shape[0]), int(shape[1])
        for i, j, _ in ents:
            if not (0 <= i < m and 0 <= j < n):
                raise ModelCrash(f"sparse matrix of shape {(m, n)} receives an entry at ({i}, {j})")
        if fmt == "coo":
            return SpM(shape, "coo", row=[e[0] for e in ents], col=[e[1] for e in ents], data=oarr([e[2] for e in ents]))
        if fmt == "dia":
            d = [sp.Integer(0)] * min(m, n)
            for i, j, v in ents:
                if i != j:
                    raise Undecided("dia matrix with an off-diagonal entry")
                d[i] = d[i] + v
            return SpM(shape, "dia", diag=oarr(d))
        acc: dict = {}
        order = []
        for i, j, v in ents:
            k = (i, j)
            if k in acc:
                if not sum_dups:
                    raise Undecided("duplicate entries in compressed storage")
                acc[k] = acc[k] + v
            else:
                acc[k] = v
                order.append(k)
        major = (lambda k: (k[0], k[1])) if fmt == "csr" else (lambda k: (k[1], k[0]))
        keys = sorted(order, key=major)
        nmaj = m if fmt == "csr" else n
        indptr = np.zeros(nmaj + 1, dtype=int)
        for k in keys:
            indptr[(k[0] if fmt == "csr" else k[1]) + 1] += 1
        indptr = np.cumsum(indptr)
        return SpM(shape, fmt, data=oarr([acc[k] for k in keys]), indices=[(k[1] if fmt == "csr" else k[0]) for k in keys], indptr=indptr)

    def entries(self) -> list:
        """(i, j, v) in storage order (explicit zeros included, except for dia where zeros are not entries)"""
        if self.fmt == "coo":
            return [(int(i), int(j), v) for i, j, v in zip(self.row, self.col, self.data)]
        if self.fmt == "dia":
            return [(i, i, v) for i, v in enumerate(self.diag) if not (v == 0)]
        out = []
        for a in range(len(self.indptr) - 1):
            for p in range(self.indptr[a], self.indptr[a + 1]):
                b = int(self.indices[p])
                out.append((a, b, self.data[p]) if self.fmt == "csr" else (b, a, self.data[p]))
        return out

    def to(self, fmt: str) -> "SpM":
        if fmt == self.fmt:
            return self.copy()
        return SpM.from_entries(self.shape, fmt, self.entries(), sum_dups=True)

    def copy(self) -> "SpM":
        if self.fmt == "coo":
            return SpM(self.shape, "coo", row=self.row.copy(), col=self.col.copy(), data=self.data.copy())
        if self.fmt == "dia":
            return SpM(self.shape, "dia", diag=self.diag.copy())
        return SpM(self.shape, self.fmt, data=self.data.copy(), indices=self.indices.copy(), indptr=self.indptr.copy())

    def todict(self) -> dict:
        d: dict = {}
        for i, j, v in self.entries():
            d[(i, j)] = d.get((i, j), sp.Integer(0)) + v
        return d

    # ---- algebra
    def transpose(self) -> "SpM":
        if self.fmt == "coo":
            return SpM(self.shape[::-1], "coo", row=self.col.copy(), col=self.row.copy(), data=self.data.copy())
        if self.fmt == "dia":
            return SpM(self.shape[::-1], "dia", diag=self.diag.copy())
        return SpM(self.shape[::-1], "csc" if self.fmt == "csr" else "csr", data=self.data.copy(), indices=self.indices.copy(), indptr=self.indptr.copy())

    def _rows(self) -> dict:
        r: dict = {}
        for i, j, v in self.to("csr").entries() if self.fmt != "csr" else self.entries():
            r.setdefault(i, []).append((j, v))
        return r

    def matmul(self, other):
        if isinstance(other, SpM):
            if self.shape[1] != other.shape[0]:
                raise ModelCrash(f"matrix product of shapes {self.shape} and {other.shape}")
            rb = other._rows()
            acc: dict = {}
            order = []
            for i, k, a in (self.to("csr").entries() if self.fmt != "csr" else self.entries()):
                for j, b in rb.get(k, ()):
                    if (i, j) in acc:
                        acc[(i, j)] = acc[(i, j)] + a * b
                    else:
                        acc[(i, j)] = a * b
                        order.append((i, j))
            return SpM.from_entries((self.shape[0], other.shape[1]), "csr", [(i, j, acc[(i, j)]) for i, j in order])
        if isinstance(other, np.ndarray):
            if other.ndim != 1 or other.shape[0] != self.shape[1]:
                raise ModelCrash(f"matrix-vector product of shapes {self.shape} and {other.shape}")
            out = [sp.Integer(0)] * self.shape[0]
            for i, j, v in self.entries():
                out[i] = out[i] + v * other[j]
            return oarr(out)
        raise Undecided("sparse matrix multiplied with an unmodelled value")

    def add(self, other: "SpM", sign=1) -> "SpM":
        if self.shape != other.shape:
            raise ModelCrash(f"sum of sparse matrices of shapes {self.shape} and {other.shape}")
        ents = list(self.to("csr").entries()) + [(i, j, sign * v) for i, j, v in other.to("csr").entries()]
        return SpM.from_entries(self.shape, "csr", ents)

    def scale(self, c) -> "SpM":
        r = self.copy()
        if r.fmt == "dia":
            r.diag = r.diag * c
        else:
            r.data = r.data * c
        return r

    def diagonal(self) -> np.ndarray:
        d = [sp.Integer(0)] * min(self.shape)
        for i, j, v in self.entries():
            if i == j:
                d[i] = d[i] + v
        return oarr(d)

    def take_rows(self, idx) -> "SpM":
        idx = [int(i) for i in idx]
        for i in idx:
            if not (-self.shape[0] <= i < self.shape[0]):
                raise ModelCrash(f"row index {i} out of range for a sparse matrix with {self.shape[0]} rows")
        rows = self._rows()
        ents = [(new, j, v) for new, old in enumerate(idx) for j, v in rows.get(old % self.shape[0], ())]
        fmt = self.fmt if self.fmt in ("csr", "csc") else "csr"
        return SpM.from_entries((len(idx), self.shape[1]), fmt, ents)

    def take_cols(self, idx) -> "SpM":
        return self.transpose().take_rows(idx).transpose()

    def find(self):
        c = self.to("csr")          # canonical C-order, duplicates summed (scipy >= 1.13: coo.sum_duplicates sorts rows, then cols)
        ents = [(i, j, v) for i, j, v in c.entries() if not (v == 0)]
        return (np.array([e[0] for e in ents], dtype=int), np.array([e[1] for e in ents], dtype=int), oarr([e[2] for e in ents]))


def kron(a: SpM, b: SpM, fmt: Optional[str]) -> SpM:
    ea, eb = a.to("coo").entries(), b.to("coo").entries()
    mb, nb = b.shape
    ents = [(i * mb + k, j * nb + l, v * w) for i, j, v in ea for k, l, w in eb]
    return SpM.from_entries((a.shape[0] * mb, a.shape[1] * nb), fmt or "coo", ents)


# ======================================================================================================
# the model mesh
# ======================================================================================================

class Mesh:
    """incidence pattern of a small Cartesian grid with symbolic geometry.  half = [(face, cell, sign)] in the storage
    order of a csc cell_faces matrix (cell by cell, faces ascending) - the order sparse_array_to_row_col_data returns."""

    def __init__(self, dim: int, shape: tuple):
        self.dim = dim
        dims = list(shape) + [1] * (3 - len(shape))
        nx, ny, nz = dims
        self.nc = nx * ny * nz
        cell = lambda i, j, k: (k * ny + j) * nx + i
        trip = []
        nf = 0
        for axis in range(dim):
            ext = [nx, ny, nz]
            ext[axis] += 1
            for k in range(ext[2]):
                for j in range(ext[1]):
                    for i in range(ext[0]):
                        pos = [i, j, k]
                        lo = list(pos)
                        lo[axis] -= 1
                        if pos[axis] > 0:
                            trip.append((nf, cell(*lo), 1))
                        if pos[axis] < dims[axis]:
                            trip.append((nf, cell(*pos), -1))
                        nf += 1
        self.nf = nf
        self.half = sorted(trip, key=lambda t: (t[1], t[0]))
        self.cells_of = {f: [(c, s) for f2, c, s in self.half if f2 == f] for f in range(nf)}
        self.boundary = [f for f in range(nf) if len(self.cells_of[f]) == 1]
        self.interior = [f for f in range(nf) if len(self.cells_of[f]) == 2]
        real = dict(real=True)
        self.N = oarr([sp.Symbol(f"N{i}_{f}", **real) for i in range(3) for f in range(nf)], (3, nf))
        self.XF = oarr([sp.Symbol(f"XF{i}_{f}", **real) for i in range(3) for f in range(nf)], (3, nf))
        self.XC = oarr([sp.Symbol(f"XC{i}_{c}", **real) for i in range(3) for c in range(self.nc)], (3, self.nc))
        self.A = oarr([sp.Symbol(f"A_{f}", positive=True) for f in range(nf)])
        self.V = oarr([sp.Symbol(f"V_{c}", positive=True) for c in range(self.nc)])
        self.K = np.empty((3, 3, self.nc), dtype=object)
        for c in range(self.nc):
            for i in range(3):
                for j in range(3):
                    a, b = min(i, j), max(i, j)
                    self.K[i, j, c] = sp.Symbol(f"K{a}{b}_{c}", real=True)

    def cell_faces(self) -> SpM:
        return SpM.from_entries((self.nf, self.nc), "csc", [(f, c, sp.Integer(s)) for f, c, s in self.half])

    def grid(self, fracture=(), periodic=None) -> Obj:
        """the object playing the role of `sd`"""
        tags = {"fracture_faces": np.array([f in fracture for f in range(self.nf)]),
                "tip_faces": np.zeros(self.nf, dtype=bool),
                "domain_boundary_faces": np.array([f in self.boundary and f not in fracture for f in range(self.nf)])}
        if periodic is not None:
            for f in np.asarray(periodic).ravel():
                tags["domain_boundary_faces"][int(f)] = False
        allb = np.array([f for f in range(self.nf) if any(tags[t][f] for t in tags)], dtype=int)

        def signs_and_cells(faces):
            faces = np.asarray(faces, dtype=int)
            for f in faces:
                if len(self.cells_of[int(f)]) != 1:
                    raise Undecided("signs_and_cells_of_boundary_faces called with an interior face")
            return (oarr([self.cells_of[int(f)][0][1] for f in faces]), np.array([self.cells_of[int(f)][0][0] for f in faces], dtype=int))

        attrs = dict(dim=self.dim, num_cells=self.nc, num_faces=self.nf, cell_faces=self.cell_faces(), face_normals=self.N.copy(),
                     face_centers=self.XF.copy(), cell_centers=self.XC.copy(), face_areas=self.A.copy(), cell_volumes=self.V.copy(), tags=tags)
        if periodic is not None:
            attrs["periodic_face_map"] = np.asarray(periodic, dtype=int)
        meths = dict(get_all_boundary_faces=lambda: allb.copy(),
                     get_boundary_faces=lambda: np.array([f for f in range(self.nf) if tags["domain_boundary_faces"][f]], dtype=int),
                     get_internal_faces=lambda: np.array([f for f in range(self.nf) if f not in set(allb.tolist())], dtype=int),
                     signs_and_cells_of_boundary_faces=signs_and_cells)
        return Obj("grid", attrs, meths)


# @@PART2@@
