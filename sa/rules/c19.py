"""C19 - computed grid geometry satisfies the divergence theorem: extracted-formula identities on symbolic grids.

The geometry kernels Grid._compute_geometry_1d/_2d/_3d (entered through Grid.compute_geometry) are array programs.
They are interpreted - statement by statement, from the AST of the CURRENT source, never imported or run - over
numpy object arrays of sympy terms on a handful of SMALL GRIDS WITH FIXED CONNECTIVITY AND SYMBOLIC NODE
COORDINATES (a line with four nodes numbered out of order in a general direction and a mixed sign pattern; a convex
quadrilateral plus a triangle in a general plane z = o + p x + q y of 3-space - once with consistently oriented faces,
once with two faces listed against the cell loops so that the plane fit and the convex fall-back run, once with an
additional disconnected clockwise triangle so that orientation check 3/3 fires, in the thorough tier also mirrored;
a pyramid over a planar quadrilateral plus a tetrahedron).  Terms are kept in a rational normal form over a sparse
polynomial ring (sympy.polys.rings, used only as term normaliser); square roots become "norm symbols" L with
L**2 = radicand (square-free decomposition by gcd with the partial derivatives), so every identity is decided as a
polynomial identity.  Data-dependent decisions of the code (argmax, sign, comparisons, orientation fall-backs) are taken as
they fall on a few exact rational placements of the nodes inside the family (all must agree, otherwise the
analysis refuses); a finding is only reported when the symbolic residual is non-zero AND its value at such a
placement is non-zero, i.e. every finding comes with concrete node coordinates on which the extracted formulas
violate the identity.

R1  closure             for every cell  sum_f sign(f,c) * n_f == 0
R2  normal = area       |n_f|**2 == area_f**2 for every face; the area is the measure of the face (distance of the two
                        nodes / area of the triangle spanned by the three nodes / 1 for a point)
R3  outward             (x_f - x_c) . (sign(f,c) * n_f) > 0 for every half-face (decided at the placements)
R4  divergence          for every cell  sum_f sign * (x_f - p).n_f == dim * V_c  (p the mean of the cell's nodes: a point of the grid's
                        line / plane on no face), V_c > 0, and the simplex cells have the simplex measure
R5  centroid            for every cell  sum_f sign * ((x_f - p).n_f) * (x_f - p) == (dim + 1) * V_c * (x_c - p)
R6  totality            on these valid grids the kernel neither raises nor gathers/accumulates an array with an index
                        array of another index space (sizes of the node/face/cell/half-face/edge spaces are pairwise
                        distinct on the instances, so a mis-keyed gather or bincount is a shape contradiction)

R7  decisions / scale   every data-dependent decision taken on the way (comparison, tolerance test, isclose, argmax key, sign pulled
                        out of a square root) is logged with its deciding term while the kernel is evaluated on s * X with a
                        symbolic s > 0; a term that is not homogeneous in s compares quantities of different physical dimension:
                        a decade s* (1e-9 .. 1e9) at which it falls the other way is searched and R1-R6 are decided on the
                        instance scaled by s* and by the next decade; only a failure THERE is a finding (documented absolute
                        tolerances that never flip an outcome on a valid instance stay notes)
R8  constructor         CartGrid.__init__ is interpreted, for every documented form of (nx, physdims) and symbolic box limits, up to
                        its call of the TensorGrid constructor: the k-th coordinate array has nx[k] + 1 equidistant entries from
                        the requested minimum to the requested maximum

Not decided: other connectivities than the instances (the formulas are taken to be connectivity-generic), values on
any concrete grid, positivity of volumes for all valid grids, the behaviour of the tolerance branches beyond R7 (only
the arm taken on the placements and on the scaled instances is followed), non-convex cells in the fall-back,
non-planar faces, round-off, the 0-d kernel (constants); of the constructors only the node coordinates that CartGrid
hands to TensorGrid: TensorGrid's own node/face/cell numbering (structured.py) and the simplex constructors
(simplex.py: Delaunay, connectivity from cell lists) are not examined.
"""
from __future__ import annotations

import ast
import itertools
import time as _time
from typing import Optional

import numpy as np
import sympy as sp
from sympy.polys.domains import QQ as _QQ

from ..core.astutil import u, dotted, methods, body_nodoc
from ..core.loader import AnchorError, Undecided
from ..core.report import Ctx

GRID = "src/porepy/grids/grid.py"
MAPG = "src/porepy/geometry/map_geometry.py"
MATOP = "src/porepy/numerics/linalg/matrix_operations.py"

META = {
    "explanation": __doc__,
    "rule_text": "one obligation per (instance, cell | face | half-face) identity; R6, R7 one per instance; R8 one per (form of the constructor "
                 "arguments, axis)",
    "trusted_base": ["python ast", "sa.core", "sympy expand/together/sqf_list as term normaliser",
                     "the small numpy/scipy.sparse evaluator of this module (object arrays of sympy terms; csc/csr/coo storage "
                     "order modelled; sparse products drop exact zeros as scipy does)",
                     "rldecode(A, n) == np.repeat(A, n) (decided by C35); sparse_array_to_row_col_data == stored (row, col, data) "
                     "in storage order"],
    "assumptions": ["the formulas are connectivity-generic: identities are proved on the fixed small instances, for all node "
                    "coordinates of an open set of the instance family",
                    "norm symbols with distinct square-free radicands are algebraically independent (otherwise the analysis "
                    "refuses, it never reports)"],
    "accepted_forms": ["any rewrite inside the evaluator's vocabulary gives the same terms: renamed locals, temporaries, in-place "
                       "ops vs rebinding, helper closures / private methods / module functions (interpreted with bound arguments, "
                       "keyword or positional), loops vs vectorised forms, early returns, swapped arms"],
    "technique": "abstract interpretation of the array kernels to closed-form terms on small symbolic grids (sympy as term "
                 "normaliser, norm symbols for square roots); identities of the property decided as polynomial identities",
}
MIN_INSTANCES = {"R1": 12, "R2": 66, "R3": 39, "R4": 32, "R5": 12, "R6": 5, "R7": 4, "R8": 21}


# ======================================================================================================
#  symbolic family: symbols, exact rational placements, norm symbols
# ======================================================================================================

class _IsNaN(Exception):
    pass


class KernelRaises(Exception):
    """the interpreted code raises on the (valid) instance"""

    def __init__(self, what: str, node=None):
        super().__init__(what)
        self.what, self.node = what, node


class ShapeFault(Exception):
    """a gather / accumulation / elementwise operation whose operands live on different index spaces of the instance"""

    def __init__(self, what: str, node=None):
        super().__init__(what)
        self.what, self.node = what, node


class NaNTerm:
    """result of a division by the zero term: numpy yields nan / inf (with a warning) and carries on; so does the evaluator"""

    def _same(self, *a):
        return self

    __add__ = __radd__ = __sub__ = __rsub__ = __mul__ = __rmul__ = __truediv__ = __rtruediv__ = __pow__ = __rpow__ = _same
    __neg__ = __pos__ = __abs__ = _same

    def __eq__(self, o):
        return False

    def __ne__(self, o):
        return True

    def __hash__(self):
        return 7

    def __bool__(self):
        return True

    def __repr__(self):
        return "nan"


NAN = NaNTerm()


class T:
    """a term of the instance family in rational normal form:  p / prod(key**e)  with p a sparse polynomial over QQ in the base
    symbols and the norm symbols (degree <= 1 in every norm symbol), keys primitive polynomials with positive value at the placements
    are NOT required - only that they do not vanish there"""
    __slots__ = ("fam", "p", "den", "_h", "_ls")

    def __init__(self, fam, p, den=None, ls=None):
        self.fam, self.p = fam, p
        self.den = den if (den and p != 0) else {}
        self._h = None
        self._ls = ls      # superset of the norm symbols occurring in p (None: not yet scanned)

    @property
    def ls(self):
        if self._ls is None:
            self._ls = self.fam.lset(self.p)
        return self._ls

    def simplify(self):
        """cancel denominator keys that divide the numerator (a norm symbol L in the denominator against its radicand in the numerator)"""
        if not self.den or self.p.is_ground:
            return self
        fam = self.fam
        p, den, changed = self.p, dict(self.den), False
        for k in list(den):
            i = fam.norm_index(k)
            while den.get(k, 0) > 0:
                if i is not None:
                    q = fam.try_div(p, k)
                    if q is not None:
                        p = q
                    else:
                        q = fam.try_div(p, fam.rad[i])
                        if q is None:
                            break
                        p = q * fam.gens[i]
                else:
                    q = fam.try_div(p, k)
                    if q is None:
                        break
                    p = q
                changed = True
                den[k] -= 1
                if not den[k]:
                    del den[k]
        if not changed:
            return self
        return T(fam, fam.reduce_p(p), den)

    # -- coercion ----------------------------------------------------------------------------------
    def _co(self, o):
        if isinstance(o, NaNTerm):
            raise _IsNaN()
        if isinstance(o, T):
            if o.fam is not self.fam:
                raise Undecided("C19: terms of two instance families combined")
            return o
        return self.fam.const(o)

    def __hash__(self):
        if self._h is None:
            self._h = hash((self.p, frozenset(self.den.items())))
        return self._h

    def __eq__(self, o):
        try:
            o = self._co(o)
        except (Undecided, TypeError):
            return NotImplemented
        return (self - o).p == 0

    def __ne__(self, o):
        r = self.__eq__(o)
        return r if r is NotImplemented else not r

    def __bool__(self):
        return self.p != 0

    @property
    def is_number(self):
        return not self.den and self.p.is_ground

    def number(self):
        c = self.p.LC if self.p != 0 else 0
        return sp.Rational(int(c.numerator), int(c.denominator)) if self.p != 0 else sp.Integer(0)

    def __repr__(self):
        s = str(self.p.as_expr())
        if self.den:
            s = f"({s})/(" + "*".join(f"({k.as_expr()})**{e}" for k, e in self.den.items()) + ")"
        return s if len(s) < 300 else s[:300] + "..."

    # -- arithmetic --------------------------------------------------------------------------------
    def __neg__(self):
        return T(self.fam, -self.p, self.den)

    def __pos__(self):
        return self

    def __add__(self, o):
        try:
            o = self._co(o)
        except _IsNaN:
            return NAN
        except TypeError:
            return NotImplemented
        if self.den == o.den:
            return T(self.fam, self.p + o.p, self.den, self.ls | o.ls)
        if o.p == 0:
            return self
        if self.p == 0:
            return o
        D = dict(self.den)
        for k, e in o.den.items():
            if D.get(k, 0) < e:
                D[k] = e
        fam = self.fam

        def lift(t):
            p, ls = t.p, t.ls
            for k, e in D.items():
                m = e - t.den.get(k, 0)
                if m:
                    kl = fam.lset(k)
                    p = fam.mul(p, k ** m, ls & kl if m == 1 else kl)
                    ls = ls | kl
            return p, ls
        (pa, la), (pb, lb) = lift(self), lift(o)
        return T(fam, pa + pb, D, la | lb)

    __radd__ = __add__

    def __sub__(self, o):
        try:
            o = self._co(o)
        except _IsNaN:
            return NAN
        except TypeError:
            return NotImplemented
        return self + (-o)

    def __rsub__(self, o):
        return NAN if isinstance(o, NaNTerm) else (-self) + o

    def __mul__(self, o):
        try:
            o = self._co(o)
        except _IsNaN:
            return NAN
        except TypeError:
            return NotImplemented
        if self.p == 0 or o.p == 0:
            return self.fam.zero
        fam = self.fam
        if not self.den and not o.den:
            return T(fam, fam.mul(self.p, o.p, self.ls & o.ls), None, self.ls | o.ls)
        # cancel a numerator that is (a constant multiple of) a denominator key of the other factor
        a, b = self, o
        for x, y in ((a, b), (b, a)):
            if y.den and not x.p.is_ground:
                c, prim = fam.primitive(x.p)
                e = y.den.get(prim)
                if e:
                    D = dict(y.den)
                    if e == 1:
                        del D[prim]
                    else:
                        D[prim] = e - 1
                    return T(fam, x.p.ring(c), x.den) * T(fam, y.p, D)
        D = dict(a.den)
        for k, e in b.den.items():
            D[k] = D.get(k, 0) + e
        return T(fam, fam.mul(a.p, b.p, a.ls & b.ls), D, a.ls | b.ls)

    __rmul__ = __mul__

    def inv(self):
        fam = self.fam
        if self.p == 0:
            raise ZeroDivisionError("division by the zero term")
        num = fam.one_p
        for k, e in self.den.items():
            num = fam.mul(num, k ** e, fam.lset(k))
        if self.p.is_ground:
            return T(fam, num / self.p.LC)
        c, keys = fam.split_keys(self.p)
        return T(fam, num / c, dict(keys))

    def __truediv__(self, o):
        try:
            o = self._co(o)
        except _IsNaN:
            return NAN
        except TypeError:
            return NotImplemented
        if o.p == 0:
            return NAN
        if not o.den and o.p.is_ground:
            return T(self.fam, self.p / o.p.LC, self.den)
        # multiply by the denominator keys of o one by one (cancelling against own keys), then divide by its numerator
        res = self
        for k, e in o.den.items():
            for _ in range(e):
                res = res * T(self.fam, k)
        if o.p.is_ground:
            return T(self.fam, res.p / o.p.LC, res.den)
        c, keys = self.fam.split_keys(o.p)
        D = dict(res.den)
        for k, e in keys:
            D[k] = D.get(k, 0) + e
        return T(self.fam, res.p / c, D).simplify()

    def __rtruediv__(self, o):
        if isinstance(o, NaNTerm) or self.p == 0:
            return NAN
        return self._co(o) * self.inv()

    def __pow__(self, n):
        if isinstance(n, T) and n.is_number:
            n = n.number()
        if isinstance(n, (sp.Rational, sp.Float)) and not isinstance(n, sp.Integer):
            n = sp.nsimplify(n, rational=True)
            if n == sp.Rational(1, 2):
                return self.fam.sqrt(self)
            if n == sp.Rational(-1, 2):
                return self.fam.sqrt(self).inv()
            raise Undecided(f"C19: power with exponent {n}")
        n = int(n)
        if n == 0:
            return self.fam.one
        base = self if n > 0 else self.inv()
        res = base
        for _ in range(abs(n) - 1):
            res = res * base
        return res

    def __rpow__(self, o):
        raise Undecided("C19: symbolic exponent")

    def __abs__(self):
        return self * self.fam.sign(self, "abs")


NPOOL = 40
WORK_MAX = 1_500_000
CPU_MAX = 15.0


class Fam:
    """symbols of an instance family, a sparse polynomial ring over them plus a pool of norm symbols, and exact placements used for
    data-dependent decisions and as refutation witnesses"""

    def __init__(self, name: str, symbols: list, placements: list[dict]):
        from sympy.polys.rings import ring
        from sympy.polys.domains import QQ
        self.name = name
        self.symbols = list(symbols)
        self.place = [dict(p) for p in placements]
        self.nb = len(self.symbols)
        names = list(self.symbols) + [sp.Symbol(f"L{k}", positive=True) for k in range(NPOOL)]
        self.ring, *gens = ring(names, QQ)
        self.gens = gens
        self.rad: dict[int, object] = {}       # generator index of a norm symbol -> radicand polynomial
        self.norm_of: dict = {}                # radicand polynomial -> generator index
        self.fvals = [[float(sp.Rational(p[s])) for s in self.symbols] + [float("nan")] * NPOOL for p in self.place]
        self.one_p = self.ring(1)
        self.zero = T(self, self.ring(0))
        self.one = T(self, self.ring(1))
        self._mono: dict = {}
        self.log = None       # when a list: every data-dependent decision (what, deciding term, sign, where) is appended
        self.where = ("", "")  # (file, qualified name) of the function whose statement is being interpreted
        self.work = 0
        self.t0 = _time.process_time()
        self._sqrt_cache: dict = {}
        self._sym = {s: T(self, g) for s, g in zip(self.symbols, gens)}

    def restart_budget(self):
        self.work, self.t0 = 0, _time.process_time()

    # ---- construction -----------------------------------------------------------------------------
    def const(self, v):
        if isinstance(v, T):
            return v
        if isinstance(v, NaNTerm) or (isinstance(v, sp.Basic) and v in (sp.zoo, sp.nan, sp.oo, -sp.oo)):
            raise _IsNaN()
        if isinstance(v, (bool, np.bool_)):
            v = int(v)
        if isinstance(v, (int, np.integer)):
            return T(self, self.ring(int(v)))
        if isinstance(v, (float, np.floating)):
            v = sp.nsimplify(float(v), rational=True)
        if isinstance(v, sp.Rational):
            return T(self, self.ring(_QQ(int(v.p), int(v.q))))
        if isinstance(v, sp.Basic):
            return self.from_expr(v)
        raise TypeError(f"not a term: {type(v).__name__}")

    def from_expr(self, e):
        e = sp.sympify(e)
        if e.is_Rational:
            return self.const(sp.Rational(e))
        extra = e.free_symbols - set(self.symbols)
        if extra:
            raise Undecided(f"[{self.name}]: symbols {sorted(map(str, extra))} are not part of the instance family")
        n, d = sp.fraction(sp.together(e))
        try:
            tn = T(self, self.ring.from_expr(sp.expand(n)))
            td = T(self, self.ring.from_expr(sp.expand(d)))
        except Exception as err:   # sqrt / functions in an input expression
            raise Undecided(f"[{self.name}]: cannot convert `{str(e)[:60]}` to a polynomial term ({type(err).__name__})")
        return tn / td

    def to_expr(self, t):
        t = self.const(t)
        e = t.p.as_expr()
        for k, m in t.den.items():
            e = e / k.as_expr() ** m
        return e

    # ---- polynomial helpers -------------------------------------------------------------------------
    def primitive(self, p):
        """(c, prim) with p == c * prim, prim with coprime integer coefficients and a positive leading coefficient"""
        c, prim = p.primitive()
        if prim.LC < 0:
            c, prim = -c, -prim
        return c, prim

    def split_keys(self, p):
        """(c, [(key, e)]) with p == c * prod(key**e): the generators common to all terms are split off as keys of their own"""
        c, prim = self.primitive(p)
        keys = []
        if len(prim) > 0:
            mins = list(next(iter(prim.keys())))
            for m in prim.keys():
                for i, e in enumerate(m):
                    if e < mins[i]:
                        mins[i] = e
            if any(mins):
                for i, e in enumerate(mins):
                    if e:
                        keys.append((self.gens[i], e))
                mono = tuple(mins)
                prim = prim.ring.from_terms([(tuple(x - y for x, y in zip(m, mono)), co) for m, co in prim.terms()])
        if not prim.is_ground:
            keys.append((prim, 1))
        elif prim.LC != 1:
            c = c * prim.LC
        return c, keys

    def try_div(self, p, d):
        """p / d if the division is exact, else None"""
        if len(d) == 1:
            (m, c), = d.terms()
            if all(all(x >= y for x, y in zip(mp, m)) for mp in p.keys()):
                return p.ring.from_terms([(tuple(x - y for x, y in zip(mp, m)), cp / c) for mp, cp in p.terms()])
            return None
        if len(p) < len(d):
            return None
        self.spend(len(p) * len(d))
        q, r = p.div(d)
        return q if r == 0 else None

    def lset(self, p) -> frozenset:
        """norm symbols occurring in a polynomial"""
        nb = self.nb
        if not self.rad or p.is_ground:
            return frozenset()
        hi = nb + len(self.rad)
        found = set()
        for m in p.keys():
            for i in range(nb, hi):
                if m[i]:
                    found.add(i)
        return frozenset(found)

    def norm_index(self, key):
        """generator index if the polynomial is a bare norm symbol"""
        if len(key) != 1:
            return None
        (m, c), = key.terms()
        if c != 1 or sum(m) != 1:
            return None
        i = m.index(1)
        return i if i in self.rad else None

    def spend(self, n: int):
        self.work += n
        if self.work > WORK_MAX or (self.work & 0xff == 0 and _time.process_time() - self.t0 > CPU_MAX):
            raise Undecided(f"[{self.name}]: term explosion (more than {WORK_MAX} monomial products or {CPU_MAX} s) - the formulas do not "
                            f"simplify on this instance")

    def mul(self, p, q, common=None):
        self.spend(len(p) * len(q))
        if _time.process_time() - self.t0 > CPU_MAX:
            raise Undecided(f"[{self.name}]: time budget of {CPU_MAX} s per instance exhausted")
        r = p * q
        if self.rad and (common is None or common):
            r = self.reduce_p(r, common)
        return r

    def reduce_p(self, p, only=None):
        """even powers of the norm symbols replaced by their radicands"""
        cand = sorted(self.rad if only is None else only)
        for _ in range(16):
            hot = None
            for m in p.keys():
                for i in cand:
                    if m[i] >= 2:
                        hot = i
                        break
                if hot is not None:
                    break
            if hot is None:
                return p
            i = hot
            R_, L = self.rad[i], self.gens[i]
            parts: dict[int, object] = {}
            for m, c in p.terms():
                e = m[i]
                m0 = m[:i] + (0,) + m[i + 1:]
                parts.setdefault(e, self.ring.zero)
                parts[e] = parts[e] + self.ring.term_new(m0, c)
            acc = self.ring.zero
            for e, part in parts.items():
                f = part
                if e // 2:
                    f = f * R_ ** (e // 2)
                if e % 2:
                    f = f * L
                acc = acc + f
            p = acc
        return p

    def _terms(self, p):
        out = []
        for m, c in p.terms():
            mm = self._mono.get(m)
            if mm is None:
                mm = tuple((i, e) for i, e in enumerate(m) if e)
                self._mono[m] = mm
            out.append((mm, float(c)))
        return out

    def pval(self, p, k: int):
        """(value, sum of absolute values of the terms) of a polynomial at placement k, in floating point"""
        return self._pval_vals(p, self.fvals[k])

    # ---- numeric values at the placements ---------------------------------------------------------
    def nums(self, t) -> list[float]:
        if isinstance(t, NaNTerm):
            return [float("nan")] * len(self.place)
        t = self.const(t)
        out = []
        for k in range(len(self.place)):
            v, sc = self.pval(t.p, k)
            if abs(v) <= 1e-10 * sc:
                v = 0.0
            for key, e in t.den.items():
                d, dsc = self.pval(key, k)
                if abs(d) <= 1e-10 * dsc:
                    raise Undecided(f"[{self.name}]: a denominator vanishes at a placement")
                v /= d ** e
            out.append(v)
        return out

    def tidy(self, v):
        """cancel common factors in the entries of a value that is about to be bound to a name / attribute"""
        if isinstance(v, T):
            return v.simplify() if v.den else v
        if isinstance(v, np.ndarray) and v.dtype == object and not isinstance(v, Mat):
            for ix in np.ndindex(*v.shape):
                x = v[ix]
                if isinstance(x, T) and x.den:
                    y = x.simplify()
                    if y is not x:
                        v[ix] = y
        return v

    def sign(self, t, what: str = "") -> int:
        """sign of a term, identical at every placement (else Undecided); 0 only for the zero term"""
        if isinstance(t, (int, np.integer)):
            return (t > 0) - (t < 0)
        if isinstance(t, NaNTerm):
            raise Undecided(f"[{self.name}]: a data-dependent decision ({what}) on a nan (result of a division by zero)")
        if isinstance(t, sp.Basic) and t.is_number:
            return int(sp.sign(t))
        t = self.const(t)
        if t.p == 0:
            return 0
        vals = self.nums(t)
        sg = {(0 if v == 0.0 else (1 if v > 0 else -1)) for v in vals}
        if len(sg) != 1:
            raise Undecided(f"[{self.name}]: a data-dependent decision ({what or repr(t)[:60]}) falls differently on the placements")
        s = sg.pop()
        if s == 0:
            raise Undecided(f"[{self.name}]: cannot decide the sign of a non-zero term that vanishes at every placement ({what or repr(t)[:60]})")
        if self.log is not None and not t.is_number:
            self.log.append((what, t, s, self.where))
        return s

    def record(self, what: str, t) -> None:
        """log a decision that was taken numerically (argmax, isclose): `t` is a term whose sign decides it"""
        if self.log is None or not isinstance(t, T) or t.is_number or t.p == 0:
            return
        vals = self.nums(t)
        sg = {(0 if v == 0.0 else (1 if v > 0 else -1)) for v in vals}
        if len(sg) == 1 and 0 not in sg:
            self.log.append((what, t, sg.pop(), self.where))

    def value_at(self, t, over: dict, k: int = 0):
        """floating point value of a term at placement k with some base symbols overridden (norm symbols re-evaluated in creation
        order); None if a radicand is not positive or a denominator vanishes there"""
        vals = list(self.fvals[k])
        for s_, v in over.items():
            vals[self.symbols.index(s_)] = float(v)
        for i in sorted(self.rad):
            r, sc = self._pval_vals(self.rad[i], vals)
            if not r > 1e-13 * sc:
                return None
            vals[i] = r ** 0.5
        t = self.const(t)
        v, sc = self._pval_vals(t.p, vals)
        if abs(v) <= 1e-10 * sc:
            v = 0.0
        for key, e in t.den.items():
            d, dsc = self._pval_vals(key, vals)
            if abs(d) <= 1e-10 * dsc:
                return None
            v /= d ** e
        return v

    def _pval_vals(self, p, vals):
        s = sc = 0.0
        for mm, c in self._terms(p):
            t = c
            for i, e in mm:
                t *= vals[i] ** e
            s += t
            sc += abs(t)
        return s, sc

    def mentions(self, t, syms) -> bool:
        """does a term (numerator, denominator keys, radicands of its norm symbols) contain one of the base symbols?"""
        idx = {self.symbols.index(s_) for s_ in syms if s_ in self.symbols}
        seen: set = set()

        def poly_has(p):
            for m in p.keys():
                for i, e in enumerate(m):
                    if e and (i in idx or (i in self.rad and i not in seen and (seen.add(i) or poly_has(self.rad[i])))):
                        return True
            return False
        t = self.const(t)
        return poly_has(t.p) or any(poly_has(k) for k in t.den)

    def iszero(self, t):
        """True: identically zero (proved); False: non-zero at a placement (refuted); Undecided otherwise"""
        if isinstance(t, (int, np.integer)):
            return t == 0
        if isinstance(t, NaNTerm):
            return False
        t = self.const(t)
        if t.p == 0:
            return True
        if any(v != 0.0 for v in self.nums(t)):
            return False
        raise Undecided(f"[{self.name}]: a residual vanishes at every placement but not as a reduced polynomial: {repr(t)[:100]}")

    def witness(self, t) -> dict:
        if isinstance(t, NaNTerm):
            return {"placement": {str(s): str(v) for s, v in self.place[0].items()}, "residual": float("nan")}
        vals = self.nums(t)
        k = max(range(len(vals)), key=lambda i: abs(vals[i]))
        return {"placement": {str(s): str(v) for s, v in self.place[k].items()}, "residual": vals[k]}

    # ---- square roots -------------------------------------------------------------------------------
    def _norm_symbol(self, rad):
        """norm symbol (as polynomial) of a square-free primitive radicand that is positive at the placements"""
        i = self.norm_of.get(rad)
        if i is None:
            i = self.nb + len(self.norm_of)
            if i >= self.nb + NPOOL:
                raise Undecided(f"[{self.name}]: more than {NPOOL} distinct square roots")
            for k in range(len(self.place)):
                v, sc = self.pval(rad, k)
                if v <= 1e-10 * sc:
                    raise Undecided(f"[{self.name}]: radicand not positive at a placement")
                self.fvals[k][i] = v ** 0.5
            self.norm_of[rad] = i
            self.rad[i] = rad
        return self.gens[i]

    def sqrt(self, t):
        if isinstance(t, NaNTerm):
            return NAN
        if isinstance(t, sp.Basic) and t.is_number and not isinstance(t, T):
            t = sp.nsimplify(t, rational=True)
        t = self.const(t)
        if t.p == 0:
            return self.zero
        hit = self._sqrt_cache.get(t)
        if hit is not None:
            return hit
        # sqrt(p / D) = sqrt(p * D') / |D''|  with D' the keys of odd multiplicity
        p = t.p
        outer = self.one
        for key, e in t.den.items():
            if e % 2:
                p = self.mul(p, key)
            h = (e + 1) // 2
            kt = T(self, key)
            if h % 2:
                kt = kt * self.sign(kt, "sign of a denominator pulled out of a square root")
            outer = outer * (kt ** h).inv()
        res = self._sqrt_poly(p) * outer
        self._sqrt_cache[t] = res
        return res

    def _sqrt_poly(self, p):
        """sqrt of a polynomial that is positive at the placements:  |g| * sqrt(k) * L  with  p == k * g**2 * rad,  rad square-free,
        L the norm symbol of rad (times the square-free part of the rational constant)"""
        from sympy.polys.rings import ring as mkring
        from sympy.polys.domains import ZZ
        # a radicand may contain earlier norm symbols (tower of square roots): proofs by reduction stay sound, refutations are numeric
        if self.sign(T(self, p), "radicand") < 0:
            raise Undecided(f"[{self.name}]: square root of a negative term")
        c, prim = self.primitive(p)
        # square-free decomposition of prim in a compact ring of its own generators (Musser, gcd with all partial derivatives)
        used = [i for i in range(self.ring.ngens) if any(m[i] for m in prim.keys())]
        facs = [(prim, 1)]
        if used:
            Rz, *gz = mkring([self.ring.symbols[i] for i in used], ZZ)
            pz = Rz.zero
            for m, co in prim.terms():
                pz = pz + Rz.term_new(tuple(m[i] for i in used), int(co))
            self.spend(len(pz) * len(pz))
            G = pz
            for x in gz:
                dx = pz.diff(x)
                if dx != 0:
                    G = G.gcd(dx)
                if G.is_ground:
                    break
            if not G.is_ground:
                w = pz.exquo(G)
                cc = G
                facs_z, i = [], 1
                while not w.is_ground:
                    y = w.gcd(cc)
                    z = w.exquo(y)
                    if not z.is_ground:
                        facs_z.append((z, i))
                    w = y
                    cc = cc.exquo(y)
                    i += 1
                    if i > 12:
                        raise Undecided(f"[{self.name}]: square-free decomposition did not terminate")

                def back(q):
                    r = self.ring.zero
                    for m, co in q.terms():
                        mm = [0] * self.ring.ngens
                        for j, i_ in enumerate(used):
                            mm[i_] = m[j]
                        r = r + self.ring.term_new(tuple(mm), _QQ(int(co)))
                    return r
                facs = [(back(z), m) for z, m in facs_z]
        g, rad = self.one_p, self.one_p
        for f, m in facs:
            if m // 2:
                g = g * f ** (m // 2)
            if m % 2:
                rad = rad * f
        chk = g * g * rad
        k = prim.LC / chk.LC
        if chk * k != prim:
            raise Undecided(f"[{self.name}]: square-free decomposition does not reproduce the radicand")
        if rad.is_ground:
            coef, radp = c * k * rad.LC, self.one_p
        else:
            cr, radp = self.primitive(rad)
            coef = c * k * cr
            if self.sign(T(self, radp), "radicand") < 0:
                radp, coef = -radp, -coef
        if coef <= 0:
            raise Undecided(f"[{self.name}]: square root of a negative term")
        a, b = int(coef.numerator), int(coef.denominator)
        sq, rest = 1, 1
        for f_, m_ in sp.factorint(a * b).items():
            sq *= f_ ** (m_ // 2)
            rest *= f_ ** (m_ % 2)
        outer = T(self, g)
        if not g.is_ground:
            outer = outer * self.sign(outer, "sign of a factor pulled out of a square root")
        elif g.LC < 0:
            outer = -outer
        outer = outer * self.const(sp.Rational(sq, b))
        radf = radp * rest
        if radf == self.one_p:
            return outer
        return outer * T(self, self._norm_symbol(radf))


# ======================================================================================================
#  values: concrete index arrays (int / bool), object arrays of sympy terms, sparse matrices with storage order
# ======================================================================================================

def _S(v):
    """python / numpy number -> sympy number (exact)"""
    if isinstance(v, (T, NaNTerm)):
        return v
    if isinstance(v, sp.Basic):
        return NAN if v in (sp.zoo, sp.nan, sp.oo, -sp.oo) else v
    if isinstance(v, (bool, np.bool_)):
        return sp.Integer(int(v))
    if isinstance(v, (int, np.integer)):
        return sp.Integer(int(v))
    if isinstance(v, (float, np.floating)):
        return sp.nsimplify(float(v), rational=True)
    raise Undecided(f"C19 evaluator: not a number: {type(v).__name__}")


_toobj = np.frompyfunc(_S, 1, 1)


def is_conc(v) -> bool:
    """concrete integer / boolean data (connectivity)"""
    if isinstance(v, (bool, int, np.integer, np.bool_)):
        return True
    if isinstance(v, sp.Integer):
        return True
    return isinstance(v, np.ndarray) and v.dtype != object


def obj(v):
    """-> object array of sympy terms / sympy scalar"""
    if isinstance(v, np.ndarray):
        if v.dtype == object:
            return v
        out = np.empty(v.shape, dtype=object)
        if v.size:
            out[...] = _toobj(v)
        return out
    return _S(v)


def conc(v):
    """-> python int / numpy integer array where the value is concrete (sympy Integers are unwrapped)"""
    if isinstance(v, sp.Integer):
        return int(v)
    if isinstance(v, T) and v.is_number and v.number().is_Integer:
        return int(v.number())
    if isinstance(v, np.ndarray) and v.dtype == object:
        flat = v.ravel()
        if all((isinstance(x, (sp.Integer, int, np.integer)) and not isinstance(x, bool)) or (isinstance(x, T) and x.is_number and x.number().is_Integer)
               for x in flat):
            return np.array([int(x.number()) if isinstance(x, T) else int(x) for x in flat], dtype=np.int64).reshape(v.shape)
        if all(x is sp.true or x is sp.false or isinstance(x, (bool, np.bool_)) for x in flat) and flat.size:
            return np.array([bool(x) for x in flat], dtype=bool).reshape(v.shape)
        raise Undecided("C19 evaluator: a symbolic array is used where concrete indices are needed")
    return v


def zeros_obj(shape):
    out = np.empty(shape, dtype=object)
    out[...] = sp.Integer(0)
    return out


class Mat(np.ndarray):
    """value of numpy.matrix type (result of fancy-indexing / reducing a sparse matrix): only conversion to an array is modelled"""


class SpM:
    """scipy.sparse matrix with explicit storage: fmt csc/csr -> (indptr, indices, data); coo -> (row, col, data)"""

    def __init__(self, shape, fmt, a, b, data):
        self.shape = (int(shape[0]), int(shape[1]))
        self.fmt = fmt
        self.a = np.asarray(a, dtype=np.int64)       # indptr | row
        self.b = np.asarray(b, dtype=np.int64)       # indices | col
        self.data = data if isinstance(data, np.ndarray) else np.asarray(data)

    # -- construction ---------------------------------------------------------------------------
    @staticmethod
    def from_triplets(shape, rows, cols, data, fmt="coo"):
        rows, cols = np.asarray(rows, dtype=np.int64), np.asarray(cols, dtype=np.int64)
        return SpM(shape, "coo", rows, cols, data).to(fmt)

    @staticmethod
    def from_dense(D, fmt="csc"):
        D = np.asarray(D) if not isinstance(D, np.ndarray) else D
        nz = np.zeros(D.shape, dtype=bool)
        for i in range(D.shape[0]):
            for j in range(D.shape[1]):
                x = D[i, j]
                nz[i, j] = bool(x != 0)
        r, c = np.nonzero(nz)
        vals = D[r, c]
        return SpM(D.shape, "coo", r, c, vals).to(fmt)

    def triplets(self):
        """(row, col, data) in storage order"""
        if self.fmt == "coo":
            return self.a, self.b, self.data
        major = np.repeat(np.arange(len(self.a) - 1), np.diff(self.a))
        if self.fmt == "csc":
            return self.b, major, self.data
        return major, self.b, self.data

    def to(self, fmt):
        if fmt == self.fmt:
            return SpM(self.shape, fmt, self.a.copy(), self.b.copy(), self.data.copy())
        r, c, d = self.triplets()
        if fmt == "coo":
            return SpM(self.shape, "coo", r.copy(), c.copy(), d.copy())
        # compressed: stable sort by the major index; duplicates (coo input) are summed; minor indices sorted on conversion
        major, minor = (c, r) if fmt == "csc" else (r, c)
        n_major = self.shape[1] if fmt == "csc" else self.shape[0]
        if self.fmt == "coo":
            order = np.lexsort((minor, major))
        else:
            order = np.lexsort((minor, major))    # csr <-> csc conversion yields sorted indices
        major, minor, d = major[order], minor[order], d[order]
        if len(major) > 1:
            dup = (major[1:] == major[:-1]) & (minor[1:] == minor[:-1])
            if dup.any():
                keep = np.concatenate(([True], ~dup))
                dd = obj(d).copy()
                pos = np.cumsum(keep) - 1
                acc = zeros_obj(int(keep.sum()))
                for k in range(len(dd)):
                    acc[pos[k]] = acc[pos[k]] + dd[k]
                major, minor, d = major[keep], minor[keep], acc
        indptr = np.zeros(n_major + 1, dtype=np.int64)
        np.add.at(indptr, major + 1, 1)
        return SpM(self.shape, fmt, np.cumsum(indptr), minor, d)

    # -- views ---------------------------------------------------------------------------------------
    @property
    def nnz(self):
        return int(len(self.b))

    def dense(self):
        r, c, d = self.triplets()
        if d.dtype == object:
            D = zeros_obj(self.shape)
        else:
            D = np.zeros(self.shape, dtype=np.int64 if d.dtype != float else float)
        for k in range(len(r)):
            D[r[k], c[k]] = D[r[k], c[k]] + d[k]
        return D

    def transpose(self):
        if self.fmt == "coo":
            return SpM(self.shape[::-1], "coo", self.b, self.a, self.data)
        return SpM(self.shape[::-1], "csr" if self.fmt == "csc" else "csc", self.a, self.b, self.data)

    def map_data(self, f):
        return SpM(self.shape, self.fmt, self.a.copy(), self.b.copy(), f(self.data))


def _matmul_dense(A, B):
    A2 = A.reshape(1, -1) if A.ndim == 1 else A
    B2 = B.reshape(-1, 1) if B.ndim == 1 else B
    if A2.shape[1] != B2.shape[0]:
        raise ShapeFault(f"matrix product of shapes {A.shape} and {B.shape}")
    if A2.dtype != object and B2.dtype != object:
        R = A2 @ B2
    else:
        # explicit loops: an exception raised by a term operation inside numpy's object dot product is not propagated cleanly
        Ao, Bo = obj(A2), obj(B2)
        R = np.empty((Ao.shape[0], Bo.shape[1]), dtype=object)
        for i in range(Ao.shape[0]):
            for j in range(Bo.shape[1]):
                acc = 0
                for k in range(Ao.shape[1]):
                    x, y = Ao[i, k], Bo[k, j]
                    if (isinstance(x, (int, sp.Integer)) and x == 0) or (isinstance(y, (int, sp.Integer)) and y == 0):
                        continue
                    acc = acc + x * y
                R[i, j] = acc
    if A.ndim == 1 and B.ndim == 1:
        return R[0, 0]
    if A.ndim == 1:
        return R[0]
    if B.ndim == 1:
        return R[:, 0]
    return R


def sp_matmul(l, r):
    """matrix product with at least one sparse operand (scipy semantics: sparse @ sparse -> sparse, else dense)"""
    if isinstance(l, SpM) and isinstance(r, SpM):
        if l.shape[1] != r.shape[0]:
            raise ShapeFault(f"sparse product of shapes {l.shape} and {r.shape}")
        fmt = l.fmt if l.fmt in ("csc", "csr") else "csr"
        return SpM.from_dense(_matmul_dense(l.dense(), r.dense()), fmt)
    if isinstance(l, SpM):
        if not isinstance(r, np.ndarray):
            return l.map_data(lambda d: ew(lambda x, y: x * y, d, r))
        return _matmul_dense(l.dense(), r)
    if not isinstance(l, np.ndarray):
        return r.map_data(lambda d: ew(lambda x, y: x * y, l, d))
    return _matmul_dense(l, r.dense())


def ew(f, l, r):
    """elementwise binary operation with numpy broadcasting; concrete op concrete stays concrete (except true division)"""
    if isinstance(l, Mat) or isinstance(r, Mat):
        raise Undecided("C19 evaluator: arithmetic on a numpy.matrix value")
    la, ra = isinstance(l, np.ndarray), isinstance(r, np.ndarray)
    if la and ra:
        try:
            np.broadcast_shapes(l.shape, r.shape)
        except ValueError:
            raise ShapeFault(f"elementwise operation on arrays of shapes {l.shape} and {r.shape}")
    if not la and not ra:
        return f(l, r)
    return f(l, r)


# ======================================================================================================
#  the interpreter
# ======================================================================================================

class _Return(Exception):
    def __init__(self, value):
        self.value = value


class _Break(Exception):
    pass


class _Continue(Exception):
    pass


class Scope:
    def __init__(self, parent: Optional["Scope"] = None):
        self.vars: dict = {}
        self.parent = parent

    def lookup(self, name: str):
        s = self
        while s is not None:
            if name in s.vars:
                return s.vars[name], True
            s = s.parent
        return None, False


class Closure:
    def __init__(self, fn, scope: Optional[Scope], modrel: str, qual: str, selfval=None):
        self.fn, self.scope, self.modrel, self.qual, self.selfval = fn, scope, modrel, qual, selfval


class ModRef:
    """a dotted path into an imported package (numpy.linalg.norm, porepy.map_geometry.compute_normal, ...)"""

    def __init__(self, path: str):
        self.path = path


class Opaque:
    """a value the evaluator does not model (dtype objects, strings of messages, ...); using it in arithmetic is Undecided"""

    def __init__(self, why=""):
        self.why = why


class GridObj:
    def __init__(self, attrs: dict):
        self.attrs = dict(attrs)


IGNORED_CALLS = {"warnings.warn", "logging.getLogger", "print"}
PRIMITIVE_PP = {"rldecode": "repeat", "sparse_array_to_row_col_data": "find"}
import os as _os
_TRACE = bool(_os.environ.get("C19_TRACE"))
MAX_STEPS = 20000
MAX_DEPTH = 12


class World:
    def __init__(self, repo, fam: Fam):
        self.repo, self.fam = repo, fam
        self.steps = 0
        self._imports: dict[str, dict] = {}
        self._byname: dict[str, str] = {}

    def imports(self, rel: str) -> dict:
        im = self._imports.get(rel)
        if im is None:
            im = {}
            for st in self.repo.module(rel).tree.body:
                if isinstance(st, ast.Import):
                    for a in st.names:
                        im[a.asname or a.name.split(".")[0]] = a.name if a.asname else a.name.split(".")[0]
                elif isinstance(st, ast.ImportFrom) and st.module and st.level == 0:
                    for a in st.names:
                        im[a.asname or a.name] = f"{st.module}.{a.name}"
            self._imports[rel] = im
        return im

    def module_constant(self, rel: str, name: str):
        hits = []
        for st in self.repo.module(rel).tree.body:
            if isinstance(st, ast.Assign) and len(st.targets) == 1 and isinstance(st.targets[0], ast.Name) and st.targets[0].id == name:
                hits.append(st.value)
            elif isinstance(st, ast.AnnAssign) and isinstance(st.target, ast.Name) and st.target.id == name and st.value is not None:
                hits.append(st.value)
        return hits[0] if len(hits) == 1 else None

    def class_constant(self, rel: str, cls: str, name: str):
        hits = []
        for st in self.repo.module(rel).cls(cls).body:
            if isinstance(st, ast.Assign) and len(st.targets) == 1 and isinstance(st.targets[0], ast.Name) and st.targets[0].id == name:
                hits.append(st.value)
            elif isinstance(st, ast.AnnAssign) and isinstance(st.target, ast.Name) and st.target.id == name and st.value is not None:
                hits.append(st.value)
        return hits[0] if len(hits) == 1 else None

    def porepy_function(self, path: str):
        """resolve porepy.<...>.<module>.<function> to (rel, FunctionDef) by the module's file name (must be unique)"""
        parts = path.split(".")
        if len(parts) < 3:
            return None
        modname, fname = parts[-2], parts[-1]
        if not self._byname:
            for rel in self.repo.all_py("src/porepy"):
                base = rel.rsplit("/", 1)[-1][:-3]
                self._byname.setdefault(base, [])
                self._byname[base].append(rel)
        rels = self._byname.get(modname, [])
        if len(rels) != 1:
            return None
        fn = self.repo.module(rels[0]).get(fname)
        if isinstance(fn, ast.FunctionDef):
            return rels[0], fn
        return None


class Ev:
    def __init__(self, world: World, scope: Scope, modrel: str, qual: str, depth: int = 0):
        self.w, self.scope, self.modrel, self.qual, self.depth = world, scope, modrel, qual, depth
        self.fam = world.fam

    # ---------------------------------------------------------------- helpers
    def und(self, msg: str, node=None):
        ln = getattr(node, "lineno", "?")
        return Undecided(f"{self.modrel}:{self.qual}:{ln}: {msg}")

    def tick(self, node):
        self.fam.where = (self.modrel, self.qual)
        self.w.steps += 1
        if self.w.steps > MAX_STEPS:
            raise self.und("step budget of the evaluator exhausted", node)

    # ---------------------------------------------------------------- statements
    def run_body(self, body):
        if _TRACE:
            import time
            for st in body:
                t0 = time.time()
                self.exec(st)
                dt = time.time() - t0
                if dt > 0.05:
                    print(f"  [trace] {self.qual}:{getattr(st, 'lineno', '?')} {dt:.2f}s  {u(st)[:70]!r}", flush=True)
            return
        for st in body:
            self.exec(st)

    def exec(self, st: ast.stmt):
        self.tick(st)
        self.fam.where = (self.modrel, self.qual)
        if isinstance(st, ast.Expr):
            if isinstance(st.value, ast.Constant):
                return
            self.ev(st.value)
            return
        if isinstance(st, ast.Pass):
            return
        if isinstance(st, (ast.Import, ast.ImportFrom)):
            return
        if isinstance(st, ast.FunctionDef):
            self.scope.vars[st.name] = Closure(st, self.scope, self.modrel, f"{self.qual}.{st.name}")
            return
        if isinstance(st, ast.Assign):
            val = self.fam.tidy(self.ev(st.value))
            for tg in st.targets:
                self.store(tg, val)
            return
        if isinstance(st, ast.AnnAssign):
            if st.value is not None:
                self.store(st.target, self.ev(st.value))
            return
        if isinstance(st, ast.AugAssign):
            cur = self.ev(_as_load(st.target))
            val = self.binop(st.op, cur, self.ev(st.value), st)
            if isinstance(st.target, ast.Name) and isinstance(cur, np.ndarray) and isinstance(val, np.ndarray) and val.shape == cur.shape \
                    and (cur.dtype == object or val.dtype != object):
                cur[...] = val     # numpy in-place semantics (aliases see the update)
                return
            self.store(st.target, val)
            return
        if isinstance(st, ast.Return):
            raise _Return(self.ev(st.value) if st.value is not None else None)
        if isinstance(st, ast.If):
            if self.truth(self.ev(st.test), st.test):
                self.run_body(st.body)
            else:
                self.run_body(st.orelse)
            return
        if isinstance(st, ast.For):
            it = self.iterate(self.ev(st.iter), st.iter)
            broke = False
            for v in it:
                self.store(st.target, v)
                try:
                    self.run_body(st.body)
                except _Break:
                    broke = True
                    break
                except _Continue:
                    continue
            if not broke:
                self.run_body(st.orelse)
            return
        if isinstance(st, ast.Break):
            raise _Break()
        if isinstance(st, ast.Continue):
            raise _Continue()
        if isinstance(st, ast.Assert):
            if not self.truth(self.ev(st.test), st.test):
                raise KernelRaises(f"assertion `{u(st.test)[:80]}` fails", st)
            return
        if isinstance(st, ast.Raise):
            raise KernelRaises(f"`{u(st)[:90]}` is reached", st)
        if isinstance(st, ast.With):
            # context managers of the numerical libraries (np.errstate, warnings.catch_warnings) do not change values
            for it in st.items:
                cm = it.context_expr
                d = dotted(cm.func) if isinstance(cm, ast.Call) else None
                if d is None or it.optional_vars is not None or d.split(".")[-1] not in ("errstate", "catch_warnings", "printoptions"):
                    raise self.und(f"with-statement `{u(cm)[:50]}`", st)
            self.run_body(st.body)
            return
        if isinstance(st, ast.Delete):
            for t in st.targets:
                if isinstance(t, ast.Name):
                    self.scope.vars.pop(t.id, None)
                else:
                    raise self.und(f"del {u(t)[:40]}", st)
            return
        raise self.und(f"statement {type(st).__name__}: {u(st)[:60]}", st)

    def truth(self, v, node) -> bool:
        if isinstance(v, (bool, np.bool_)):
            return bool(v)
        if v is None:
            return False
        if isinstance(v, (int, np.integer)):
            return bool(v)
        if isinstance(v, NaNTerm):
            return True
        if isinstance(v, T):
            return self.fam.sign(v, u(node)[:60]) != 0 if v.p != 0 else False
        if isinstance(v, sp.Basic):
            if v is sp.true:
                return True
            if v is sp.false:
                return False
            if v.is_number:
                return bool(v != 0)
            return self.fam.sign(v, u(node)[:60]) != 0
        if isinstance(v, np.ndarray) and v.size == 1:
            return self.truth(v.ravel()[0], node)
        if isinstance(v, (list, tuple, str)):
            return bool(len(v))
        raise self.und(f"truth value of `{u(node)[:60]}`", node)

    def iterate(self, v, node):
        if isinstance(v, range):
            return list(v)
        if isinstance(v, (list, tuple)):
            return list(v)
        if isinstance(v, np.ndarray):
            return [v[i] for i in range(v.shape[0])]
        raise self.und(f"iteration over `{u(node)[:50]}`", node)

    def store(self, tg, val):
        if isinstance(tg, ast.Name):
            self.scope.vars[tg.id] = val
            return
        if isinstance(tg, (ast.Tuple, ast.List)):
            vals = self.iterate(val, tg) if not isinstance(val, (tuple, list)) else list(val)
            if len(vals) != len(tg.elts) or any(isinstance(e, ast.Starred) for e in tg.elts):
                raise self.und(f"unpacking into `{u(tg)[:50]}`", tg)
            for e, v in zip(tg.elts, vals):
                self.store(e, v)
            return
        if isinstance(tg, ast.Attribute):
            base = self.ev(tg.value)
            if isinstance(base, GridObj):
                base.attrs[tg.attr] = val
                return
            if isinstance(base, SpM) and tg.attr == "data":
                if isinstance(val, np.ndarray) and val.shape != base.data.shape:
                    raise ShapeFault(f"`{u(tg)}` (size {base.data.shape}) assigned an array of shape {val.shape}", tg)
                base.data = val if isinstance(val, np.ndarray) else np.full(base.data.shape, val)
                return
            raise self.und(f"attribute store `{u(tg)[:50]}`", tg)
        if isinstance(tg, ast.Subscript):
            base = self.ev(tg.value)
            idx = self.index(tg.slice)
            if isinstance(base, np.ndarray) and not isinstance(base, Mat):
                v = val
                if base.dtype != object and not is_conc(v):
                    raise self.und(f"symbolic value stored into the concrete array `{u(tg.value)[:40]}`", tg)
                if base.dtype == object:
                    v = obj(v) if isinstance(v, np.ndarray) or not isinstance(v, (list, tuple)) else v
                else:
                    v = conc(v)
                try:
                    base[idx] = v
                except (IndexError, ValueError) as e:
                    raise ShapeFault(f"store `{u(tg)[:60]} = ...`: {e}", tg)
                return
            if isinstance(base, list) and isinstance(idx, int):
                base[idx] = val
                return
            if isinstance(base, dict):
                base[idx] = val
                return
            raise self.und(f"subscript store `{u(tg)[:50]}`", tg)
        raise self.und(f"assignment target `{u(tg)[:50]}`", tg)

    # ---------------------------------------------------------------- expressions
    def ev(self, e: ast.expr):
        self.tick(e)
        if isinstance(e, ast.Constant):
            v = e.value
            if isinstance(v, bool) or v is None or isinstance(v, str):
                return v
            if isinstance(v, int):
                return v
            if isinstance(v, float):
                return sp.nsimplify(v, rational=True)
            if v is Ellipsis:
                return Ellipsis
            raise self.und(f"constant {v!r}", e)
        if isinstance(e, ast.JoinedStr):
            return "<str>"
        if isinstance(e, ast.Name):
            return self.name(e)
        if isinstance(e, (ast.Tuple, ast.List)):
            vals = []
            for x in e.elts:
                if isinstance(x, ast.Starred):
                    vals.extend(self.iterate(self.ev(x.value), x))
                else:
                    vals.append(self.ev(x))
            return tuple(vals) if isinstance(e, ast.Tuple) else vals
        if isinstance(e, ast.UnaryOp):
            v = self.ev(e.operand)
            if isinstance(e.op, ast.Not):
                return not self.truth(v, e.operand)
            if isinstance(e.op, ast.USub):
                return self.binop(ast.Mult(), -1, v, e)
            if isinstance(e.op, ast.UAdd):
                return v
            if isinstance(e.op, ast.Invert):
                if isinstance(v, np.ndarray) and v.dtype == bool:
                    return ~v
                if isinstance(v, (bool, np.bool_)):
                    return not v
            raise self.und(f"unary `{u(e)[:50]}`", e)
        if isinstance(e, ast.BoolOp):
            res = None
            for x in e.values:
                res = self.ev(x)
                t = self.truth(res, x)
                if isinstance(e.op, ast.And) and not t:
                    return res
                if isinstance(e.op, ast.Or) and t:
                    return res
            return res
        if isinstance(e, ast.Compare):
            left = self.ev(e.left)
            res = None
            for op, c in zip(e.ops, e.comparators):
                right = self.ev(c)
                r = self.compare(op, left, right, e)
                res = r if res is None else self.np_logical("and", res, r, e)
                left = right
            return res
        if isinstance(e, ast.BinOp):
            return self.binop(e.op, self.ev(e.left), self.ev(e.right), e)
        if isinstance(e, ast.IfExp):
            return self.ev(e.body) if self.truth(self.ev(e.test), e.test) else self.ev(e.orelse)
        if isinstance(e, ast.NamedExpr) and isinstance(e.target, ast.Name):
            v = self.ev(e.value)
            self.scope.vars[e.target.id] = v
            return v
        if isinstance(e, ast.Dict):
            out = {}
            for k, v in zip(e.keys, e.values):
                if k is None:
                    raise self.und("dict unpacking", e)
                kk = conc(self.ev(k))
                if not isinstance(kk, (int, str, bool)):
                    raise self.und(f"dict key `{u(k)[:30]}`", e)
                out[kk] = self.ev(v)
            return out
        if isinstance(e, ast.Attribute):
            return self.attribute(e)
        if isinstance(e, ast.Subscript):
            return self.subscript(self.ev(e.value), self.index(e.slice), e)
        if isinstance(e, ast.Call):
            return self.call(e)
        if isinstance(e, (ast.ListComp, ast.GeneratorExp)):
            return self.comprehension(e)
        if isinstance(e, ast.Lambda):
            fn = ast.FunctionDef(name="<lambda>", args=e.args, body=[ast.Return(value=e.body)], decorator_list=[], lineno=e.lineno)
            return Closure(fn, self.scope, self.modrel, self.qual + ".<lambda>")
        raise self.und(f"expression {type(e).__name__}: {u(e)[:60]}", e)

    def comprehension(self, e):
        if len(e.generators) != 1:
            raise self.und(f"comprehension `{u(e)[:50]}`", e)
        g = e.generators[0]
        out = []
        sub = Ev(self.w, Scope(self.scope), self.modrel, self.qual, self.depth)
        for v in self.iterate(self.ev(g.iter), g.iter):
            sub.store(g.target, v)
            if all(sub.truth(sub.ev(c), c) for c in g.ifs):
                out.append(sub.ev(e.elt))
        return out

    def name(self, e: ast.Name):
        v, ok = self.scope.lookup(e.id)
        if ok:
            return v
        im = self.w.imports(self.modrel)
        if e.id in im:
            return ModRef(im[e.id])
        node = self.w.repo.module(self.modrel).get(e.id)
        if isinstance(node, ast.FunctionDef):
            return Closure(node, None, self.modrel, e.id)
        const = self.w.module_constant(self.modrel, e.id)
        if const is not None:
            # module-level constant: `NAME = <expression>` assigned exactly once at module level
            return Ev(self.w, Scope(), self.modrel, f"<module>.{e.id}", self.depth + 1).ev(const)
        if e.id in ("range", "len", "int", "float", "bool", "abs", "sum", "max", "min", "enumerate", "zip", "hasattr", "isinstance",
                    "tuple", "list", "round", "print", "any", "all", "reversed", "sorted", "str", "super", "dict"):
            return ModRef("builtins." + e.id)
        if e.id in ("ValueError", "RuntimeError", "AssertionError", "NotImplementedError", "TypeError", "IndexError"):
            return Opaque(e.id)
        raise self.und(f"unknown name `{e.id}`", e)

    def attribute(self, e: ast.Attribute):
        base = self.ev(e.value)
        a = e.attr
        if isinstance(base, ModRef):
            return ModRef(base.path + "." + a)
        if isinstance(base, GridObj):
            if a in base.attrs:
                return base.attrs[a]
            m = self._method(a)
            if m is not None:
                decos = {u(d).split(".")[-1] for d in m.decorator_list}
                if "staticmethod" in decos:
                    return Closure(m, None, GRID, f"Grid.{a}")
                if "property" in decos or "cached_property" in decos:
                    return self.apply(Closure(m, None, GRID, f"Grid.{a}", selfval=base), [], {}, e)
                if decos - {"override", "final"}:
                    raise self.und(f"decorated method `{a}` ({sorted(decos)})", e)
                return Closure(m, None, GRID, f"Grid.{a}", selfval=base)
            cconst = self.w.class_constant(GRID, "Grid", a)
            if cconst is not None:
                return Ev(self.w, Scope(), GRID, f"Grid.{a}", self.depth + 1).ev(cconst)
            raise self.und(f"grid attribute `{a}` is not part of the instance", e)
        if isinstance(base, SpM):
            if a in ("indices", "indptr") and base.fmt in ("csc", "csr"):
                return base.b if a == "indices" else base.a
            if a in ("row", "col") and base.fmt == "coo":
                return base.a if a == "row" else base.b
            if a == "data":
                return base.data
            if a == "nnz":
                return base.nnz
            if a == "shape":
                return base.shape
            if a == "T":
                return base.transpose()
            if a == "format":
                return base.fmt
            if a in ("A",):
                return base.dense()
            return _Bound(base, a)
        if isinstance(base, np.ndarray):
            if a == "T":
                return base.T
            if a == "shape":
                return tuple(int(s) for s in base.shape)
            if a == "size":
                return int(base.size)
            if a == "ndim":
                return int(base.ndim)
            if a == "dtype":
                return Opaque("dtype")
            if a == "A1":
                return np.asarray(base).ravel()
            if a == "A":
                return np.asarray(base)
            return _Bound(base, a)
        if isinstance(base, (list, tuple, dict, sp.Basic, int, T, SuperProxy)):
            return _Bound(base, a)
        raise self.und(f"attribute `{u(e)[:50]}`", e)

    def _method(self, name: str):
        cls = self.w.repo.module(GRID).cls("Grid")
        return methods(cls).get(name)

    # ---------------------------------------------------------------- indexing
    def index(self, s: ast.expr):
        if isinstance(s, ast.Slice):
            def b(x):
                if x is None:
                    return None
                v = conc(self.ev(x))
                if not isinstance(v, (int, np.integer)):
                    raise self.und(f"slice bound `{u(x)[:30]}`", x)
                return int(v)
            return slice(b(s.lower), b(s.upper), b(s.step))
        if isinstance(s, ast.Tuple):
            return tuple(self.index(x) for x in s.elts)
        v = self.ev(s)
        if v is None or v is Ellipsis:
            return v
        if isinstance(v, ModRef) and v.path == "numpy.newaxis":
            return None
        if isinstance(v, (list, tuple)):
            v = np.array([conc(x) for x in v])
        v = conc(v)
        if isinstance(v, (bool, np.bool_)):
            raise self.und("boolean scalar index", s)
        if isinstance(v, np.integer):
            return int(v)
        if isinstance(v, (int, np.ndarray, str)):
            return v
        raise self.und(f"index `{u(s)[:40]}`", s)

    def subscript(self, base, idx, e):
        if isinstance(base, SpM):
            return self.sp_index(base, idx, e)
        if isinstance(base, Mat):
            raise self.und(f"indexing of a numpy.matrix value `{u(e)[:40]}`", e)
        if isinstance(base, np.ndarray):
            try:
                r = base[idx]
            except IndexError as err:
                raise ShapeFault(f"`{u(e)[:70]}`: {err}", e)
            if isinstance(r, np.ndarray):
                return r
            return r if base.dtype == object else (bool(r) if base.dtype == bool else int(r))
        if isinstance(base, (list, tuple)):
            if isinstance(idx, (int, slice)):
                try:
                    return base[idx]
                except IndexError:
                    raise self.und(f"`{u(e)[:50]}` index out of range", e)
        if isinstance(base, dict):
            if idx not in base:
                raise self.und(f"`{u(e)[:50]}`: key {idx!r} not in the modelled dictionary", e)
            return base[idx]
        raise self.und(f"subscript `{u(e)[:50]}`", e)

    def sp_index(self, M: SpM, idx, e):
        D = M.dense()
        if isinstance(idx, tuple) and len(idx) == 2:
            i, j = idx
            if isinstance(i, np.ndarray) and isinstance(j, np.ndarray) and i.dtype != bool and j.dtype != bool:
                if i.shape != j.shape:
                    raise ShapeFault(f"`{u(e)[:70]}`: row and column index arrays of shapes {i.shape} and {j.shape}", e)
                try:
                    r = D[i, j]
                except IndexError as err:
                    raise ShapeFault(f"`{u(e)[:70]}`: {err}", e)
                return r.reshape(1, -1).view(Mat)
            if isinstance(i, (int, np.integer)) and isinstance(j, (int, np.integer)):
                try:
                    return D[i, j]
                except IndexError as err:
                    raise ShapeFault(f"`{u(e)[:70]}`: {err}", e)
            try:
                sub = D[np.ix_(_rows(i, D.shape[0]), _rows(j, D.shape[1]))]
            except IndexError as err:
                raise ShapeFault(f"`{u(e)[:70]}`: {err}", e)
            return SpM.from_dense(sub, M.fmt if M.fmt != "coo" else "csr")
        if isinstance(idx, (np.ndarray, slice, int)):
            try:
                sub = D[_rows(idx, D.shape[0]), :]
            except IndexError as err:
                raise ShapeFault(f"`{u(e)[:70]}`: {err}", e)
            return SpM.from_dense(sub, M.fmt if M.fmt != "coo" else "csr")
        raise self.und(f"sparse indexing `{u(e)[:50]}`", e)

    # ---------------------------------------------------------------- arithmetic
    def binop(self, op, l, r, node):
        if isinstance(l, (Opaque, ModRef, Closure, str)) or isinstance(r, (Opaque, ModRef, Closure, str)) or l is None or r is None:
            if isinstance(l, str) and isinstance(r, str) and isinstance(op, ast.Add):
                return "<str>"
            if isinstance(l, str) and isinstance(op, ast.Mod):
                return "<str>"
            raise self.und(f"arithmetic on an unmodelled value in `{u(node)[:60]}`", node)
        if isinstance(l, (list, tuple)) or isinstance(r, (list, tuple)):
            if isinstance(op, ast.Add) and type(l) is type(r):
                return l + r
            l = self.np_array(l) if isinstance(l, (list, tuple)) else l
            r = self.np_array(r) if isinstance(r, (list, tuple)) else r
        sparse = isinstance(l, SpM) or isinstance(r, SpM)
        if isinstance(op, ast.MatMult) or (sparse and isinstance(op, ast.Mult)):
            try:
                if sparse:
                    return sp_matmul(l, r)
                if not (isinstance(l, np.ndarray) and isinstance(r, np.ndarray)):
                    raise self.und(f"`@` on scalars in `{u(node)[:50]}`", node)
                return _matmul_dense(l, r)
            except ShapeFault as sf:
                sf.node = sf.node or node
                raise
        if sparse:
            if isinstance(op, (ast.Add, ast.Sub)) and isinstance(l, SpM) and isinstance(r, SpM):
                if l.shape != r.shape:
                    raise ShapeFault(f"sparse sum of shapes {l.shape} and {r.shape}", node)
                D = self.binop(op, l.dense(), r.dense(), node)
                return SpM.from_dense(D, l.fmt if l.fmt != "coo" else "csr")
            if isinstance(op, ast.Div) and isinstance(l, SpM) and not isinstance(r, (np.ndarray, SpM)):
                return l.map_data(lambda d: self.binop(op, d, r, node))
            raise self.und(f"sparse operation `{u(node)[:60]}`", node)
        if isinstance(l, (bool, np.bool_)):
            l = int(l)
        if isinstance(r, (bool, np.bool_)):
            r = int(r)
        both_conc = is_conc(l) and is_conc(r)
        if both_conc and not isinstance(op, (ast.Div, ast.Pow)):
            l, r = conc(l), conc(r)
        elif both_conc and isinstance(op, ast.Pow) and _nonneg_int(conc(r)):
            l, r = conc(l), conc(r)
        else:
            l, r = obj(l), obj(r)
        try:
            if isinstance(op, ast.Add):
                return ew(lambda x, y: x + y, l, r)
            if isinstance(op, ast.Sub):
                return ew(lambda x, y: x - y, l, r)
            if isinstance(op, ast.Mult):
                return ew(lambda x, y: x * y, l, r)
            if isinstance(op, ast.Div):
                return ew(lambda x, y: x / y, l, r)
            if isinstance(op, ast.Pow):
                return ew(lambda x, y: x ** y, l, r)
            if isinstance(op, ast.FloorDiv) and both_conc:
                return ew(lambda x, y: x // y, l, r)
            if isinstance(op, ast.Mod) and both_conc:
                return ew(lambda x, y: x % y, l, r)
            if isinstance(op, (ast.BitAnd, ast.BitOr, ast.BitXor)) and both_conc:
                f = {ast.BitAnd: lambda x, y: x & y, ast.BitOr: lambda x, y: x | y, ast.BitXor: lambda x, y: x ^ y}[type(op)]
                lb = l.astype(bool) if isinstance(l, np.ndarray) and _boolish(l) else l
                rb = r.astype(bool) if isinstance(r, np.ndarray) and _boolish(r) else r
                return ew(f, lb, rb)
        except ShapeFault as sf:
            sf.node = sf.node or node
            sf.what = f"`{u(node)[:70]}`: {sf.what}"
            raise
        except ZeroDivisionError:
            raise self.und(f"integer division by zero in `{u(node)[:60]}`", node)
        raise self.und(f"operator {type(op).__name__} in `{u(node)[:50]}`", node)

    def compare(self, op, l, r, node):
        if isinstance(op, (ast.Is, ast.IsNot)):
            res = l is r or (l is None and r is None)
            if (l is None) != (r is None):
                res = False
            elif l is not None and not isinstance(l, (bool,)) and l is not r:
                raise self.und(f"identity test `{u(node)[:50]}`", node)
            return res if isinstance(op, ast.Is) else not res
        if isinstance(op, (ast.In, ast.NotIn)):
            if isinstance(r, (list, tuple, dict, str)) and isinstance(l, (int, str)):
                res = l in r
                return res if isinstance(op, ast.In) else not res
            raise self.und(f"membership test `{u(node)[:50]}`", node)
        if isinstance(l, str) or isinstance(r, str):
            if isinstance(l, str) and isinstance(r, str) and isinstance(op, (ast.Eq, ast.NotEq)):
                return (l == r) if isinstance(op, ast.Eq) else (l != r)
            raise self.und(f"comparison `{u(node)[:50]}`", node)
        if isinstance(l, (tuple, list)) and isinstance(r, (tuple, list)) and isinstance(op, (ast.Eq, ast.NotEq)):
            if all(is_conc(x) for x in list(l) + list(r)):
                res = [conc(x) for x in l] == [conc(x) for x in r]
                return res if isinstance(op, ast.Eq) else not res
        if isinstance(l, (SpM, Opaque, ModRef, Closure, GridObj)) or isinstance(r, (SpM, Opaque, ModRef, Closure, GridObj)) or l is None or r is None:
            raise self.und(f"comparison `{u(node)[:50]}`", node)
        pyop = {ast.Lt: lambda x, y: x < y, ast.LtE: lambda x, y: x <= y, ast.Gt: lambda x, y: x > y, ast.GtE: lambda x, y: x >= y,
                ast.Eq: lambda x, y: x == y, ast.NotEq: lambda x, y: x != y}.get(type(op))
        if pyop is None:
            raise self.und(f"comparison `{u(node)[:50]}`", node)
        if is_conc(l) and is_conc(r):
            res = ew(pyop, conc(l), conc(r))
            return bool(res) if not isinstance(res, np.ndarray) else res
        d = self.binop(ast.Sub(), l, r, node)
        what = u(node)[:60]

        def one(x):
            if isinstance(x, NaNTerm):
                return isinstance(op, ast.NotEq)     # numpy: every comparison with nan is False, except !=
            s = self.fam.sign(x, what)
            return bool(pyop(s, 0))
        if isinstance(d, np.ndarray):
            out = np.zeros(d.shape, dtype=bool)
            flat = d.ravel()
            of = out.ravel()
            for k in range(flat.size):
                of[k] = one(flat[k])
            return of.reshape(d.shape)
        return one(d)

    def np_logical(self, kind, a, b, node):
        a, b = conc(a), conc(b)
        for v in (a, b):
            if not (isinstance(v, (bool, np.bool_, int)) or (isinstance(v, np.ndarray) and v.dtype != object)):
                raise self.und(f"logical operation on non-boolean data in `{u(node)[:50]}`", node)
        f = {"and": np.logical_and, "or": np.logical_or, "xor": np.logical_xor}[kind]
        try:
            r = f(a, b)
        except ValueError:
            raise ShapeFault(f"`{u(node)[:70]}`: logical operation on arrays of shapes {np.shape(a)} and {np.shape(b)}", node)
        return bool(r) if not isinstance(r, np.ndarray) or r.ndim == 0 else r

    # ---------------------------------------------------------------- calls
    def call(self, e: ast.Call):
        f = self.ev(e.func)
        args = []
        for a in e.args:
            if isinstance(a, ast.Starred):
                args.extend(self.iterate(self.ev(a.value), a))
            else:
                args.append(self.ev(a))
        kw = {}
        for k in e.keywords:
            if k.arg is None:
                raise self.und(f"**kwargs in `{u(e)[:50]}`", e)
            kw[k.arg] = self.ev(k.value)
        try:
            try:
                if isinstance(f, Closure):
                    return self.apply(f, args, kw, e)
                if isinstance(f, _Bound):
                    return self.method(f.base, f.name, args, kw, e)
                if isinstance(f, ModRef):
                    return self.library(f.path, args, kw, e)
            finally:
                self.fam.where = (self.modrel, self.qual)
        except ShapeFault as sf:
            if sf.node is None:
                sf.node = e
                sf.what = f"`{u(e)[:70]}`: {sf.what}"
            raise
        raise self.und(f"call of `{u(e.func)[:50]}`", e)

    def apply(self, c: Closure, args, kw, node):
        if self.depth >= MAX_DEPTH:
            raise self.und(f"call depth exceeded at `{u(node)[:50]}`", node)
        fn = c.fn
        a = fn.args
        if a.vararg or a.kwarg or a.posonlyargs:
            raise self.und(f"signature of `{fn.name}`", node)
        params = [p.arg for p in a.args]
        scope = Scope(c.scope)
        pos = list(args)
        if c.selfval is not None:
            pos = [c.selfval] + pos
        elif params and params[0] == "self" and c.scope is None and self.modrel == c.modrel:
            pass
        if len(pos) > len(params):
            raise self.und(f"`{u(node)[:60]}`: too many positional arguments for {fn.name}", node)
        for p, v in zip(params, pos):
            scope.vars[p] = v
        for k, v in kw.items():
            if k in scope.vars:
                raise self.und(f"`{u(node)[:60]}`: multiple values for argument {k}", node)
            if k not in params and k not in [p.arg for p in a.kwonlyargs]:
                raise self.und(f"`{u(node)[:60]}`: unexpected keyword {k}", node)
            scope.vars[k] = v
        defaults = dict(zip(params[len(params) - len(a.defaults):], a.defaults))
        for p, d in zip(a.kwonlyargs, a.kw_defaults):
            if d is not None:
                defaults[p.arg] = d
        sub = Ev(self.w, scope, c.modrel, c.qual, self.depth + 1)
        for p in params + [p.arg for p in a.kwonlyargs]:
            if p not in scope.vars:
                if p not in defaults:
                    raise self.und(f"`{u(node)[:60]}`: missing argument {p}", node)
                scope.vars[p] = Ev(self.w, Scope(c.scope), c.modrel, c.qual, self.depth + 1).ev(defaults[p])
        try:
            sub.run_body(body_nodoc(fn))
        except _Return as r:
            return r.value
        return None

    def method(self, base, name, args, kw, node):
        if isinstance(base, SuperProxy):
            raise SuperCall(name, args, kw)
        if isinstance(base, SpM):
            return self.sp_method(base, name, args, kw, node)
        if isinstance(base, list):
            if name == "append" and len(args) == 1:
                base.append(args[0])
                return None
            if name == "extend" and len(args) == 1:
                base.extend(self.iterate(args[0], node))
                return None
            raise self.und(f"list method `{name}`", node)
        if isinstance(base, dict):
            if name == "get" and 1 <= len(args) <= 2:
                return base.get(conc(args[0]), args[1] if len(args) == 2 else None)
            if name in ("items", "keys", "values") and not args:
                return [tuple(kv) for kv in base.items()] if name == "items" else list(getattr(base, name)())
            raise self.und(f"dict method `{name}`", node)
        if isinstance(base, Mat):
            if name in ("ravel", "flatten", "squeeze") and not args:
                return np.asarray(base).ravel()
            raise self.und(f"method `{name}` of a numpy.matrix value", node)
        if isinstance(base, np.ndarray):
            table = {"sum": "numpy.sum", "mean": "numpy.mean", "reshape": "numpy.reshape", "transpose": "numpy.transpose",
                     "max": "numpy.max", "min": "numpy.min", "ravel": "numpy.ravel", "flatten": "numpy.ravel", "squeeze": "numpy.squeeze",
                     "dot": "numpy.dot", "any": "numpy.any", "all": "numpy.all", "argmax": "numpy.argmax", "argmin": "numpy.argmin",
                     "cumsum": "numpy.cumsum", "copy": "numpy.copy", "astype": "numpy.astype", "prod": "numpy.prod",
                     "nonzero": "numpy.nonzero", "repeat": "numpy.repeat", "swapaxes": "numpy.swapaxes", "tolist": "numpy.tolist"}
            if name == "reshape" and len(args) > 1:
                args = [tuple(args)]
            if name == "transpose" and len(args) > 1:
                args = [tuple(args)]
            if name == "fill" and len(args) == 1:
                base[...] = obj(args[0]) if base.dtype == object else conc(args[0])
                return None
            if name in table:
                return self.library(table[name], [base] + list(args), kw, node)
            raise self.und(f"array method `{name}`", node)
        if isinstance(base, (sp.Basic, T)) and name in ("item",):
            return base
        raise self.und(f"method `{name}` on {type(base).__name__}", node)

    def sp_method(self, M: SpM, name, args, kw, node):
        if name in ("tocsc", "tocsr", "tocoo"):
            return M.to(name[2:])
        if name == "asformat" and args and isinstance(args[0], str):
            return M.to(args[0])
        if name == "transpose" and not args:
            return M.transpose()
        if name == "copy":
            return M.to(M.fmt)
        if name in ("sort_indices", "sum_duplicates", "eliminate_zeros", "prune"):
            # products / conversions of the model are already sorted, duplicate-free and without explicit zeros
            if name == "sort_indices" and M.fmt in ("csc", "csr"):
                S = M.to("coo").to(M.fmt)
                M.a, M.b, M.data = S.a, S.b, S.data
            return None
        if name in ("toarray", "todense"):
            return M.dense()
        if name == "astype":
            return M.map_data(lambda d: self.library("numpy.astype", [d] + list(args), kw, node))
        if name == "getnnz":
            ax = kw.get("axis", args[0] if args else None)
            D = M.dense() != 0
            return int(D.sum()) if ax is None else D.sum(axis=int(ax)).astype(np.int64)
        if name == "dot" and len(args) == 1:
            return sp_matmul(M, args[0])
        if name == "multiply" and len(args) == 1 and not isinstance(args[0], (np.ndarray, SpM)):
            return M.map_data(lambda d: self.binop(ast.Mult(), d, args[0], node))
        if name == "sum":
            ax = kw.get("axis", args[0] if args else None)
            D = obj(M.dense())
            if ax is None:
                return D.sum()
            r = D.sum(axis=int(ax))
            return (r.reshape(1, -1) if int(ax) == 0 else r.reshape(-1, 1)).view(Mat)
        if name == "nonzero" and not args:
            r, c, _ = M.to("coo").triplets()
            return (r, c)
        if name == "power" and len(args) == 1:
            return M.map_data(lambda d: self.binop(ast.Pow(), d, args[0], node))
        if name == "__abs__":
            return M.map_data(lambda d: self.np_abs(d, node))
        raise self.und(f"sparse method `{name}`", node)

    # ---------------------------------------------------------------- library table
    def library(self, path: str, args, kw, node):
        if path in IGNORED_CALLS or path.startswith("logging.") or path.endswith(".warn") or path == "warnings.warn":
            return None
        if path.startswith("builtins."):
            return self.builtin(path[9:], args, kw, node)
        if path.startswith("numpy."):
            name = path[6:]
            fn = getattr(self, "np_" + name.replace(".", "_"), None)
            if fn is None:
                raise self.und(f"numpy function `{name}` is not in the evaluator's table", node)
            return fn(*args, node=node, **kw)
        if path.startswith("scipy.sparse."):
            return self.sps(path[13:], args, kw, node)
        if path.startswith("porepy.") or path.startswith("porepy"):
            last = path.split(".")[-1]
            if last in PRIMITIVE_PP:
                if PRIMITIVE_PP[last] == "repeat":
                    if len(args) != 2:
                        raise self.und("rldecode arity", node)
                    return self.np_repeat(args[0], args[1], node=node)
                if PRIMITIVE_PP[last] == "find":
                    return self.sps("find", args, kw, node)
            hit = self.w.porepy_function(path)
            if hit is not None:
                rel, fn = hit
                return self.apply(Closure(fn, None, rel, fn.name), args, kw, node)
        raise self.und(f"call of `{path}` is not modelled", node)

    def builtin(self, name, args, kw, node):
        if name == "range":
            return range(*[int(conc(a)) for a in args])
        if name == "len":
            v = args[0]
            if isinstance(v, np.ndarray):
                return int(v.shape[0])
            if isinstance(v, (list, tuple, dict, str)):
                return len(v)
        if name in ("int", "float", "bool"):
            v = args[0]
            if isinstance(v, np.ndarray) and v.size == 1:
                v = v.ravel()[0]
            if name == "bool":
                return self.truth(v, node)
            if name == "float":
                return obj(v) if not isinstance(v, np.ndarray) else v
            v = conc(v)
            if isinstance(v, (int, np.integer, bool, np.bool_)):
                return int(v)
        if name == "abs":
            return self.np_abs(args[0], node=node)
        if name in ("sum",) and len(args) == 1 and isinstance(args[0], (list, tuple)):
            acc = 0
            for v in args[0]:
                acc = self.binop(ast.Add(), acc, v, node)
            return acc
        if name in ("max", "min") and args:
            vals = list(args[0]) if len(args) == 1 and isinstance(args[0], (list, tuple, np.ndarray)) else list(args)
            return (self.np_max if name == "max" else self.np_min)(np.array([obj(v) for v in vals], dtype=object), node=node) \
                if not all(is_conc(v) for v in vals) else (max if name == "max" else min)(int(conc(v)) for v in vals)
        if name == "enumerate":
            start = int(conc(args[1])) if len(args) > 1 else int(conc(kw.get("start", 0)))
            return [(start + i, v) for i, v in enumerate(self.iterate(args[0], node))]
        if name == "zip":
            return [tuple(t) for t in zip(*[self.iterate(a, node) for a in args])]
        if name in ("tuple", "list"):
            vals = self.iterate(args[0], node) if args else []
            return tuple(vals) if name == "tuple" else list(vals)
        if name == "reversed":
            return list(reversed(self.iterate(args[0], node)))
        if name == "hasattr" and isinstance(args[0], GridObj) and isinstance(args[1], str):
            return args[1] in args[0].attrs or self._method(args[1]) is not None
        if name == "any" or name == "all":
            vals = [self.truth(v, node) for v in self.iterate(args[0], node)]
            return any(vals) if name == "any" else all(vals)
        if name in ("print", "str"):
            return "<str>" if name == "str" else None
        if name == "super" and not args:
            return SuperProxy()
        if name == "isinstance" and len(args) == 2:
            kinds = args[1] if isinstance(args[1], tuple) else (args[1],)
            res = False
            for k_ in kinds:
                path = k_.path if isinstance(k_, ModRef) else None
                py = {"builtins.dict": dict, "builtins.list": list, "builtins.tuple": tuple, "builtins.str": str, "numpy.ndarray": np.ndarray}.get(path)
                if py is not None:
                    res = res or (isinstance(args[0], py) and not isinstance(args[0], Mat))
                elif path in ("builtins.int", "builtins.float"):
                    v = args[0]
                    if isinstance(v, (bool, np.ndarray, dict, list, tuple, str)) or v is None:
                        continue
                    if isinstance(v, int):
                        res = res or path == "builtins.int"
                    else:
                        raise self.und("isinstance of a symbolic number", node)
                else:
                    raise self.und(f"isinstance against `{path}`", node)
            return res
        raise self.und(f"builtin `{name}` in `{u(node)[:50]}`", node)

    def sps(self, name, args, kw, node):
        if name in ("csc_matrix", "csr_matrix", "coo_matrix", "csc_array", "csr_array", "coo_array"):
            fmt = name[:3]
            a0 = args[0] if args else None
            shape = kw.get("shape", args[1] if len(args) > 1 and isinstance(args[1], tuple) else None)
            dt = kw.get("dtype")
            if isinstance(a0, SpM):
                M = a0.to(fmt)
            elif isinstance(a0, tuple) and len(a0) == 2 and isinstance(a0[1], tuple) and len(a0[1]) == 2:
                data, (r, c) = a0
                r, c = conc(self.np_array(r)), conc(self.np_array(c))
                data = self.np_array(data) if not isinstance(data, np.ndarray) else data
                if not (r.shape == c.shape == data.shape):
                    raise ShapeFault(f"`{u(node)[:70]}`: data/row/column arrays of sizes {data.shape}, {r.shape}, {c.shape}", node)
                if shape is None:
                    shape = (int(r.max()) + 1 if r.size else 0, int(c.max()) + 1 if c.size else 0)
                else:
                    shape = tuple(int(conc(s)) for s in shape)
                    if r.size and (r.max() >= shape[0] or c.max() >= shape[1]):
                        raise KernelRaises(f"`{u(node)[:60]}`: index exceeds matrix dimension", node)
                M = SpM.from_triplets(shape, r, c, data, fmt)
            elif isinstance(a0, np.ndarray) and a0.ndim == 2:
                M = SpM.from_dense(a0.copy(), fmt)
            else:
                raise self.und(f"sparse constructor `{u(node)[:60]}`", node)
            if dt is not None:
                M = M.map_data(lambda d: self.np_astype(d, dt, node=node))
            return M
        if name == "find":
            if len(args) < 1 or not isinstance(args[0], SpM):
                raise self.und(f"`{u(node)[:50]}`: argument is not a sparse matrix", node)
            r, c, d = args[0].to("coo").triplets() if args[0].fmt != "coo" else args[0].triplets()
            return (r.copy(), c.copy(), d.copy())
        if name in ("eye", "identity"):
            n = int(conc(args[0]))
            return SpM.from_dense(np.eye(n, dtype=np.int64), "csr")
        if name == "diags" and len(args) >= 1 and isinstance(args[0], np.ndarray) and args[0].ndim == 1:
            n = args[0].shape[0]
            return SpM.from_triplets((n, n), np.arange(n), np.arange(n), args[0], "csr")
        if name == "issparse":
            return isinstance(args[0], SpM)
        raise self.und(f"scipy.sparse.{name} is not in the evaluator's table", node)

    # ---------------------------------------------------------------- numpy table
    @staticmethod
    def _kind(dt) -> str:
        if isinstance(dt, ModRef):
            last = dt.path.split(".")[-1]
            if last.startswith("int") or last.startswith("uint"):
                return "int"
            if last.startswith("float") or last == "double":
                return "float"
            if last.startswith("bool"):
                return "bool"
        if isinstance(dt, str):
            return "int" if dt.startswith("int") else "float" if dt.startswith("float") else "bool" if dt.startswith("bool") else "?"
        return "?"

    def _axis(self, ax, node):
        if ax is None:
            return None
        ax = conc(ax)
        if isinstance(ax, (int, np.integer)):
            return int(ax)
        if isinstance(ax, tuple):
            return tuple(int(conc(a)) for a in ax)
        raise self.und("axis argument", node)

    def np_array(self, a, dtype=None, node=None, copy=None, ndmin=None):
        if isinstance(a, np.ndarray):
            r = a.copy()
        else:
            a = _listify(a)
            flat = list(_flatten(a))
            if all(is_conc(x) and not isinstance(x, np.ndarray) for x in flat):
                r = np.array(_mapnest(a, conc))
                if r.dtype == object:
                    raise self.und("ragged array literal", node)
            else:
                tmp = _mapnest(a, obj)
                shp = np.shape(np.array(_mapnest(a, lambda x: 0)))
                r = np.empty(shp, dtype=object)
                for ix in itertools.product(*[range(s) for s in shp]):
                    v = tmp
                    for i in ix:
                        v = v[i]
                    r[ix] = v
        if dtype is not None:
            r = self.np_astype(r, dtype, node=node)
        return r

    np_asarray = np_array
    np_atleast_1d = np_array

    def np_astype(self, a, dtype, node=None, copy=None):
        k = self._kind(dtype)
        if not isinstance(a, np.ndarray):
            a = self.np_array([a])[0] if False else a
        if k == "float":
            return obj(a).copy() if isinstance(a, np.ndarray) else obj(a)
        if k == "int":
            if is_conc(a):
                c = conc(a)
                return c.astype(np.int64) if isinstance(c, np.ndarray) else int(c)
            c = conc(a)     # raises Undecided for symbolic data
            return c.astype(np.int64)
        if k == "bool":
            if is_conc(a):
                c = conc(a)
                return c.astype(bool) if isinstance(c, np.ndarray) else bool(c)
            out = np.zeros(a.shape, dtype=bool)
            of, fl = out.ravel(), a.ravel()
            for i in range(fl.size):
                of[i] = self.fam.sign(fl[i], "conversion to bool") != 0
            return of.reshape(a.shape)
        raise self.und(f"dtype conversion in `{u(node)[:50]}`", node)

    def np_copy(self, a, node=None, **kw):
        return a.copy() if isinstance(a, np.ndarray) else a

    def np_tolist(self, a, node=None):
        return [a[i] for i in range(a.shape[0])] if a.ndim == 1 else [self.np_tolist(a[i]) for i in range(a.shape[0])]

    def _shape(self, s):
        s = conc(s)
        if isinstance(s, (int, np.integer)):
            return (int(s),)
        return tuple(int(conc(x)) for x in s)

    def np_zeros(self, shape, dtype=None, node=None, **kw):
        shp = self._shape(shape)
        k = self._kind(dtype) if dtype is not None else "float"
        if k == "int":
            return np.zeros(shp, dtype=np.int64)
        if k == "bool":
            return np.zeros(shp, dtype=bool)
        return zeros_obj(shp)

    np_empty = np_zeros

    def np_ones(self, shape, dtype=None, node=None, **kw):
        z = self.np_zeros(shape, dtype, node=node)
        if z.dtype == object:
            z[...] = sp.Integer(1)
            return z
        return z + 1 if z.dtype != bool else ~z

    def np_full(self, shape, value, dtype=None, node=None, **kw):
        z = zeros_obj(self._shape(shape))
        z[...] = obj(value)
        return z if not is_conc(value) else conc(z) if dtype is None or self._kind(dtype) == "int" else z

    def np_zeros_like(self, a, dtype=None, node=None, **kw):
        if dtype is None and isinstance(a, np.ndarray) and a.dtype != object:
            return np.zeros(a.shape, dtype=a.dtype)
        return self.np_zeros(a.shape, dtype, node=node)

    def np_ones_like(self, a, dtype=None, node=None, **kw):
        return self.np_ones(a.shape, dtype, node=node)

    np_empty_like = np_zeros_like

    def np_arange(self, *a, node=None, dtype=None):
        v = [conc(x) for x in a]
        if not all(isinstance(x, (int, np.integer)) for x in v):
            raise self.und("np.arange with non-integer arguments", node)
        return np.arange(*[int(x) for x in v])

    def np_linspace(self, start, stop, num=50, node=None, **kw):
        if kw:
            raise self.und("np.linspace with options", node)
        n = conc(num)
        if not isinstance(n, (int, np.integer)) or n < 2:
            raise self.und("np.linspace with a symbolic / degenerate number of points", node)
        a, b = obj(start), obj(stop)
        if isinstance(a, np.ndarray) and a.ndim == 0:
            a = a[()]
        if isinstance(b, np.ndarray) and b.ndim == 0:
            b = b[()]
        step = self.binop(ast.Div(), self.binop(ast.Sub(), b, a, node), int(n) - 1, node)
        rows = [self.binop(ast.Add(), a, self.binop(ast.Mult(), i, step, node), node) for i in range(int(n))]
        if isinstance(rows[0], np.ndarray):
            return np.stack([obj(r) for r in rows], axis=0)
        out = np.empty(int(n), dtype=object)
        for i, r in enumerate(rows):
            out[i] = r
        return out

    def np_eye(self, n, node=None, **kw):
        return obj(np.eye(int(conc(n)), dtype=np.int64))

    def np_sqrt(self, a, node=None):
        a = obj(a)
        if isinstance(a, np.ndarray):
            out = np.empty(a.shape, dtype=object)
            of, fl = out.ravel(), a.ravel()
            for i in range(fl.size):
                of[i] = self.fam.sqrt(fl[i])
            return of.reshape(a.shape)
        return self.fam.sqrt(a)

    def np_square(self, a, node=None):
        return self.binop(ast.Mult(), a, a, node)

    def np_power(self, a, b, node=None):
        return self.binop(ast.Pow(), a, b, node)

    def np_multiply(self, a, b, node=None):
        return self.binop(ast.Mult(), a, b, node)

    def np_add(self, a, b, node=None):
        return self.binop(ast.Add(), a, b, node)

    def np_subtract(self, a, b, node=None):
        return self.binop(ast.Sub(), a, b, node)

    def np_divide(self, a, b, node=None):
        return self.binop(ast.Div(), a, b, node)

    np_true_divide = np_divide

    def np_add_at(self, a, idx, vals, node=None):
        """np.add.at(a, idx, vals): unbuffered in-place accumulation (1-d index into the last axis of a 1-d / first axis otherwise)"""
        idx = conc(idx)
        if not isinstance(a, np.ndarray) or not isinstance(idx, np.ndarray) or idx.ndim != 1 or a.dtype != object and not is_conc(vals):
            raise self.und("np.add.at form", node)
        v = vals if isinstance(vals, np.ndarray) else np.full(idx.shape, obj(vals), dtype=object)
        if v.shape[0] != idx.shape[0]:
            raise ShapeFault(f"`{u(node)[:70]}`: values of size {v.shape} accumulated with an index array of size {idx.shape}", node)
        v = obj(v) if a.dtype == object else conc(v)
        try:
            for k in range(idx.shape[0]):
                a[idx[k]] = a[idx[k]] + v[k]
        except IndexError as err:
            raise ShapeFault(f"`{u(node)[:70]}`: {err}", node)
        return None

    def np_outer(self, a, b, node=None):
        a, b = obj(np.asarray(a).ravel() if is_conc(a) else a.ravel()), obj(np.asarray(b).ravel() if is_conc(b) else b.ravel())
        out = np.empty((a.shape[0], b.shape[0]), dtype=object)
        for i in range(a.shape[0]):
            for j in range(b.shape[0]):
                out[i, j] = a[i] * b[j]
        return out

    def np_count_nonzero(self, a, node=None, axis=None):
        a = conc(a)
        r = np.count_nonzero(a, axis=self._axis(axis, node))
        return int(r) if not isinstance(r, np.ndarray) else r

    def np_negative(self, a, node=None):
        return self.binop(ast.Mult(), -1, a, node)

    def np_abs(self, a, node=None):
        if isinstance(a, SpM):
            return a.map_data(lambda d: self.np_abs(d, node=node))
        if is_conc(a):
            c = conc(a)
            return np.abs(c) if isinstance(c, np.ndarray) else abs(c)
        a = obj(a)
        if isinstance(a, np.ndarray):
            out = np.empty(a.shape, dtype=object)
            of, fl = out.ravel(), a.ravel()
            for i in range(fl.size):
                of[i] = NAN if isinstance(fl[i], NaNTerm) else fl[i] * self.fam.sign(fl[i], "np.abs")
            return of.reshape(a.shape)
        return NAN if isinstance(a, NaNTerm) else a * self.fam.sign(a, "abs")

    np_absolute = np_abs
    np_fabs = np_abs

    def np_sign(self, a, node=None):
        if is_conc(a):
            c = conc(a)
            return np.sign(c)
        a = obj(a)
        if isinstance(a, np.ndarray):
            out = np.zeros(a.shape, dtype=np.int64)
            of, fl = out.ravel(), a.ravel()
            for i in range(fl.size):
                of[i] = self.fam.sign(fl[i], "np.sign")
            return of.reshape(a.shape)
        return self.fam.sign(a, "np.sign")

    def _reduce(self, a, axis, node, how, keepdims=False):
        axis = self._axis(axis, node)
        if isinstance(a, (list, tuple)):
            a = self.np_array(a)
        if isinstance(a, SpM):
            return self.sp_method(a, "sum", [], {"axis": axis}, node) if how == "sum" else self.und("reduction of a sparse matrix", node)
        if not isinstance(a, np.ndarray):
            return a
        if isinstance(a, Mat):
            raise self.und("reduction of a numpy.matrix value", node)
        try:
            if how == "sum":
                if a.dtype == bool:
                    a = a.astype(np.int64)
                r = a.sum(axis=axis, keepdims=keepdims) if a.size else (zeros_obj(()) if axis is None else a.sum(axis=axis, keepdims=keepdims))
            elif how == "prod":
                r = a.prod(axis=axis, keepdims=keepdims)
            else:
                raise self.und("reduction", node)
        except (ValueError, np.exceptions.AxisError) as err:
            raise ShapeFault(f"`{u(node)[:60]}`: {err}", node)
        if isinstance(r, np.ndarray) and r.ndim == 0:
            r = r[()]
        if isinstance(r, (np.integer,)):
            r = int(r)
        return r

    def np_sum(self, a, axis=None, node=None, keepdims=False, dtype=None):
        return self._reduce(a, axis, node, "sum", bool(keepdims))

    def np_prod(self, a, axis=None, node=None, keepdims=False):
        return self._reduce(a, axis, node, "prod", bool(keepdims))

    def np_mean(self, a, axis=None, node=None, keepdims=False):
        if isinstance(a, (list, tuple)):
            a = self.np_array(a)
        ax = self._axis(axis, node)
        s = self._reduce(a, ax, node, "sum", bool(keepdims))
        if ax is None:
            n = a.size
        else:
            try:
                n = int(np.prod([a.shape[i] for i in (ax if isinstance(ax, tuple) else (ax,))]))
            except IndexError as err:
                raise ShapeFault(f"`{u(node)[:60]}`: {err}", node)
        return self.binop(ast.Div(), s, n, node)

    np_average = np_mean

    def np_cumsum(self, a, axis=None, node=None, dtype=None):
        if is_conc(a):
            return np.cumsum(conc(a), axis=self._axis(axis, node))
        a = obj(a)
        if a.ndim != 1:
            raise self.und("cumsum of a symbolic 2-d array", node)
        out, acc = np.empty(a.shape, dtype=object), sp.Integer(0)
        for i in range(a.size):
            acc = acc + a[i]
            out[i] = acc
        return out

    def np_diff(self, a, node=None, **kw):
        if kw:
            raise self.und("np.diff with options", node)
        return self.binop(ast.Sub(), a[1:], a[:-1], node)

    def np_dot(self, a, b, node=None):
        if isinstance(a, SpM) or isinstance(b, SpM):
            return sp_matmul(a, b)
        if not isinstance(a, np.ndarray) or not isinstance(b, np.ndarray):
            return self.binop(ast.Mult(), a, b, node)
        return _matmul_dense(a, b)

    np_matmul = np_dot

    def np_cross(self, a, b, axisa=-1, axisb=-1, axisc=-1, axis=None, node=None):
        if axis is not None:
            axisa = axisb = axisc = int(conc(axis))
        a, b = obj(self.np_array(a) if not isinstance(a, np.ndarray) else a), obj(self.np_array(b) if not isinstance(b, np.ndarray) else b)
        try:
            A = np.moveaxis(a, int(conc(axisa)), -1)
            B = np.moveaxis(b, int(conc(axisb)), -1)
        except (ValueError, np.exceptions.AxisError) as err:
            raise ShapeFault(f"`{u(node)[:60]}`: {err}", node)
        if A.shape[-1] != 3 or B.shape[-1] != 3:
            raise ShapeFault(f"`{u(node)[:60]}`: cross product of vectors with {A.shape[-1]} and {B.shape[-1]} components along the chosen axis", node)
        try:
            np.broadcast_shapes(A.shape, B.shape)
        except ValueError:
            raise ShapeFault(f"`{u(node)[:60]}`: cross product of arrays of shapes {a.shape} and {b.shape}", node)
        c0 = A[..., 1] * B[..., 2] - A[..., 2] * B[..., 1]
        c1 = A[..., 2] * B[..., 0] - A[..., 0] * B[..., 2]
        c2 = A[..., 0] * B[..., 1] - A[..., 1] * B[..., 0]
        if not isinstance(c0, np.ndarray):
            out = np.empty(3, dtype=object)
            out[0], out[1], out[2] = c0, c1, c2
            return out
        C = np.stack([c0, c1, c2], axis=-1)
        return np.moveaxis(C, -1, int(conc(axisc))) if C.ndim > 1 else C

    def np_linalg_norm(self, a, ord=None, axis=None, node=None, keepdims=False):
        if ord is not None and conc(ord) != 2:
            raise self.und("norm other than the 2-norm", node)
        a = obj(a if isinstance(a, np.ndarray) else self.np_array(a))
        if axis is None and a.ndim > 1:
            raise self.und("matrix norm", node)
        s = self._reduce(a * a, axis, node, "sum", bool(keepdims))
        return self.np_sqrt(s, node=node)

    def np_bincount(self, x, weights=None, minlength=0, node=None):
        x = conc(x)
        if not isinstance(x, np.ndarray) or x.ndim != 1 or x.dtype == bool and False:
            raise self.und("np.bincount of a non-1-d index array", node)
        if x.dtype == bool:
            x = x.astype(np.int64)
        n = max(int(x.max()) + 1 if x.size else 0, int(conc(minlength)))
        if weights is None:
            return np.bincount(x, minlength=n)
        w = weights
        if not isinstance(w, np.ndarray) or w.ndim != 1 or w.shape != x.shape:
            raise ShapeFault(f"`{u(node)[:80]}`: the weights (shape {getattr(w, 'shape', '?')}) do not live on the index array's domain "
                             f"(size {x.shape[0]})", node)
        if w.dtype != object:
            w = obj(w.astype(np.int64))
        out = zeros_obj(n)
        for k in range(x.size):
            out[x[k]] = out[x[k]] + w[k]
        return out

    def np_repeat(self, a, n, axis=None, node=None):
        n = conc(n)
        if isinstance(n, np.ndarray) and isinstance(a, np.ndarray) and axis is None and n.shape != a.shape:
            raise ShapeFault(f"`{u(node)[:70]}`: repeat counts of size {n.shape} for an array of size {a.shape}", node)
        a = a if isinstance(a, np.ndarray) else self.np_array([a])
        return np.repeat(a, n, axis=self._axis(axis, node))

    def np_tile(self, a, reps, node=None):
        reps = conc(reps)
        reps = tuple(int(conc(r)) for r in reps) if isinstance(reps, (tuple, list, np.ndarray)) else int(reps)
        return np.tile(a if isinstance(a, np.ndarray) else self.np_array(a), reps)

    def _stack(self, seq, node, f):
        arrs = [x if isinstance(x, np.ndarray) else self.np_array(x) if isinstance(x, (list, tuple)) else np.array([obj(x)], dtype=object)[0:1].reshape(())
                for x in seq]
        if any(a.dtype == object for a in arrs):
            arrs = [obj(a) for a in arrs]
        try:
            return f(arrs)
        except ValueError as err:
            raise ShapeFault(f"`{u(node)[:70]}`: {err}", node)

    def np_vstack(self, seq, node=None):
        return self._stack(seq, node, np.vstack)

    def np_hstack(self, seq, node=None):
        return self._stack(seq, node, np.hstack)

    def np_concatenate(self, seq, axis=0, node=None):
        return self._stack(seq, node, lambda a: np.concatenate(a, axis=self._axis(axis, node)))

    def np_stack(self, seq, axis=0, node=None):
        return self._stack(seq, node, lambda a: np.stack(a, axis=self._axis(axis, node)))

    def np_column_stack(self, seq, node=None):
        return self._stack(seq, node, np.column_stack)

    def np_reshape(self, a, shape, node=None, order=None):
        if order not in (None, "C", "F"):
            raise self.und("reshape order", node)
        shp = self._shape(shape)
        try:
            return np.reshape(a, shp, order=order or "C")
        except ValueError as err:
            raise ShapeFault(f"`{u(node)[:60]}`: {err}", node)

    def np_transpose(self, a, axes=None, node=None):
        if isinstance(a, SpM):
            return a.transpose()
        return np.transpose(a, self._axis(axes, node))

    def np_swapaxes(self, a, i, j, node=None):
        return np.swapaxes(a, int(conc(i)), int(conc(j)))

    def np_ravel(self, a, node=None, order=None):
        return np.asarray(a).ravel()

    def np_squeeze(self, a, axis=None, node=None):
        return np.squeeze(np.asarray(a), axis=self._axis(axis, node)) if isinstance(a, np.ndarray) else a

    def np_atleast_2d(self, a, node=None):
        return np.atleast_2d(a if isinstance(a, np.ndarray) else self.np_array([a]))

    def np_max(self, a, axis=None, node=None, **kw):
        return self._extreme(a, axis, node, +1)

    def np_min(self, a, axis=None, node=None, **kw):
        return self._extreme(a, axis, node, -1)

    np_amax, np_amin = np_max, np_min

    def _argext(self, vec, sgn, node):
        """index of the (first) extreme entry of a 1-d symbolic vector, the same at every placement"""
        cols = [self.fam.nums(v) for v in vec]
        picks = set()
        for k in range(len(self.fam.place)):
            vals = [sgn * c[k] for c in cols]
            best = max(range(len(vals)), key=lambda i: (vals[i], -i))
            near = [i for i in range(len(vals)) if i != best and abs(vals[i] - vals[best]) <= 1e-9 * max(abs(v_) for v_ in vals)]
            if near:
                # ties: numpy takes the first; a symbolic tie must be an identity
                first = min([best] + near)
                for i in [best] + near:
                    if i != first and self.fam.iszero(vec[i] - vec[first]) is not True:
                        raise self.und("argmax/argmin/max/min with a near-tie at a placement", node)
                best = first
            picks.add(best)
        if len(picks) != 1:
            raise self.und("argmax/argmin/max/min falls differently on the placements", node)
        w = picks.pop()
        if self.fam.log is not None:
            for i in range(len(vec)):
                if i != w:
                    try:
                        self.fam.record(f"{'argmax' if sgn > 0 else 'argmin'} in `{u(node)[:50]}`", (vec[w] - vec[i]) * sgn)
                    except (Undecided, _IsNaN, TypeError):
                        pass
        return w

    def _extreme(self, a, axis, node, sgn, arg=False):
        if is_conc(a):
            c = conc(a)
            f = (np.argmax if sgn > 0 else np.argmin) if arg else (np.max if sgn > 0 else np.min)
            r = f(c, axis=self._axis(axis, node)) if isinstance(c, np.ndarray) else c
            return int(r) if not isinstance(r, np.ndarray) else r
        a = obj(a if isinstance(a, np.ndarray) else self.np_array(a))
        ax = self._axis(axis, node)
        if ax is None:
            flat = a.ravel()
            i = self._argext(list(flat), sgn, node)
            return i if arg else flat[i]
        if a.ndim != 2 or ax not in (0, 1, -1):
            raise self.und("max/min along an axis of an array that is not 2-d", node)
        A = a if ax in (1, -1) else a.T
        idx = [self._argext(list(A[r]), sgn, node) for r in range(A.shape[0])]
        if arg:
            return np.array(idx, dtype=np.int64)
        out = np.empty(len(idx), dtype=object)
        for r, i in enumerate(idx):
            out[r] = A[r, i]
        return out

    def np_argmax(self, a, axis=None, node=None):
        return self._extreme(a, axis, node, +1, arg=True)

    def np_argmin(self, a, axis=None, node=None):
        return self._extreme(a, axis, node, -1, arg=True)

    def np_maximum(self, a, b, node=None):
        g = self.compare(ast.GtE(), a, b, node)
        return self.np_where(g, a, b, node=node)

    def np_minimum(self, a, b, node=None):
        g = self.compare(ast.LtE(), a, b, node)
        return self.np_where(g, a, b, node=node)

    def np_where(self, c, a=None, b=None, node=None):
        c = conc(c)
        if a is None:
            return np.where(c)
        if isinstance(c, (bool, np.bool_)):
            return a if c else b
        A, B = obj(a), obj(b)
        try:
            shp = np.broadcast_shapes(c.shape, np.shape(A), np.shape(B))
        except ValueError:
            raise ShapeFault(f"`{u(node)[:60]}`: np.where on arrays of different index spaces", node)
        C, A, B = np.broadcast_to(c, shp), np.broadcast_to(A, shp), np.broadcast_to(B, shp)
        out = np.empty(shp, dtype=object)
        for ix in np.ndindex(*shp):
            out[ix] = A[ix] if C[ix] else B[ix]
        return out

    def np_nonzero(self, a, node=None):
        return np.nonzero(conc(a))

    def np_flatnonzero(self, a, node=None):
        return np.flatnonzero(conc(a))

    def np_unique(self, a, node=None, **kw):
        return np.unique(conc(a), **{k: bool(v) for k, v in kw.items()})

    def np_sort(self, a, node=None, axis=-1):
        return np.sort(conc(a), axis=self._axis(axis, node))

    def np_argsort(self, a, node=None, **kw):
        return np.argsort(conc(a), kind="stable")

    def np_any(self, a, axis=None, node=None):
        a = conc(a)
        if isinstance(a, np.ndarray):
            r = np.any(a, axis=self._axis(axis, node))
            return bool(r) if not isinstance(r, np.ndarray) else r
        return bool(a)

    def np_all(self, a, axis=None, node=None):
        a = conc(a)
        if isinstance(a, np.ndarray):
            r = np.all(a, axis=self._axis(axis, node))
            return bool(r) if not isinstance(r, np.ndarray) else r
        return bool(a)

    def np_logical_and(self, a, b, node=None):
        return self.np_logical("and", a, b, node)

    def np_logical_or(self, a, b, node=None):
        return self.np_logical("or", a, b, node)

    def np_logical_xor(self, a, b, node=None):
        return self.np_logical("xor", a, b, node)

    def np_logical_not(self, a, node=None):
        a = conc(a)
        return np.logical_not(a) if isinstance(a, np.ndarray) else (not a)

    def np_isclose(self, a, b, rtol=None, atol=None, node=None, **kw):
        """decided numerically at the placements (all must agree per entry): |a - b| <= atol + rtol * |b|"""
        rt = sp.Rational(1, 10 ** 5) if rtol is None else rtol
        at = sp.Rational(1, 10 ** 8) if atol is None else atol
        ops = [obj(x if not isinstance(x, (list, tuple)) else self.np_array(x)) for x in (a, b, rt, at)]
        try:
            shp = np.broadcast_shapes(*[np.shape(x) for x in ops])
        except ValueError:
            raise ShapeFault(f"`{u(node)[:60]}`: isclose on arrays of shapes {np.shape(ops[0])} and {np.shape(ops[1])}", node)
        A, B, RT, AT = [np.broadcast_to(np.asarray(x, dtype=object), shp) for x in ops]
        out = np.zeros(shp, dtype=bool)
        for ix in np.ndindex(*shp):
            va, vb, vr, vt = (self.fam.nums(x[ix]) for x in (A, B, RT, AT))
            res = {abs(x - y) <= t + r * abs(y) for x, y, r, t in zip(va, vb, vr, vt)}
            if len(res) != 1:
                raise self.und("np.isclose falls differently on the placements", node)
            out[ix] = res.pop()
            if self.fam.log is not None:
                try:
                    bnd = AT[ix] + RT[ix] * (B[ix] * self.fam.sign(B[ix], "isclose") if not self.fam.iszero(B[ix]) else 0)
                    dif = A[ix] - B[ix]
                    self.fam.record(f"isclose in `{u(node)[:50]}`", bnd * bnd - dif * dif)
                except (Undecided, _IsNaN, TypeError):
                    pass
        return out if shp else bool(out[()])

    def np_allclose(self, a, b, rtol=None, atol=None, node=None, **kw):
        return self.np_all(self.np_isclose(a, b, rtol=rtol, atol=atol, node=node), node=node)

    def np_einsum(self, spec, *ops, node=None):
        if not isinstance(spec, str) or "->" not in spec or "." in spec:
            raise self.und("einsum form", node)
        ins, out = spec.replace(" ", "").split("->")
        ins = ins.split(",")
        ops = [obj(o) for o in ops]
        if len(ins) != len(ops) or any(len(s) != o.ndim for s, o in zip(ins, ops)):
            raise ShapeFault(f"`{u(node)[:60]}`: einsum operands do not match the subscripts", node)
        dims = {}
        for s, o in zip(ins, ops):
            for ch, n in zip(s, o.shape):
                if dims.setdefault(ch, n) != n:
                    raise ShapeFault(f"`{u(node)[:60]}`: einsum index {ch} has sizes {dims[ch]} and {n}", node)
        letters = sorted(dims)
        res = zeros_obj(tuple(dims[c] for c in out))
        for vals in itertools.product(*[range(dims[c]) for c in letters]):
            env = dict(zip(letters, vals))
            t = sp.Integer(1)
            for s, o in zip(ins, ops):
                t = t * o[tuple(env[c] for c in s)]
            ix = tuple(env[c] for c in out)
            res[ix] = res[ix] + t
        return res if out else res[()]


class SuperProxy:
    """value of `super()`: a call of one of its methods ends the interpretation and hands the arguments to the rule"""


class SuperCall(Exception):
    def __init__(self, name, args, kw):
        super().__init__(name)
        self.name, self.args_, self.kw = name, args, kw


class _Bound:
    def __init__(self, base, name):
        self.base, self.name = base, name


def _as_load(t: ast.expr) -> ast.expr:
    import copy
    t2 = copy.deepcopy(t)
    for n in ast.walk(t2):
        if hasattr(n, "ctx"):
            n.ctx = ast.Load()
    return t2


def _rows(i, n):
    if isinstance(i, slice):
        return np.arange(n)[i]
    if isinstance(i, (int, np.integer)):
        return np.array([int(i)])
    if isinstance(i, np.ndarray) and i.dtype == bool:
        if i.shape != (n,):
            raise IndexError(f"boolean index of size {i.shape} on an axis of size {n}")
        return np.flatnonzero(i)
    return np.asarray(i)


def _nonneg_int(v) -> bool:
    if isinstance(v, (int, np.integer)):
        return v >= 0
    return isinstance(v, np.ndarray) and v.dtype != bool and bool((v >= 0).all())


def _boolish(a) -> bool:
    return a.dtype == bool


def _listify(a):
    if isinstance(a, (list, tuple)):
        return [_listify(x) for x in a]
    if isinstance(a, np.ndarray):
        return [_listify(a[i]) for i in range(a.shape[0])] if a.ndim else a[()]
    return a


def _flatten(a):
    if isinstance(a, list):
        for x in a:
            yield from _flatten(x)
    else:
        yield a


def _mapnest(a, f):
    if isinstance(a, list):
        return [_mapnest(x, f) for x in a]
    return f(a)


# ======================================================================================================
#  instances: fixed connectivity, symbolic node coordinates, exact placements
# ======================================================================================================

R = sp.Rational


class Instance:
    def __init__(self, name, dim, fam, nodes, face_loops, cells, cell_signs, note=""):
        self.name, self.dim, self.fam, self.nodes = name, dim, fam, nodes
        self.face_loops, self.cells, self.cell_signs, self.note = face_loops, cells, cell_signs, note

    def grid(self) -> GridObj:
        nn, nf, nc = self.nodes.shape[1], len(self.face_loops), len(self.cells)
        indptr = np.cumsum([0] + [len(l) for l in self.face_loops])
        indices = np.array([n for l in self.face_loops for n in l], dtype=np.int64)
        face_nodes = SpM((nn, nf), "csc", indptr, indices, np.ones(len(indices), dtype=bool))
        cptr = np.cumsum([0] + [len(c) for c in self.cells])
        cind = np.array([f for c in self.cells for f in c], dtype=np.int64)
        cdat = np.array([s for c in self.cell_signs for s in c], dtype=np.int64)
        cell_faces = SpM((nf, nc), "csc", cptr, cind, cdat)
        fam = self.fam
        tnodes = np.empty(self.nodes.shape, dtype=object)
        for ix in np.ndindex(*self.nodes.shape):
            tnodes[ix] = fam.from_expr(self.nodes[ix])
        attrs = dict(dim=self.dim, nodes=tnodes, face_nodes=face_nodes, cell_faces=cell_faces, num_nodes=nn, num_faces=nf,
                     num_cells=nc, history=[], name="instance")
        return GridObj(attrs)

    remake = None

    def scaled(self, factor) -> "Instance":
        """a fresh copy of the instance (own family) whose node coordinates are multiplied by a concrete rational factor"""
        inst = self.remake(scale=False)
        inst.nodes = inst.nodes * sp.Rational(factor)
        inst.name = f"{self.name} scaled by {factor}"
        return inst

    def single(self) -> "Instance":
        """the same instance with the first placement only (every data-dependent decision is then taken as it falls there)"""
        fam = Fam(self.fam.name, self.fam.symbols, self.fam.place[:1])
        inst = Instance(self.name, self.dim, fam, self.nodes, self.face_loops, self.cells, self.cell_signs, self.note)
        inst.remake = self.remake
        return inst

    def half_faces(self):
        for c, (fs, ss) in enumerate(zip(self.cells, self.cell_signs)):
            for f, s in zip(fs, ss):
                yield c, f, s


def _arr(rows):
    out = np.empty((len(rows), len(rows[0])), dtype=object)
    for i, r in enumerate(rows):
        for j, v in enumerate(r):
            out[i, j] = sp.sympify(v)
    return out


def _placements(symbols, base: list, deltas: list[list]):
    out = [dict(zip(symbols, [R(v) for v in base]))]
    for d in deltas:
        out.append(dict(zip(symbols, [R(v) + R(x) for v, x in zip(base, d)])))
    return out


TAU = sp.symbols("tau0:3", real=True)
_TAU_BASE = ["3/2", "-7/4", "5/3"]
_TAU_DELTAS = [["1/6", "1/7", "-1/5"], ["-1/8", "1/9", "1/4"]]


SCALE = sp.Symbol("scale", real=True)


def _with_tau(syms, base, deltas, tau: bool, scale: bool = False):
    """optionally append the translation symbols (used by C20) and the scaling symbol (scale covariance of decisions) to a family"""
    if tau:
        syms, base, deltas = syms + list(TAU), base + _TAU_BASE, [d + t for d, t in zip(deltas, _TAU_DELTAS)]
    if scale:
        syms, base, deltas = syms + [SCALE], base + ["5/4"], [d + [x] for d, x in zip(deltas, ["1/8", "-3/16"])]
    return syms, base, deltas


def line_instance(tau: bool = False, vertical: bool = False, scale: bool = False) -> Instance:
    """four nodes on a general line of 3-space (or on a line parallel to the z-axis), numbered out of order; three cells"""
    o = sp.symbols("o0:3", real=True)
    t = sp.symbols("t0:3", real=True)
    r0, d1, d2, d3 = sp.symbols("r0 d1 d2 d3", real=True)
    syms = list(o) + list(t) + [r0, d1, d2, d3]
    # position along the line: node 0 < node 2 < node 3 < node 1
    par = [r0, r0 + d1 + d2 + d3, r0 + d1, r0 + d1 + d2]
    tt = [0, 0, t[2]] if vertical else list(t)
    nodes = _arr([[o[i] + par[k] * tt[i] for k in range(4)] for i in range(3)])
    base = ["1/3", "-2/5", "1/2", "2/3", "-1/2", "3/4", "-1/4", "3/5", "1/2", "4/3"]
    deltas = [["1/7", "1/9", "-1/8", "1/10", "1/11", "-1/12", "1/5", "1/13", "-1/6", "1/9"],
              ["-1/9", "1/5", "1/6", "-1/7", "1/10", "1/9", "-1/3", "-1/11", "1/7", "1/5"]]
    syms, base, deltas = _with_tau(syms, base, deltas, tau, scale)
    fam = Fam("line_vertical" if vertical else "line", syms, _placements(syms, base, deltas))
    loops = [[0], [1], [2], [3]]
    cells = [[0, 2], [2, 3], [1, 3]]
    # the face between the 2nd and the 3rd cell has its normal against the line direction (mixed sign pattern: the flip logic must act
    # on some faces and not on others)
    signs = [[-1, 1], [-1, -1], [1, 1]]
    inst = Instance("line-vertical" if vertical else "line", 1, fam, nodes, loops, cells, signs,
                    "cells (n0,n2), (n2,n3), (n3,n1) on the line o + s*t" + (" with t parallel to the z-axis" if vertical else ""))
    inst.remake = lambda **kw: line_instance(**{**dict(tau=tau, vertical=vertical, scale=scale), **kw})
    return inst


def _plane_nodes(ab, o, p, q):
    return _arr([[a for a, b in ab], [b for a, b in ab], [o + p * a + q * b for a, b in ab]])


def plane_instance(oriented: bool = True, mirrored: bool = False, patchy: bool = False, tau: bool = False, vertical: bool = False,
                   scale: bool = False, concave: bool = False) -> Instance:
    """a convex quadrilateral and a triangle sharing an edge, in the plane z = o + p x + q y; `patchy` adds a disconnected triangle
    whose node loop runs the other way round (locally consistent, globally not: orientation check 3/3 of the 2-d kernel)"""
    nn = 8 if patchy else 5
    a = sp.symbols(f"a0:{nn}", real=True)
    b = sp.symbols(f"b0:{nn}", real=True)
    o, p, q = sp.symbols("o p q", real=True)
    syms = list(a) + list(b) + [o, p, q]
    nodes = _plane_nodes(list(zip(a, b)), o, p, q)
    if vertical:
        # the plane x = o (no graph over the xy-plane)
        nodes = _arr([[o for _ in a], list(a), list(b)])
    basea = ["0", "2", "11/5", "-1/10", "7/2"] + (["5", "6", "11/2"] if patchy else [])
    baseb = ["0", "1/10", "3/2", "6/5", "3/5"] + (["0", "1/5", "1"] if patchy else [])
    if concave:
        # boomerang n0-n1-n2-n3 with the reflex corner n3 close to the tip n1: the mean of the face centres lies OUTSIDE the cell
        basea, baseb = ["0", "2", "0", "8/5", "11/5"], ["0", "1", "2", "1", "11/5"]
    if mirrored:
        basea = [("-" + v).replace("--", "") for v in basea]
    base = basea + baseb + ["1/2", "2/3", "-3/4"]
    da = ["1/20", "-1/15", "1/12", "1/18", "-1/14", "1/17", "-1/19", "1/23"][:nn]
    db = ["1/16", "1/22", "-1/17", "1/19", "1/13", "-1/21", "1/15", "1/25"][:nn]
    da2 = ["-1/25", "1/21", "-1/16", "1/15", "1/12", "-1/13", "1/24", "-1/18"][:nn]
    db2 = ["-1/18", "1/14", "1/20", "-1/13", "-1/17", "1/19", "-1/22", "1/16"][:nn]
    deltas = [da + db + ["1/9", "-1/7", "1/8"], da2 + db2 + ["-1/5", "1/6", "1/9"]]
    name = "plane" + ("" if oriented else "-unoriented") + ("-mirrored" if mirrored else "") + ("-patchy" if patchy else "") \
        + ("-vertical" if vertical else "") + ("-concave" if concave else "")
    syms, base, deltas = _with_tau(syms, base, deltas, tau, scale)
    fam = Fam(name.replace("-", "_"), syms, _placements(syms, base, deltas))
    loops = [[0, 1], [1, 2], [2, 3], [3, 0], [1, 4], [4, 2]]
    cells = [[0, 1, 2, 3], [1, 4, 5]]
    signs = [[1, 1, 1, 1], [-1, 1, 1]]
    note = "quadrilateral (n0..n3) and triangle (n1,n4,n2) in a general plane"
    if not oriented:
        loops[1] = [2, 1]
        loops[4] = [4, 1]
        note += "; two faces list their nodes against the cell loops"
    if patchy:
        loops += [[5, 7], [7, 6], [6, 5]]
        cells += [[6, 7, 8]]
        signs += [[1, 1, 1]]
        note += "; plus a disconnected triangle (n5,n6,n7) whose loop runs clockwise"
    inst = Instance(name, 2, fam, nodes, loops, cells, signs, note)
    inst.remake = lambda **kw: plane_instance(**{**dict(oriented=oriented, mirrored=mirrored, patchy=patchy, tau=tau, vertical=vertical,
                                                        scale=scale, concave=concave), **kw})
    return inst


def _right_hand_sign(pts, loop, cell_nodes) -> int:
    P = np.array([[float(v) for v in pts[:, n]] for n in loop])
    c = P.mean(axis=0)
    nrm = np.zeros(3)
    for k in range(len(loop)):
        nrm += np.cross(P[k] - c, P[(k + 1) % len(loop)] - c)
    cc = np.array([[float(v) for v in pts[:, n]] for n in cell_nodes]).mean(axis=0)
    return 1 if float(np.dot(c - cc, nrm)) > 0 else -1


def solid_instance(tau: bool = False, scale: bool = False) -> Instance:
    """a pyramid over a planar quadrilateral in z = 0 (two of its corners symbolic) with a symbolic apex, and a tetrahedron with a
    symbolic fourth node glued to one of its triangular faces"""
    x4, y4, z4, x5, y5, z5, a2, b2, a3, b3 = sp.symbols("x4 y4 z4 x5 y5 z5 a2 b2 a3 b3", real=True)
    syms = [x4, y4, z4, x5, y5, z5, a2, b2, a3, b3]
    bx, by = [R(0), R(2), a2, a3], [R(0), R(1, 10), b2, b3]
    nodes = _arr([bx + [x4, x5], by + [y4, y5], [0, 0, 0, 0, z4, z5]])
    base = ["1", "7/10", "9/5", "17/5", "9/10", "7/10", "11/5", "3/2", "-1/10", "6/5"]
    deltas = [["1/9", "-1/7", "1/8", "1/11", "1/13", "-1/9", "1/12", "1/18", "-1/14", "1/16"],
              ["-1/5", "1/6", "1/9", "-1/10", "-1/12", "1/7", "-1/16", "1/15", "1/12", "-1/18"]]
    syms, base, deltas = _with_tau(syms, base, deltas, tau, scale)
    fam = Fam("solid", syms, _placements(syms, base, deltas))
    loops = [[0, 1, 2, 3], [0, 1, 4], [1, 2, 4], [2, 3, 4], [3, 0, 4], [1, 5, 2], [2, 5, 4], [4, 5, 1]]
    cells = [[0, 1, 2, 3, 4], [2, 5, 6, 7]]
    cnodes = [[0, 1, 2, 3, 4], [1, 2, 4, 5]]
    pts = np.array([[sp.sympify(v).xreplace(fam.place[0]) for v in row] for row in nodes], dtype=object)
    signs = [[_right_hand_sign(pts, loops[f], cn) for f in fs] for fs, cn in zip(cells, cnodes)]
    inst = Instance("solid", 3, fam, nodes, loops, cells, signs, "pyramid (n0..n3; n4) and tetrahedron (n1,n2,n4,n5)")
    inst.remake = lambda **kw: solid_instance(**{**dict(tau=tau, scale=scale), **kw})
    return inst


# ======================================================================================================
#  running a kernel on an instance
# ======================================================================================================

class Outcome:
    def __init__(self, inst: Instance):
        self.inst = inst
        self.grid: Optional[GridObj] = None
        self.fault = None          # KernelRaises | ShapeFault


def run_kernel(repo, inst: Instance, entry: str = "compute_geometry", nodes=None, log=None) -> Outcome:
    out = Outcome(inst)
    inst.fam.restart_budget()
    inst.fam.log = log
    try:
        return _run_kernel(repo, inst, entry, nodes, out)
    finally:
        inst.fam.log = None


def _run_kernel(repo, inst: Instance, entry, nodes, out) -> Outcome:
    g = inst.grid()
    if nodes is not None:
        g.attrs["nodes"] = nodes
    w = World(repo, inst.fam)
    cls = repo.module(GRID).cls("Grid")
    fn = methods(cls).get(entry)
    if fn is None:
        raise AnchorError(f"{GRID}:Grid.{entry} not found")
    ev = Ev(w, Scope(), GRID, f"Grid.{entry}")
    try:
        ev.apply(Closure(fn, None, GRID, f"Grid.{entry}", selfval=g), [], {}, fn)
    except (KernelRaises, ShapeFault) as f:
        out.fault = f
        return out
    except (Undecided, AnchorError):
        raise
    except RecursionError:
        raise Undecided(f"C19 [{inst.name}]: recursion limit in the evaluator")
    except (TypeError, ValueError, IndexError, KeyError, AttributeError, ZeroDivisionError, sp.SympifyError, sp.PolynomialError) as err:
        # a construct the evaluator's numpy/sympy layer cannot digest: never a verdict
        raise Undecided(f"C19 [{inst.name}]: evaluator could not interpret the kernel ({type(err).__name__}: {str(err)[:120]})")
    out.grid = g
    return out


# ======================================================================================================
#  the identities of the property, posed on the outcome of a kernel
# ======================================================================================================

KERNEL = {1: "Grid._compute_geometry_1d", 2: "Grid._compute_geometry_2d", 3: "Grid._compute_geometry_3d"}


def _vec(arr, j):
    return [arr[i, j] for i in range(3)]


def _dot(a, b):
    return a[0] * b[0] + a[1] * b[1] + a[2] * b[2]


def _sub(a, b):
    return [a[i] - b[i] for i in range(3)]


def _cross(a, b):
    return [a[1] * b[2] - a[2] * b[1], a[2] * b[0] - a[0] * b[2], a[0] * b[1] - a[1] * b[0]]


def outputs(inst: Instance, g: GridObj):
    """the five observed arrays, shape-checked; returns (dict, problem)"""
    nf, nc = len(inst.face_loops), len(inst.cells)
    want = {"face_areas": (nf,), "face_centers": (3, nf), "face_normals": (3, nf), "cell_volumes": (nc,), "cell_centers": (3, nc)}
    res = {}
    for k, shp in want.items():
        v = g.attrs.get(k)
        if not isinstance(v, np.ndarray) or isinstance(v, Mat) or tuple(v.shape) != shp:
            return None, f"after compute_geometry `{k}` has shape {getattr(v, 'shape', type(v).__name__)}, expected {shp}"
        res[k] = obj(v)
    return res, None


def measure_sq(inst: Instance, nodes, loop):
    """squared measure of a point / segment / triangle / planar quadrilateral given by its node loop (None: no oracle)"""
    P = [_vec(nodes, n) for n in loop]
    if len(loop) == 1:
        return 1
    if len(loop) == 2:
        d = _sub(P[1], P[0])
        return _dot(d, d)
    if len(loop) == 3:
        c = _cross(_sub(P[1], P[0]), _sub(P[2], P[0]))
        return _dot(c, c) / 4
    if len(loop) == 4:
        c = _cross(_sub(P[2], P[0]), _sub(P[3], P[1]))
        return _dot(c, c) / 4
    return None


def check_instance(ctx: Ctx, inst: Instance, out: Outcome, fn_node, prefix: str = "") -> bool:
    fam = inst.fam
    q = KERNEL[inst.dim]
    tag = f"{prefix}[{inst.name}]"
    if out.fault is not None:
        kind = "raises" if isinstance(out.fault, KernelRaises) else "combines arrays of different index spaces"
        ctx.check("R6", False, GRID, q, out.fault.node or fn_node,
                  f"on the valid instance {inst.name} ({inst.note}) the geometry computation {kind}: {out.fault.what}",
                  construct=f"{tag} compute_geometry runs through", facts={"fault": out.fault.what})
        return False
    res, problem = outputs(inst, out.grid)
    if problem:
        ctx.check("R6", False, GRID, q, fn_node, f"instance {inst.name}: {problem}", construct=f"{tag} compute_geometry runs through")
        return False
    ctx.check("R6", True, GRID, q, fn_node, f"instance {inst.name} ({inst.note}): compute_geometry runs through, result arrays have the face/cell shapes",
              construct=f"{tag} compute_geometry runs through")
    A, xf, nf_, V, xc = res["face_areas"], res["face_centers"], res["face_normals"], res["cell_volumes"], res["cell_centers"]
    nodes = out.grid.attrs["nodes"]
    dim = inst.dim

    def zero(rule, expr, node_desc, what):
        z = fam.iszero(expr)
        facts = None if z else fam.witness(expr)
        ctx.check(rule, bool(z), GRID, q, fn_node, what + ("" if z else f"; residual {facts['residual']:.4g} for the node coordinates {facts['placement']}"),
                  construct=f"{tag} {node_desc}", facts=facts)
        return bool(z)

    # R2: |n_f| = area_f = measure of the face
    for f, loop in enumerate(inst.face_loops):
        n = _vec(nf_, f)
        zero("R2", _dot(n, n) - A[f] * A[f], f"face {f}: |normal| == area", f"face {f}: the normal vector must have the length of the face area")
        m2 = measure_sq(inst, nodes, loop)
        if m2 is not None:
            zero("R2", A[f] * A[f] - m2, f"face {f}: area == measure", f"face {f}: face_areas must be the measure of the face spanned by nodes {loop}")
    for c, (fs, ss) in enumerate(zip(inst.cells, inst.cell_signs)):
        cn = sorted({n for f in fs for n in inst.face_loops[f]})
        # reference point: the mean of the cell's nodes (a point of the grid's line / plane that lies on no face)
        p = [sum(nodes[i, n] for n in cn) / len(cn) for i in range(3)]
        # R1 closure
        tot = [0, 0, 0]
        for f, s in zip(fs, ss):
            n = _vec(nf_, f)
            tot = [tot[i] + s * n[i] for i in range(3)]
        ok = all(fam.iszero(t) for t in tot)
        wit = None if ok else fam.witness(next(t for t in tot if not fam.iszero(t)))
        ctx.check("R1", ok, GRID, q, fn_node, f"cell {c}: the signed sum of the face normals must vanish"
                  + ("" if ok else f"; residual {wit['residual']:.4g} for the node coordinates {wit['placement']}"),
                  construct=f"{tag} cell {c}: closure", facts=wit)
        # R3 outward
        for f, s in zip(fs, ss):
            e = _dot(_sub(_vec(xf, f), _vec(xc, c)), _vec(nf_, f)) * s
            sg = fam.sign(e, f"outward test of face {f} in cell {c}")
            ctx.check("R3", sg > 0, GRID, q, fn_node, f"cell {c}, face {f} (cell_faces sign {s:+d}): sign * normal must point from the cell centre towards "
                      f"the face centre" + ("" if sg > 0 else f"; (x_f - x_c).(sign n_f) = {fam.nums(e)[0]:.4g} at the placement {fam.witness(e)['placement']}"),
                      construct=f"{tag} cell {c}, face {f}: outward")
        # R4 divergence identity and positivity, simplex measure
        div = 0
        for f, s in zip(fs, ss):
            div = div + s * _dot(_sub(_vec(xf, f), p), _vec(nf_, f))
        zero("R4", div - dim * V[c], f"cell {c}: divergence identity", f"cell {c}: sum_f sign (x_f - p).n_f must equal {dim} * cell volume")
        sg = fam.sign(V[c], f"volume of cell {c}")
        ctx.check("R4", sg > 0, GRID, q, fn_node, f"cell {c}: the volume must be positive on the valid instance", construct=f"{tag} cell {c}: positive volume")
        if len(cn) == dim + 1:
            P = [_vec(nodes, n) for n in cn]
            if dim == 1:
                d = _sub(P[1], P[0])
                m2 = _dot(d, d)
            elif dim == 2:
                cr = _cross(_sub(P[1], P[0]), _sub(P[2], P[0]))
                m2 = _dot(cr, cr) / 4
            else:
                det = _dot(_sub(P[1], P[0]), _cross(_sub(P[2], P[0]), _sub(P[3], P[0])))
                m2 = det * det / 36
            zero("R4", V[c] * V[c] - m2, f"cell {c}: simplex measure", f"cell {c} is a simplex: its volume must be the simplex measure")
        # R5 centroid identity
        acc = [0, 0, 0]
        for f, s in zip(fs, ss):
            r = _sub(_vec(xf, f), p)
            w = s * _dot(r, _vec(nf_, f))
            acc = [acc[i] + w * r[i] for i in range(3)]
        rhs = [(dim + 1) * V[c] * (xc[i, c] - p[i]) for i in range(3)]
        resid = [acc[i] - rhs[i] for i in range(3)]
        ok = all(fam.iszero(t) for t in resid)
        wit = None if ok else fam.witness(next(t for t in resid if not fam.iszero(t)))
        ctx.check("R5", ok, GRID, q, fn_node, f"cell {c}: sum_f sign ((x_f - p).n_f) (x_f - p) must equal {dim + 1} * volume * (cell centre - p)"
                  + ("" if ok else f"; residual {wit['residual']:.4g} for the node coordinates {wit['placement']}"),
                  construct=f"{tag} cell {c}: centroid identity", facts=wit)
    return True


def instances(tier: str) -> list[Instance]:
    out = [line_instance(scale=True), plane_instance(scale=True), plane_instance(oriented=False, scale=True), plane_instance(patchy=True, scale=True),
           solid_instance(scale=True)]
    if tier == "thorough":
        out += [plane_instance(mirrored=True, scale=True)]
    return out


# ======================================================================================================
#  R7: data-dependent decisions must be covariant under a change of the length unit
# ======================================================================================================

def paired_decisions(log_a: list, log_b: list):
    """pairs the decisions of two evaluations of the same code on the same path: same description, same rank among the decisions of
    that description; descriptions whose counts differ are left out (returned separately)"""
    ga, gb = {}, {}
    for what, t, sg, _w in log_a:
        ga.setdefault(what, []).append((t, sg))
    for what, t, sg, _w in log_b:
        gb.setdefault(what, []).append((t, sg))
    pairs, unmatched = [], []
    for what, la in ga.items():
        lb = gb.get(what, [])
        if len(la) != len(lb):
            unmatched.append(what)
            continue
        pairs += [(what, a, b) for a, b in zip(la, lb)]
    return pairs, unmatched


def decision_kind(what: str) -> str:
    for k in ("isclose", "argmax", "argmin", "np.sign", "np.abs", "abs", "conversion to bool"):
        if what.startswith(k):
            return k
    if "square root" in what or what == "radicand":
        return "sign of a factor of a square root"
    return "comparison"


def _rescaled(fam: Fam, t, sym, factor: int):
    """the term with the base symbol `sym` replaced by factor * sym (norm symbols are left alone: the caller makes sure their radicands
    do not contain the symbol)"""
    gi = fam.symbols.index(sym)

    def poly(p):
        return p.ring.from_terms([(m, c * factor ** m[gi]) for m, c in p.terms()])
    t = fam.const(t)
    res = T(fam, poly(t.p))
    for k, e in t.den.items():
        res = res / T(fam, poly(k)) ** e
    return res


def _homogeneous(fam: Fam, ts) -> bool:
    """ts(2 s) == 2**k * ts(s) for an integer k, i.e. the term is homogeneous in the scale symbol"""
    import math
    if not fam.mentions(ts, [SCALE]):
        return True
    gi = fam.symbols.index(SCALE)
    t = fam.const(ts)
    used = set(t.ls) | {i for k in t.den for i in fam.lset(k)}
    if any(any(m[gi] for m in fam.rad[i].keys()) for i in used):
        return False          # a square root that still contains the scale: not of the form s**k * (scale-free)
    t2 = _rescaled(fam, t, SCALE, 2)
    v1, v2 = fam.nums(t)[0], fam.nums(t2)[0]
    if v1 == 0.0 or v2 == 0.0 or v2 / v1 <= 0:
        return False
    k = math.log2(v2 / v1)
    if abs(k - round(k)) > 1e-6 or abs(round(k)) > 16:
        return False
    try:
        return fam.iszero(t2 - t * sp.Integer(2) ** int(round(k))) is True
    except Undecided:
        return True       # vanishes at every placement: nothing to exhibit


DECADES = [10.0 ** -k for k in range(1, 10)] + [10.0 ** k for k in range(1, 10)]


def scale_clause(ctx: Ctx, inst: Instance, log_base: list, fn) -> None:
    """R7: evaluate the kernel on s * X with a symbolic s > 0; every decision term must be homogeneous in s.  For a decision that is
    not, look for a decade s* at which it falls the other way and run the identities R1-R6 on the grid scaled by s* (and by the next
    decade): only a failure THERE is a finding."""
    fam = inst.fam
    q = KERNEL[inst.dim]
    s_t = fam.from_expr(SCALE)
    X = inst.grid().attrs["nodes"]
    log_s: list = []
    out = run_kernel(ctx.repo, inst, nodes=X * s_t, log=log_s)
    tag = f"[{inst.name}]"
    if out.fault is not None:
        raise Undecided(f"[{inst.name}]: the symbolically scaled grid is not processed ({out.fault.what})")
    suspects = []
    for what, ts, ss, where in log_s:
        if _homogeneous(fam, ts):
            continue
        if len(suspects) > 60:
            break
        flips = []
        for sv in DECADES:
            v = fam.value_at(ts, {SCALE: sv})
            if v is not None and v != 0.0 and (v > 0) != (ss > 0):
                flips.append(sv)
        suspects.append((what, flips, where))
    tried, failures = set(), []
    for what, flips, where in suspects:
        small = sorted([f for f in flips if f < 1], reverse=True)[:1]
        large = sorted([f for f in flips if f > 1])[:1]
        cands = [c for f in small for c in (f, f / 10)] + [c for f in large for c in (f, f * 10)]
        for sv in cands:
            key = sp.nsimplify(sv, rational=True)
            if key in tried or len(tried) >= 6:
                continue
            tried.add(key)
            inst2 = inst.scaled(key)
            scratch = Ctx(ctx.prop, ctx.repo, ctx.tier)
            try:
                try:
                    check_instance(scratch, inst2, run_kernel(ctx.repo, inst2), fn)
                except Undecided as e:
                    if "differently on the placements" not in str(e):
                        raise
                    inst2 = inst2.single()
                    scratch = Ctx(ctx.prop, ctx.repo, ctx.tier)
                    check_instance(scratch, inst2, run_kernel(ctx.repo, inst2), fn)
            except Undecided as e:
                ctx.note(f"{tag} scale covariance: the grid scaled by {key} could not be decided ({str(e)[:120]})")
                continue
            if scratch.findings:
                failures.append((what, key, scratch.findings, where))
    noted = set()
    for what, flips, where in suspects:
        if not any(w == what for w, _, _, _ in failures) and what not in noted:
            noted.add(what)
            ctx.note(f"{tag} the decision `{what}` is not homogeneous under a change of the length unit"
                     + (f" (it falls the other way for the scale factor {flips[0]:g})" if flips else " (no decade between 1e-9 and 1e9 makes it fall the other way)")
                     + "; no identity fails on the scaled instances that were examined")
    if not failures:
        ctx.check("R7", True, GRID, q, fn, f"instance {inst.name}: every data-dependent decision taken on the way is homogeneous under X -> s X, or the "
                  f"identities R1-R6 still hold on the grid scaled to where it falls the other way ({len(log_s)} decisions, {len(suspects)} inhomogeneous)",
                  construct=f"{tag} decisions covariant under scaling")
        return
    seen = set()
    for what, key, fnds, where in failures:
        cons = f"{tag} scale: {decision_kind(what)} in {where[1]}"
        if cons in seen:
            continue
        seen.add(cons)
        f0 = fnds[0]
        ctx.check("R7", False, where[0] or GRID, where[1] or q, fn, f"the decision `{what}` compares quantities of different physical dimension: on the valid grid "
                  f"'{inst.name}' ({inst.note}) scaled by the factor {key} it falls the other way and the geometry is wrong: [{f0.rule}] {f0.message[:300]}",
                  construct=cons, facts={"scale": str(key), "decision": what, "failed": [f"{f.rule} {f.construct}" for f in fnds[:6]]})


# ======================================================================================================
#  R8: the Cartesian constructor spans the requested box
# ======================================================================================================

STRUCT = "src/porepy/grids/structured.py"


def cart_clause(ctx: Ctx) -> None:
    """CartGrid.__init__ is interpreted up to its call of the TensorGrid constructor for every documented form of (nx, physdims); the k-th
    coordinate array handed over must have nx[k] + 1 equidistant entries from the requested minimum to the requested maximum."""
    mod = ctx.repo.module(STRUCT)
    init = methods(mod.cls("CartGrid")).get("__init__")
    if init is None:
        raise AnchorError(f"{STRUCT}:CartGrid.__init__ not found")
    q = "CartGrid.__init__"
    lo = sp.symbols("xmin ymin zmin", real=True)
    hi = sp.symbols("xmax ymax zmax", real=True)
    ext = sp.symbols("ex ey ez", real=True)
    syms = list(lo) + list(hi) + list(ext)
    base = ["1/3", "-2/5", "1/2", "7/3", "11/5", "5/2", "3", "5/2", "7/4"]
    deltas = [["1/7", "1/9", "-1/8", "1/5", "1/6", "1/4", "1/3", "-1/4", "1/5"], ["-1/9", "1/5", "1/6", "1/7", "-1/10", "1/9", "-1/3", "1/11", "1/7"]]
    axes = "xyz"
    counts = {0: [3], 1: [3], 2: [3, 2], 3: [4, 3, 2]}
    for d in (0, 1, 2, 3):
        n = counts[d]
        nd = max(d, 1)
        for kind in ("none", "array", "dict"):
            fam = Fam(f"cart{d}{kind}", syms, _placements(syms, base, deltas))
            tl, th, te = [fam.from_expr(x) for x in lo], [fam.from_expr(x) for x in hi], [fam.from_expr(x) for x in ext]
            nx = n[0] if d == 0 else np.array(n, dtype=np.int64)
            if kind == "none":
                phys, want = None, [(0, n[k]) for k in range(nd)]
            elif kind == "array":
                if d == 0:
                    phys = te[0]
                else:
                    phys = np.empty(nd, dtype=object)
                    for k in range(nd):
                        phys[k] = te[k]
                want = [(0, te[k]) for k in range(nd)]
            else:
                phys = {}
                for k in range(nd):
                    phys[axes[k] + "min"], phys[axes[k] + "max"] = tl[k], th[k]
                want = [(tl[k], th[k]) for k in range(nd)]
            form = f"nx = {n[0] if d == 0 else n}, physdims = " + {"none": "None", "array": "extents " + str([str(e) for e in ext[:nd]]) if d else "extent ex",
                                                                      "dict": "{" + ", ".join(f"{axes[k]}min, {axes[k]}max" for k in range(nd)) + "}"}[kind]
            tag = f"[{'scalar' if d == 0 else str(d) + '-d'} nx, physdims {kind}]"
            fam.restart_budget()
            ev = Ev(World(ctx.repo, fam), Scope(), STRUCT, q)
            got = None
            try:
                ev.apply(Closure(init, None, STRUCT, q, selfval=GridObj({})), [nx, phys], {}, init)
            except SuperCall as sc:
                got = sc
            except (KernelRaises, ShapeFault) as f:
                ctx.check("R8", False, STRUCT, q, f.node or init, f"CartGrid({form}): the constructor fails before the grid is built: {f.what}",
                          construct=f"{tag} reaches the TensorGrid constructor")
                continue
            except (TypeError, ValueError, IndexError, KeyError, AttributeError) as err:
                raise Undecided(f"{STRUCT}:{q}: evaluator could not interpret the constructor for {form} ({type(err).__name__}: {str(err)[:100]})")
            if got is None or got.name != "__init__":
                raise Undecided(f"{STRUCT}:{q}: no call of super().__init__ reached for {form}")
            coords = list(got.args_) + [got.kw[k] for k in ("x", "y", "z") if k in got.kw][len(got.args_):]
            for k in range(nd):
                c = coords[k] if k < len(coords) else None
                what = f"CartGrid({form}): coordinate array of axis {axes[k]} handed to the TensorGrid constructor"
                cons = f"{tag} axis {axes[k]} spans the requested interval"
                if not isinstance(c, np.ndarray) or isinstance(c, Mat) or c.ndim != 1 or c.shape[0] != n[k] + 1:
                    ctx.check("R8", False, STRUCT, q, init, f"{what} has shape {getattr(c, 'shape', type(c).__name__)}, expected ({n[k] + 1},) "
                              f"(one entry per node layer)", construct=cons)
                    continue
                c = obj(c)
                a, b = want[k]
                resid = [c[0] - a, c[-1] - b] + [(c[i + 1] - c[i]) - (c[1] - c[0]) for i in range(1, n[k])]
                bad = next((r for r in resid if not fam.iszero(r)), None)
                wit = None if bad is None else fam.witness(bad)
                ctx.check("R8", bad is None, STRUCT, q, init, f"{what} must run from the requested minimum to the requested maximum in equal steps"
                          + ("" if bad is None else f"; first = {fam.nums(c[0])[0]:.4g}, last = {fam.nums(c[-1])[0]:.4g} for {wit['placement']}"),
                          construct=cons, facts=wit)
            if len(coords) > nd and any(isinstance(c, np.ndarray) for c in coords[nd:]):
                ctx.check("R8", False, STRUCT, q, init, f"CartGrid({form}): {len(coords)} coordinate arrays handed over for a {nd}-d grid", construct=f"{tag} number of axes")


def run(ctx: Ctx) -> None:
    mod = ctx.repo.module(GRID)
    cls = mod.cls("Grid")
    ms = methods(cls)
    for name in ("compute_geometry",):
        if name not in ms:
            raise AnchorError(f"{GRID}:Grid.{name} not found")
    ctx.repo.module(MAPG)
    undecided = []
    for inst in instances(ctx.tier):
        fn = ms.get(KERNEL[inst.dim].split(".")[1]) or ms["compute_geometry"]
        try:
            log: list = []
            try:
                out = run_kernel(ctx.repo, inst, log=log)
                check_instance(ctx, inst, out, fn)
            except Undecided as e:
                if "differently on the placements" not in str(e):
                    raise
                # the placements do not agree on a branch: follow the first placement alone (its decisions are consistent by
                # construction; identities are still decided symbolically on the path taken there)
                n0 = len(ctx.obligations)
                inst = inst.single()
                del ctx.obligations[n0:]
                log = []
                out = run_kernel(ctx.repo, inst, log=log)
                check_instance(ctx, inst, out, fn)
            if out.fault is None and (ctx.tier == "thorough" or "patchy" not in inst.name):
                # (quick tier: the patchy instance takes the decisions of the oriented and of the unoriented instance; it is skipped)
                try:
                    scale_clause(ctx, inst, log, fn)
                except Undecided as e:
                    if "differently on the placements" not in str(e):
                        raise
                    inst1 = inst.single()
                    log1: list = []
                    run_kernel(ctx.repo, inst1, log=log1)
                    scale_clause(ctx, inst1, log1, fn)
        except Undecided as e:
            # an instance the analysis cannot decide never yields a verdict; findings on OTHER instances stand (each carries its own
            # witness placement), but without any finding the run as a whole is undecided
            undecided.append(str(e))
            continue
        ctx.sample({"instance": inst.name, "note": inst.note, "symbols": [str(s) for s in inst.fam.symbols],
                    "square_roots": len(inst.fam.rad), "placements": len(inst.fam.place)})
    try:
        cart_clause(ctx)
    except Undecided as e:
        undecided.append(str(e))
    if undecided and not ctx.findings:
        raise Undecided("; ".join(undecided))
    for msg in undecided:
        ctx.note("undecided instance (not a verdict): " + msg)


def _m(name, old, new, rule, file=GRID, control=False, count=1):
    return dict(name=name, file=file, old=old, new=new, rule=rule, control=control, count=count)


MUTANTS = [
    # --- faults that are invisible on simplices and parallelograms (every Cartesian / regular simplex fixture)
    _m("2d-subcentroid-weights-swapped", "temp_cell_centers[:, cellno] + 2 * self.face_centers[:, faceno]\n        ) / 3",
       "2 * temp_cell_centers[:, cellno] + self.face_centers[:, faceno]\n        ) / 3", "R5", control=True),
    _m("3d-subtet-centroid-factor", "tri_centroids = 3 / 4 * dist_cellcenter_subface", "tri_centroids = 2 / 3 * dist_cellcenter_subface", "R5"),
    _m("3d-face-centre-unweighted", "face_centers = sub_areas * sub_centroids * edge_2_face / face_areas",
       "face_centers = sub_centroids * edge_2_face / num_nodes_per_face", "R5"),
    _m("3d-subface-centroid-weights", "            + tmp_face_center.transpose()\n        ) / 3", "            + 2 * tmp_face_center.transpose()\n        ) / 4", "R5"),
    # --- faults that are invisible on grids in the xy-plane
    _m("2d-area-from-xy-only", "self.face_areas = np.sqrt(np.square(tangent).sum(axis=0))", "self.face_areas = np.sqrt(np.square(tangent[:2]).sum(axis=0))", "R2"),
    _m("2d-temp-centre-z-from-y", "cz = np.bincount(cellno, weights=self.face_centers[2, faceno])", "cz = np.bincount(cellno, weights=self.face_centers[1, faceno])", "*"),
    # --- sign convention / fall-back arms
    _m("2d-fallback-flip-inverted", "                    * np.sum(subsimplex_heights * self.face_normals[:, faceno], axis=0)\n                ) < 0",
       "                    * np.sum(subsimplex_heights * self.face_normals[:, faceno], axis=0)\n                ) > 0", "R3"),
    _m("2d-fallback-flip-ignores-cell-faces-sign", "                    cf_orient\n                    * np.sum(subsimplex_heights", "                    1\n                    * np.sum(subsimplex_heights", "R3"),
    _m("2d-orientation-check-3-dropped", "                if np.any(cell_volumes < 0):", "                if False:", "*"),
    _m("2d-normal-rotated-the-other-way", "self.face_normals = np.cross(tangent, plane_normal, axis=0)", "self.face_normals = np.cross(plane_normal, tangent, axis=0)", "R3"),
    _m("1d-flip-arms-not-mirrored", "np.logical_and(nrm(v) < nrm(vn), sgn < 0)", "np.logical_and(nrm(v) < nrm(vn), sgn > 0)", "R3"),
    _m("1d-flip-prolongation-sign", "vn = v + nrm(v) * self.face_normals[:, fi[idx]] * 0.001", "vn = v - nrm(v) * self.face_normals[:, fi[idx]] * 0.001", "R3"),
    # --- index spaces of the half-face triple
    _m("2d-flip-accumulated-per-cell", "flip = np.bincount(faceno, weights=flip).astype(bool)", "flip = np.bincount(cellno, weights=flip).astype(bool)", "R6"),
    _m("2d-heights-gather-by-face", "subsimplex_heights = self.face_centers[:, faceno] - temp_cell_centers[:, cellno]",
       "subsimplex_heights = self.face_centers[:, faceno] - temp_cell_centers[:, faceno]", "R6"),
    _m("3d-orientation-transposed-lookup", "np.asarray(self.cell_faces[face_numbers, cell_numbers])", "np.asarray(self.cell_faces[edge_numbers, cell_numbers])", "*"),
    # --- plain formula faults (controls: any test would see them too)
    _m("2d-subsimplex-area-factor", "subsimplex_normals = 0.5 * np.cross(", "subsimplex_normals = np.cross(", "R4"),
    _m("3d-subnormal-scale", "            )\n            / 2\n        )", "            )\n            / 3\n        )", "R2"),
    _m("1d-centre-not-midpoint", "self.cell_centers = 0.5 * (xf1 + xf2)", "self.cell_centers = 0.5 * (xf1 + xf1)", "R5"),
    # --- independently seeded changes (campaign of the coordinator)
    _m("seed-1d-flip-probe-absolute-step", "vn = v + nrm(v) * self.face_normals[:, fi[idx]] * 0.001", "vn = v + self.face_normals[:, fi[idx]] * 0.001", "R7"),
    _m("seed-2d-fallback-flip-without-cell-faces-sign", "                    cf_orient\n                    * np.sum(subsimplex_heights * self.face_normals[:, faceno], axis=0)",
       "                    np.sum(subsimplex_heights * self.face_normals[:, faceno], axis=0)", "R3"),
    _m("seed-cartgrid-z-extent-from-ymin", '                    physdims.get("zmax", 0) - zmin,', '                    physdims.get("zmax", 0) - ymin,', "R8", file=STRUCT),
    _m("cartgrid-2d-xmin-dropped", "            nodes_x = xmin + np.linspace(0, physdims[0], nx[0] + 1)\n            nodes_y = ymin + np.linspace(0, physdims[1], nx[1] + 1)\n            super().__init__(nodes_x, nodes_y, name=name)",
       "            nodes_x = np.linspace(0, physdims[0], nx[0] + 1)\n            nodes_y = ymin + np.linspace(0, physdims[1], nx[1] + 1)\n            super().__init__(nodes_x, nodes_y, name=name)", "R8", file=STRUCT),
    # --- reverted fixes
    _m("revert-438f82d0c-compute-tangent-absolute-allclose", "        assert np.any(tangent != 0)\n", "        assert not np.allclose(tangent, np.zeros(3))\n", "R7", file=MAPG),
    _m("revert-ceffbbbfa-cartgrid-dict-physdims-1d", "            physdims = physdims[0] if len(dims) == 0 else physdims[: dims[0]]\n", "", "R8", file=STRUCT),
    _m("3d-volume-tolerance-relative-to-nothing", "if not np.all(tet_volumes > -1e-12):", "if not np.all(tet_volumes > 1e-12):", "R7"),
]
