"""C02 - operator-tree evaluation: exhaustiveness, operand order, symbol table, flip
compensation, previous time/iterate leaves carry no derivative, numpy protocol."""
from __future__ import annotations

import ast

from ..core.astutil import (u, dotted, walk_local, calls_in, call_name, kwarg, methods, names_in,
                            stmts_local, assigned_targets, body_nodoc)
from ..core.loader import AnchorError, Undecided
from ..core.report import Ctx

OPS = "src/porepy/numerics/ad/operators.py"
PARSER = "src/porepy/numerics/ad/_ad_parser.py"
AD_DIR = "src/porepy/numerics/ad"

# Language facts: dunder base name -> python binary operator
PY_SYMBOL = {"add": "+", "sub": "-", "mul": "*", "truediv": "/", "pow": "**", "matmul": "@"}
# value-commutative elementwise operations (a op b == b op a for the operands the parser
# lets through); everything else needs ordered children
COMMUTATIVE_DUNDER = {"add", "mul"}

META = {
    "explanation": (
        "Static exhaustiveness/ordering analysis of the AD operator layer. R1: every Operations member "
        "that any constructor call in src/porepy passes as operation= has a case in AdParser._evaluate_single. "
        "R2: abstract interpretation of each arithmetic overload of Operator over the domain "
        "[self,other] child order shows reflected overloads of non-commutative operations put `other` first. "
        "R3: Operations.to_symbol maps each evaluated member to the python operator of the dunder that "
        "creates it. R4: every reversal of child_values in the parser is restricted to commutative operations "
        "or compensated (-res under the same flag), and direct reflected-dunder calls have the form "
        "cv[1].__rX__(cv[0]) with X matching the guarding operation. R5: leaves at a previous time/iterate "
        "return nothing derived from ad_base; _get_previous_time_or_iterate rebuilds children recursively and "
        "dispatches prev_time<->previous_timestep. R6: _evaluate_single never branches on a derivative flag. "
        "R7: classes defining reflected arithmetic define __array_ufunc__ = None or __array_priority__ "
        "(numpy would otherwise take ndarray <op> Operator elementwise). Decides these structural clauses, "
        "not numerical agreement with forward-mode evaluation."),
    "rule_text": "one obligation per (overload | Operations member | table row | reversal site | leaf arm | class)",
    "trusted_base": ["python ast", "sa.core (loader, astutil)", "Python data model for reflected operators"],
    "assumptions": ["eval(f'child_values[0] {symbol} child_values[1]') is the only generic combination site",
                    "operator trees are built only through Operator's overloads / constructor calls with operation="],
}
MIN_INSTANCES = {"R1": 6, "R2": 12, "R3": 6, "R4": 4, "R5": 4, "R6": 1, "R7": 1, "R8": 4, "R9": 1, "R10": 1, "R11": 1}


def _ops_member(node: ast.AST) -> str | None:
    d = dotted(node)
    if d and ".".join(d.split(".")[-2:-1]) == "Operations":
        return d.split(".")[-1]
    return None


def _case_members(pat: ast.pattern) -> list[str]:
    if isinstance(pat, ast.MatchOr):
        out = []
        for p in pat.patterns:
            out += _case_members(p)
        return out
    if isinstance(pat, ast.MatchValue):
        m = _ops_member(pat.value)
        return [m] if m else []
    return []


def _find_match(fn: ast.FunctionDef) -> ast.Match:
    ms = [n for n in walk_local(fn) if isinstance(n, ast.Match)]
    ms = [m for m in ms if any(_case_members(c.pattern) for c in m.cases)]
    if len(ms) != 1:
        raise AnchorError(f"{PARSER}: expected one match over Operations in _evaluate_single, found {len(ms)}")
    return ms[0]


def _parse_other_shape(ctx: Ctx, mod, cls) -> None:
    """_parse_other returns [self, wrap(other)] on every returning arm."""
    fn = methods(cls).get("_parse_other")
    if fn is None:
        raise AnchorError("Operator._parse_other missing")
    for r in [n for n in walk_local(fn) if isinstance(n, ast.Return)]:
        ok = (isinstance(r.value, ast.List) and len(r.value.elts) == 2
              and u(r.value.elts[0]) == "self" and "other" in names_in(r.value.elts[1]))
        ctx.check("R2", ok, mod, "Operator._parse_other", r,
                  "_parse_other must return [self, <wrapped other>]", facts={"returns": u(r.value) if r.value else None})


def _children_order(fn: ast.FunctionDef, meths: dict, depth: int = 0, consts: dict | None = None):
    """Abstractly interpret an overload; returns (order, member) where order is
    ('self','other') / ('other','self') and member the Operations member, or None when
    the overload is not of the recognised constructive form.  `consts` binds parameter names of a
    private helper to constants of the call site (an Operations member or a bool)."""
    env: dict[str, tuple] = {}
    consts = dict(consts or {})

    def truth(t: ast.expr):
        if isinstance(t, ast.Name) and isinstance(consts.get(t.id), bool):
            return consts[t.id]
        if isinstance(t, ast.UnaryOp) and isinstance(t.op, ast.Not):
            v = truth(t.operand)
            return None if v is None else (not v)
        return None

    def member_of(e: ast.expr):
        if _ops_member(e):
            return _ops_member(e)
        if isinstance(e, ast.Name) and isinstance(consts.get(e.id), str):
            return consts[e.id]
        return None

    def block(stmts):
        for s in stmts:
            if isinstance(s, ast.If):
                tv = truth(s.test)
                if tv is not None:
                    r = block(s.body if tv else s.orelse)
                    if r is not None:
                        return r
                    continue
                # guards that only raise are irrelevant to the order (e.g. __pow__'s SparseArray test)
                if any(isinstance(n, ast.Return) for n in ast.walk(s)):
                    return "undecided"
                continue
            if isinstance(s, (ast.Raise, ast.Assert, ast.Expr, ast.Pass)):
                continue
            if isinstance(s, ast.Assign) and len(s.targets) == 1 and isinstance(s.targets[0], ast.Name):
                v = _eval_children(s.value, env)
                if v is not None:
                    env[s.targets[0].id] = v
                continue
            if isinstance(s, ast.Assign) and len(s.targets) == 1 and isinstance(s.targets[0], (ast.Tuple, ast.List)) \
                    and all(isinstance(e_, ast.Name) for e_ in s.targets[0].elts):
                v = _eval_children(s.value, env)
                if v is not None and len(v) == len(s.targets[0].elts):
                    for e_, role in zip(s.targets[0].elts, v):
                        env["@" + e_.id] = role
                    continue
                return "undecided"
            if isinstance(s, ast.Return) and isinstance(s.value, ast.Call):
                c = s.value
                if isinstance(c.func, ast.Attribute) and u(c.func.value) == "self" and c.func.attr in meths and depth < 3:
                    callee = meths[c.func.attr]
                    params = [p_.arg for p_ in callee.args.args][1:]
                    bound = {}
                    for i, a_ in enumerate(c.args):
                        if i < len(params):
                            bound[params[i]] = a_
                    for k in c.keywords:
                        if k.arg:
                            bound[k.arg] = k.value
                    # defaults of the callee
                    dflt = dict(zip(reversed(params), reversed(callee.args.defaults)))
                    for pn, dv in dflt.items():
                        bound.setdefault(pn, dv)
                    if "other" in bound and u(bound["other"]) != "other":
                        return "undecided"
                    cc = {}
                    for pn, ex in bound.items():
                        if isinstance(ex, ast.Constant) and isinstance(ex.value, bool):
                            cc[pn] = ex.value
                        elif member_of(ex):
                            cc[pn] = member_of(ex)
                    return _children_order(callee, meths, depth + 1, cc) or "undecided"
                ch = kwarg(c, "children")
                opn = kwarg(c, "operation")
                if ch is not None and opn is not None and member_of(opn):
                    order = _eval_children(ch, env)
                    if order is None:
                        return "undecided"
                    return order, member_of(opn)
                return "undecided"
            return "undecided"
        return None

    r = block(body_nodoc(fn))
    return None if r in (None, "undecided") else r


def _eval_children(e: ast.expr, env: dict):
    if isinstance(e, ast.Name) and e.id in env:
        return env[e.id]
    if isinstance(e, ast.Call) and u(e.func) == "self._parse_other" and len(e.args) == 1 and u(e.args[0]) == "other":
        return ("self", "other")
    if isinstance(e, ast.List) and len(e.elts) == 2:
        out = []
        for el in e.elts:
            if isinstance(el, ast.Subscript) and isinstance(el.value, ast.Name) and el.value.id in env and isinstance(
                    el.slice, ast.Constant) and el.slice.value in (0, 1):
                out.append(env[el.value.id][el.slice.value])
            elif isinstance(el, ast.Name) and ("@" + el.id) in env:
                out.append(env["@" + el.id])
            else:
                return None
        return tuple(out)
    if isinstance(e, ast.Subscript) and isinstance(e.value, ast.Name) and e.value.id in env and u(e.slice) == "::-1":
        return tuple(reversed(env[e.value.id]))
    return None


def run(ctx: Ctx) -> None:
    ops = ctx.repo.module(OPS)
    par = ctx.repo.module(PARSER)
    Operator = ops.cls("Operator")
    Operations = ops.cls("Operations")
    meths = methods(Operator)
    ev = par.func("AdParser._evaluate_single")
    match = _find_match(ev)

    # ---------------- R1 exhaustiveness -------------------------------------------
    enum_members = [t.id for s in Operations.body if isinstance(s, ast.Assign) for t in s.targets if isinstance(t, ast.Name)]
    if "add" not in enum_members:
        raise AnchorError("Operations enum members not found")
    matched: set[str] = set()
    for c in match.cases:
        matched |= set(_case_members(c.pattern))
    has_wild_raise = any(isinstance(c.pattern, ast.MatchAs) and c.pattern.pattern is None and any(
        isinstance(n, ast.Raise) for n in ast.walk(c)) for c in match.cases)
    created: dict[str, list] = {}
    scope = [m for m in ctx.repo.modules("src/porepy")] if ctx.tier == "thorough" else [
        ctx.repo.module(r) for r in ctx.repo.all_py(AD_DIR)]
    for m in scope:
        for call in [n for n in ast.walk(m.tree) if isinstance(n, ast.Call)]:
            # a member handed to any call (operation=Operations.X, or positionally to a helper that forwards it)
            for arg in list(call.args) + [k.value for k in call.keywords]:
                mem = _ops_member(arg)
                if mem:
                    created.setdefault(mem, []).append((m, call))
    for mem, sites in sorted(created.items()):
        if mem == "void":
            continue
        m, call = sites[0]
        ctx.check("R1", mem in matched, m, _enclosing(m, call), call,
                  f"Operations.{mem} is created here but AdParser._evaluate_single has no case for it "
                  f"(falls to 'unknown operation')", construct=f"operation=Operations.{mem}",
                  facts={"created_at": [f"{mm.rel}:{c.lineno}" for mm, c in sites], "matched": sorted(matched)})
    ctx.sample({"rule": "R1", "created": sorted(created), "matched_in_parser": sorted(matched),
                "wildcard_raises": has_wild_raise})

    # ---------------- R2 operand order ----------------------------------------------
    _parse_other_shape(ctx, ops, Operator)
    dunder_member: dict[str, str] = {}
    for base in PY_SYMBOL:
        for refl in (False, True):
            name = f"__{'r' if refl else ''}{base}__"
            fn = meths.get(name)
            if fn is None:
                raise AnchorError(f"Operator.{name} missing")
            res = _children_order(fn, meths)
            if res is None:
                raise Undecided(f"Operator.{name}: overload body is not of a recognised constructive form")
            order, member = res
            if not refl:
                dunder_member[base] = member
                ok = order == ("self", "other")
                msg = f"forward overload must build children [self, other]; found {list(order)}"
            else:
                fwd = dunder_member.get(base)
                if member != fwd:
                    # a distinct reflected member: children order must be what the parser's
                    # case for that member expects; we only know the shared-case form
                    ok = member in matched and False
                    msg = (f"reflected overload builds Operations.{member}; no evaluation rule with swapped operands "
                           f"exists for it (forward member is {fwd})")
                    if member in matched:
                        raise Undecided(f"parser has a case for reflected member {member}: unknown idiom")
                elif base in COMMUTATIVE_DUNDER:
                    ok = set(order) == {"self", "other"}
                    msg = "children must be self and other"
                else:
                    ok = order == ("other", "self")
                    msg = (f"reflected overload of non-commutative '{PY_SYMBOL[base]}' must build children "
                           f"[other, self]; found {list(order)}")
            ctx.check("R2", ok, ops, f"Operator.{name}", fn, msg, construct=f"{name} -> {member}{list(order)}",
                      facts={"children": list(order), "member": member})
            ctx.sample({"rule": "R2", "overload": name, "children": list(order), "member": member})

    # ---------------- R3 symbol table --------------------------------------------------
    to_symbol = methods(Operations).get("to_symbol")
    if to_symbol is None:
        raise AnchorError("Operations.to_symbol missing")
    table = None
    for n in walk_local(to_symbol):
        if isinstance(n, ast.Dict):
            table = n
            break
    if table is None:
        raise AnchorError("Operations.to_symbol has no dict literal")
    sym = {}
    for k, v in zip(table.keys, table.values):
        d = dotted(k) if k is not None else None
        if d and isinstance(v, ast.Constant):
            sym[d.split(".")[-1]] = v.value
    for base, member in dunder_member.items():
        got = sym.get(member)
        ctx.check("R3", got == PY_SYMBOL[base], ops, "Operations.to_symbol", table,
                  f"to_symbol[{member}] is {got!r} but the member is created by __{base}__ i.e. python '{PY_SYMBOL[base]}' "
                  f"(evaluation is eval(f'child_values[0] {{symbol}} child_values[1]'))",
                  construct=f"to_symbol[{member}]={got!r}", facts={"member": member, "symbol": got})
    # the generic combination site: either eval(f"child_values[0] {symbol} child_values[1]") with symbol from to_symbol,
    # or a module-level table {Operations.X: operator.<fn>} applied as TABLE[operation](left, right)
    evals = [c for c in calls_in(ev) if call_name(c) == "eval"]
    table_calls = [c for c in calls_in(ev) if isinstance(c.func, ast.Subscript) and isinstance(c.func.value, ast.Name)
                   and u(c.func.slice) in ("operation", "op.operation") and len(c.args) == 2]
    if not evals and not table_calls:
        raise AnchorError("no generic combination site (eval(...) or TABLE[operation](left, right)) in _evaluate_single")
    for c in evals:
        s_ = u(c.args[0]) if c.args else ""
        ok = "child_values[0] {symbol} child_values[1]" in s_
        ctx.check("R3", ok, par, "AdParser._evaluate_single", c,
                  "generic combination must be child_values[0] <symbol> child_values[1]", facts={"eval": s_})
    for s_ in stmts_local(ev):
        if isinstance(s_, ast.Assign) and any(isinstance(t, ast.Name) and t.id == "symbol" for t in s_.targets):
            ok = isinstance(s_.value, ast.Call) and call_name(s_.value) == "to_symbol" and [u(a) for a in s_.value.args] == ["operation"]
            ctx.check("R3", ok, par, "AdParser._evaluate_single", s_, "symbol must be Operations.to_symbol(operation)")
    for c in table_calls:
        tname = c.func.value.id
        tdef = [st for st in par.tree.body if isinstance(st, (ast.Assign, ast.AnnAssign)) and u(st.targets[0] if isinstance(st, ast.Assign) else st.target) == tname]
        if len(tdef) != 1 or not isinstance(tdef[0].value, ast.Dict):
            raise Undecided(f"combination table {tname} is not a module-level dict literal")
        tab = {}
        for k_, v_ in zip(tdef[0].value.keys, tdef[0].value.values):
            if k_ is not None and _ops_member(k_):
                tab[_ops_member(k_)] = dotted(v_)
        for base, member in dunder_member.items():
            got = tab.get(member)
            ctx.check("R3", got == f"operator.{base}", par, "<module>", tdef[0],
                      f"{tname}[{member}] is {got} but the member is created by __{base}__ (python operator.{base})",
                      construct=f"{tname}[{member}]={got}", facts={"member": member, "function": got})
        # operands in order: (left, right) must resolve to child_values[0], child_values[1]
        from ..core.astutil import parent_map as _pm
        pmx = _pm(ev)
        blk = c
        while blk in pmx and not isinstance(blk, ast.match_case):
            blk = pmx[blk]
        bind = {}
        for st in [n for n in ast.walk(blk) if isinstance(n, ast.Assign)]:
            tg, val = st.targets[0], st.value
            if isinstance(tg, ast.Tuple) and isinstance(val, ast.Tuple) and len(tg.elts) == len(val.elts):
                for a_, b_ in zip(tg.elts, val.elts):
                    bind[u(a_)] = u(b_)
            elif isinstance(tg, ast.Name):
                bind[tg.id] = u(val)
        args_ = [bind.get(u(a_), u(a_)) for a_ in c.args]
        ctx.check("R3", args_ == ["child_values[0]", "child_values[1]"], par, "AdParser._evaluate_single", c,
                  f"generic combination must apply the operation to (child_values[0], child_values[1]); found {args_}",
                  construct=f"{tname}[operation]({', '.join(args_)})")

    # ---------------- R4 flips ------------------------------------------------------------
    member_dunder = {v: k for k, v in dunder_member.items()}  # member -> base
    for case in match.cases:
        mems = _case_members(case.pattern)
        if not mems:
            continue
        _check_flips(ctx, par, case, mems, member_dunder)

    # ---------------- R5 previous time / iterate ------------------------------------------
    _check_previous(ctx, par, ev)
    _check_prev_helper(ctx, ops)

    # ---------------- R6 one evaluation path -------------------------------------------------
    argnames = [a.arg for a in ev.args.args]
    bad = [n for n in walk_local(ev) if isinstance(n, ast.Name) and n.id in ("derivative", "evaluate_jacobian")]
    ctx.check("R6", not bad and "derivative" not in argnames, par, "AdParser._evaluate_single", ev,
              "_evaluate_single must not branch on a derivative flag (value with/without derivative comes from one code path)",
              construct="_evaluate_single signature/body", facts={"args": argnames})

    # ---------------- R7 numpy protocol ------------------------------------------------------
    body_names = set()
    for s in Operator.body:
        for t in assigned_targets(s):
            if isinstance(t, ast.Name):
                body_names.add(t.id)
    has_refl = any(n.startswith("__r") and n[3:-2] in PY_SYMBOL for n in meths)
    ok = (not has_refl) or bool(body_names & {"__array_ufunc__", "__array_priority__"})
    ctx.check("R7", ok, ops, "Operator", Operator,
              "Operator defines reflected arithmetic accepting numpy arrays but neither __array_ufunc__ = None nor "
              "__array_priority__: `ndarray <op> Operator` is taken by numpy elementwise (object array), the reflected "
              "overload is never called", construct="class Operator: numpy binary-op protocol",
              facts={"class_attrs": sorted(body_names)})


    # ---------------- R10 the parse cache never survives an evaluation --------------------------------
    # AdParser caches parsed leaves during one evaluation.  Leaves such as TimeDependentDenseArray read data that changes
    # between evaluations, so the cache must be empty whenever `evaluate` is left - also by an exception.  Accepted: the
    # `_evaluate_single` calls sit in a `try` whose `finally` clears the cache, or the cache is cleared before the first call.
    evaluate = par.func("AdParser.evaluate")
    from ..core.astutil import parent_map as _pm10
    pm10 = _pm10(evaluate)
    ev_calls = [c for c in walk_local(evaluate) if isinstance(c, ast.Call) and isinstance(c.func, ast.Attribute) and c.func.attr == "_evaluate_single"]
    clears = [c for c in walk_local(evaluate) if isinstance(c, ast.Call) and isinstance(c.func, ast.Attribute) and c.func.attr == "clear_cache"]
    if not ev_calls:
        raise AnchorError("AdParser.evaluate: no call of _evaluate_single")
    uses_cache = any(isinstance(n, ast.Attribute) and n.attr == "_cache" for n in ast.walk(ev)) or bool(clears)
    if uses_cache:
        def in_finally_of_enclosing_try(call, clear) -> bool:
            p = pm10.get(call)
            while p is not None and p is not evaluate:
                if isinstance(p, ast.Try) and any(clear is x for st in p.finalbody for x in ast.walk(st)) and \
                        any(call is x for st in p.body for x in ast.walk(st)):
                    return True
                p = pm10.get(p)
            return False
        first = min(c.lineno for c in ev_calls)
        cleared_before = any(cl.lineno < first and pm10.get(pm10.get(cl)) is evaluate for cl in clears)
        ok10 = cleared_before or all(any(in_finally_of_enclosing_try(c, cl) for cl in clears) for c in ev_calls)
        ctx.check("R10", ok10, par, "AdParser.evaluate", ev_calls[0],
                  "the parse cache is cleared only on the successful path: after an evaluation that raises, cached leaves survive and "
                  "the next evaluation returns their stale values (e.g. a TimeDependentDenseArray whose data changed in between)",
                  construct="AdParser.evaluate: cache cleared on every exit", facts={"clear_cache_calls": [c.lineno for c in clears]})

    # ---------------- R11 stored values are not cast to the data type of the state ---------------------
    # In the md-variable arm for previous time steps / iterates the stored values are scattered into a fresh vector shaped like
    # the state.  `np.empty_like(state)` inherits the state's dtype: an integer state truncates the stored floats.
    n11 = 0
    for c in walk_local(ev):
        if isinstance(c, ast.Call) and dotted(c.func) in ("np.empty_like", "np.zeros_like", "np.ones_like", "np.full_like"):
            if not any("ad_base" in names_in(a) or "state" in names_in(a) for a in c.args[:1]):
                continue
            n11 += 1
            dt = kwarg(c, "dtype")
            ok11 = dt is not None and u(dt) in ("float", "np.float64", "np.double", "'float64'", "np.float_")
            ctx.check("R11", ok11, par, "AdParser._evaluate_single", c,
                      f"`{u(c)[:90]}` inherits the data type of the state vector; the stored values of the variable are scattered into it, "
                      f"so an integer state truncates them", construct="_evaluate_single: vector for stored values has a float dtype")

    # ---------------- R8 indices are never defaulted by truthiness -----------------------------------
    # time_step_index / iterate_index: None = "current", 0 = the most recent stored value.  `idx or default` conflates the
    # two (0 is falsy), so a variable one step back evaluates as the current one (values AND identity Jacobian).
    n8 = 0
    for rel in sorted(r_ for r_ in ctx.repo.all_py() if r_.startswith(AD_DIR + "/")):
        m8 = ctx.repo.module(rel)
        for q8, fn8 in m8.functions():
            for st in walk_local(fn8):
                if not isinstance(st, (ast.Assign, ast.AnnAssign)) or getattr(st, "value", None) is None:
                    continue
                tg = st.targets if isinstance(st, ast.Assign) else [st.target]
                names = [u(t) for t in tg]
                if not any(n_.split(".")[-1].strip("_").endswith(("time_step_index", "iterate_index")) for n_ in names):
                    continue
                n8 += 1
                v = st.value
                bad = isinstance(v, ast.BoolOp) and isinstance(v.op, ast.Or) and any(
                    "index" in u(x) or "indices" in u(x) for x in v.values[:-1])
                if isinstance(v, ast.IfExp) and not isinstance(v.test, ast.Compare) and ("index" in u(v.test) or "indices" in u(v.test)) \
                        and not (isinstance(v.test, ast.Call)):
                    bad = True  # `idx if idx else -1`
                ctx.check("R8", not bad, m8, q8, st,
                          f"`{names[0]}` is defaulted by truthiness (`{u(v)[:80]}`): index 0 (one step back) is falsy and is replaced by "
                          f"the default meaning 'current', so the operator is parsed as the current variable",
                          construct=f"{q8}: {names[0]} defaulted by truthiness")
    if n8 == 0:
        raise AnchorError("no assignment to a time_step_index / iterate_index found in the ad package")

    # ---------------- R9 ADmethod binds the instance by value ---------------------------------------
    # ADmethod is a descriptor shared by all instances of the decorated class; __get__ overwrites self._bound_to on every
    # attribute access.  The callable handed to the operator must therefore capture the instance at wrap time
    # (functools.partial / default argument / local snapshot); a nested function or lambda that reads self._bound_to when it is
    # CALLED evaluates with whichever instance touched the method last.
    try:
        opf = ctx.repo.module(AD_DIR + "/operator_functions.py")
        adm = opf.cls("ADmethod")
    except AnchorError:
        adm = None
    if adm is not None:
        mm = methods(adm)
        rebinding = [n_ for n_, f_ in mm.items() if n_ != "__init__" and any(
            isinstance(t, ast.Attribute) and u(t) == "self._bound_to" for st in walk_local(f_) if isinstance(st, ast.Assign) for t in st.targets)]
        if rebinding:
            for n_, f_ in mm.items():
                late = []
                for inner in ast.walk(f_):
                    if inner is f_ or not isinstance(inner, (ast.FunctionDef, ast.Lambda)):
                        continue
                    body_nodes = inner.body if isinstance(inner.body, list) else [inner.body]
                    defaults = list(inner.args.defaults) + [d for d in inner.args.kw_defaults if d is not None]
                    for b in body_nodes:
                        for x in ast.walk(b):
                            if isinstance(x, ast.Attribute) and u(x) == "self._bound_to" and not any(x is d_ or x in list(ast.walk(d_)) for d_ in defaults):
                                late.append(x)
                reads = [x for x in ast.walk(f_) if isinstance(x, ast.Attribute) and u(x) == "self._bound_to" and isinstance(x.ctx, ast.Load)]
                if not reads:
                    continue
                ctx.check("R9", not late, opf, f"ADmethod.{n_}", late[0] if late else f_,
                          f"a nested function/lambda reads `self._bound_to` when called; the descriptor is shared and {rebinding} rebinds it on "
                          f"every attribute access, so an operator built from instance A is evaluated with the instance that accessed the "
                          f"method last", construct=f"ADmethod.{n_}: instance captured by value")


def _enclosing(mod, node) -> str:
    best = ("<module>", -1)
    for q, n in mod.qualnames().items():
        if getattr(n, "lineno", 0) <= node.lineno <= getattr(n, "end_lineno", 0) and n.lineno > best[1]:
            best = (q, n.lineno)
    return best[0]


def _guard_ops(pm: dict, node: ast.AST, stop: ast.AST, mems: list[str]) -> set[str]:
    """Operations members possible at `node`, narrowed by enclosing `if operation == Operations.X`."""
    poss = set(mems)
    cur = node
    while cur is not stop and cur in pm:
        par = pm[cur]
        if isinstance(par, ast.If):
            eqs = _eq_ops(par.test)
            if eqs:
                in_body = any(cur is s for s in par.body)
                if in_body:
                    poss &= eqs
                elif any(cur is s for s in par.orelse):
                    poss -= eqs if _is_pure_eq(par.test) else set()
        cur = par
    return poss


def _eq_ops(test: ast.expr) -> set[str]:
    """members m such that test implies operation == m (conjunctions only)."""
    if isinstance(test, ast.Compare) and len(test.ops) == 1 and isinstance(test.ops[0], ast.Eq):
        l, r = test.left, test.comparators[0]
        for a, b in ((l, r), (r, l)):
            if u(a) in ("operation", "op.operation") and _ops_member(b):
                return {_ops_member(b)}
    if isinstance(test, ast.BoolOp) and isinstance(test.op, ast.And):
        for v in test.values:
            e = _eq_ops(v)
            if e:
                return e
    return set()


def _is_pure_eq(test: ast.expr) -> bool:
    return isinstance(test, ast.Compare)


def _check_flips(ctx: Ctx, par, case: ast.match_case, mems: list[str], member_dunder: dict) -> None:
    from ..core.astutil import parent_map
    pm = parent_map(case)
    where = "AdParser._evaluate_single"
    # reversal statements
    for s in [n for n in ast.walk(case) if isinstance(n, ast.Assign)]:
        if len(s.targets) == 1 and u(s.targets[0]) == "child_values" and isinstance(s.value, ast.Subscript) \
                and u(s.value.value) == "child_values":
            if u(s.value.slice) != "::-1":
                raise Undecided(f"{PARSER}:{s.lineno}: unrecognised re-ordering of child_values")
            poss = _guard_ops(pm, s, case, mems)
            noncomm = sorted(m for m in poss if member_dunder.get(m) not in COMMUTATIVE_DUNDER)
            # compensation: a flag set True next to the reversal, and `return -res` guarded by
            # (operation == m and flag) for each non-commutative m
            blk = pm[s]
            flags = [t.id for st in getattr(blk, "body", []) if isinstance(st, ast.Assign) and isinstance(st.value, ast.Constant)
                     and st.value.value is True for t in st.targets if isinstance(t, ast.Name)]
            if isinstance(blk, ast.If) and isinstance(blk.test, ast.Name):
                flags.append(blk.test.id)  # `flag = isinstance(...); if flag: reverse`
            uncomp = []
            for m in noncomm:
                comp = False
                for iff in [n for n in ast.walk(case) if isinstance(n, ast.If)]:
                    if m in _eq_ops(iff.test) and any(f in names_in(iff.test) for f in flags):
                        rets = [r for r in iff.body if isinstance(r, ast.Return)]
                        if rets and isinstance(rets[0].value, ast.UnaryOp) and isinstance(rets[0].value.op, ast.USub):
                            # the un-negated value must be returned otherwise
                            comp = True
                if m == "sub" and comp:
                    continue
                uncomp.append(m)
            ctx.check("R4", not uncomp, par, where, s,
                      f"child_values reversed for non-commutative operation(s) {uncomp} without compensation",
                      construct=f"reverse child_values under ops {sorted(poss)}",
                      facts={"possible_ops": sorted(poss), "flags": flags})
            ctx.sample({"rule": "R4", "reversal_line_ops": sorted(poss), "compensated_for": [m for m in noncomm if m not in uncomp]})
    # the flag must start False before the reversal `if`
    # direct dunder calls
    for c in [n for n in ast.walk(case) if isinstance(n, ast.Call)]:
        f = c.func
        if isinstance(f, ast.Attribute) and f.attr.startswith("__") and f.attr.endswith("__") and \
                u(f.value).startswith("child_values["):
            base = f.attr.strip("_")
            refl = base.startswith("r") and base[1:] in PY_SYMBOL
            core = base[1:] if refl else base
            if core not in PY_SYMBOL:
                continue
            poss = _guard_ops(pm, c, case, mems)
            recv = u(f.value)
            arg = u(c.args[0]) if c.args else ""
            want_member = {k for k, v in member_dunder.items() if v == core}
            ok_op = poss and poss <= want_member
            ok_order = (recv, arg) == (("child_values[1]", "child_values[0]") if refl else ("child_values[0]", "child_values[1]"))
            ctx.check("R4", bool(ok_op and ok_order), par, where, c,
                      f"direct call {f.attr} under operation(s) {sorted(poss)}: must be the reflected dunder of the guarding "
                      f"operation applied as child_values[1].__rX__(child_values[0])",
                      facts={"ops": sorted(poss), "dunder": f.attr, "receiver": recv, "arg": arg})
    # -res must only occur under sub
    for r in [n for n in ast.walk(case) if isinstance(n, ast.Return)]:
        if isinstance(r.value, ast.UnaryOp) and isinstance(r.value.op, ast.USub):
            poss = _guard_ops(pm, r, case, mems)
            ctx.check("R4", poss == {"sub"}, par, where, r, f"negated result returned for operations {sorted(poss)} (only a flipped subtraction may be negated)",
                      facts={"ops": sorted(poss)})
    # a flipped subtraction must be negated: if case covers 'sub' and contains a reversal applying to sub,
    # handled above (uncomp).


AD_NEUTRAL_WRAPPERS = {"empty_like", "zeros_like", "zeros", "empty", "isinstance"}


def _tainted(e: ast.AST, tainted_names: set[str]) -> bool:
    """Does expression e carry (part of) ad_base, i.e. possibly an AdArray with a Jacobian?"""
    if isinstance(e, ast.Call) and call_name(e) in AD_NEUTRAL_WRAPPERS:
        return False
    if isinstance(e, ast.Attribute) and e.attr in ("val", "shape", "size") and u(e.value) == "ad_base":
        return False
    if isinstance(e, ast.Name):
        return e.id == "ad_base" or e.id in tainted_names
    return any(_tainted(c, tainted_names) for c in ast.iter_child_nodes(e))


def _terminal(stmts: list) -> bool:
    return bool(stmts) and isinstance(stmts[-1], (ast.Return, ast.Raise, ast.Continue))


def _path_conditions(pm: dict, node: ast.AST, stop: ast.AST) -> list:
    """(test, polarity) pairs that hold at `node` by structure: enclosing ifs, and preceding sibling ifs whose taken
    arm always leaves the block (early return / raise)."""
    out = []
    cur = node
    while cur is not stop and cur in pm:
        par_ = pm[cur]
        for fld in ("body", "orelse"):
            blk = getattr(par_, fld, None)
            if isinstance(blk, list) and any(cur is s_ for s_ in blk):
                if isinstance(par_, ast.If):
                    out.append((par_.test, fld == "body"))
                for prev in blk:
                    if prev is cur:
                        break
                    if isinstance(prev, ast.If):
                        if _terminal(prev.body) and not _terminal(prev.orelse):
                            out.append((prev.test, False))
                        elif _terminal(prev.orelse) and not _terminal(prev.body):
                            out.append((prev.test, True))
        cur = par_
    return out


def _prev_polarity(test: ast.expr):
    """None if the test is not about previous time/iterate; else (polarity_of_test_being_true, is_full_disjunction)."""
    t = test
    neg = False
    while isinstance(t, ast.UnaryOp) and isinstance(t.op, ast.Not):
        t, neg = t.operand, not neg
    txt = u(t)
    if "is_previous_iterate" not in txt and "is_previous_time" not in txt:
        return None
    full = isinstance(t, ast.BoolOp) and isinstance(t.op, ast.Or) and {u(v) for v in t.values} == {"op.is_previous_iterate", "op.is_previous_time"}
    return (not neg), full


def _leaf_region(par, ev: ast.FunctionDef):
    """statements that evaluate a leaf: the body of `if op.is_leaf():` or, when that body only delegates to a private
    method (`return self._evaluate_leaf(op, ad_base, equation_system)`), the body of that method."""
    leaf = [i for i in ev.body if isinstance(i, ast.If) and "is_leaf" in u(i.test)]
    if not leaf:
        raise AnchorError("_evaluate_single: leaf arm not found")
    body = leaf[0].body
    if len(body) == 1 and isinstance(body[0], ast.Return) and isinstance(body[0].value, ast.Call) \
            and isinstance(body[0].value.func, ast.Attribute) and u(body[0].value.func.value) == "self":
        name = body[0].value.func.attr
        helper = par.get(f"AdParser.{name}")
        if helper is None:
            raise Undecided(f"_evaluate_single delegates leaves to self.{name}, which was not found")
        args = [u(a_) for a_ in body[0].value.args]
        params = [p_.arg for p_ in helper.args.args][1:]
        if args != params[:len(args)] or not {"op", "ad_base", "equation_system"} <= set(params):
            raise Undecided(f"leaf helper {name}: parameters are not passed through under the same names")
        return helper, helper.body, f"AdParser.{name}"
    return ev, body, "AdParser._evaluate_single"


def _check_previous(ctx: Ctx, par, ev: ast.FunctionDef) -> None:
    from ..core.astutil import parent_map
    root, region, q = _leaf_region(par, ev)
    pm = parent_map(root)
    tainted: set[str] = set()
    for _ in range(3):
        for s_ in [x for b in region for x in ast.walk(b) if isinstance(x, ast.Assign)]:
            if _tainted(s_.value, tainted):
                for tg in assigned_targets(s_):
                    if isinstance(tg, ast.Name):
                        tainted.add(tg.id)
    n_prev = n_cur = 0
    for r in [x for b in region for x in ast.walk(b) if isinstance(x, ast.Return)]:
        conds = _path_conditions(pm, r, root)
        pol = None
        for test, holds in conds:
            pp_ = _prev_polarity(test)
            if pp_ is None:
                continue
            test_pol, full = pp_
            if not full:
                ctx.check("R5", False, par, q, test,
                          "leaf arm must test `op.is_previous_iterate or op.is_previous_time` (both shifts store values, neither has a derivative)",
                          facts={"test": u(test)})
            pol = test_pol if holds else (not test_pol)
        if pol is None:
            continue  # other leaves (discretizations, wrapped data)
        if r.value is None:
            raise Undecided("bare return in a variable leaf arm")
        if pol:
            n_prev += 1
            ok = not _tainted(r.value, tainted)
            ctx.check("R5", ok, par, q, r,
                      "leaf at a previous time step/iterate returns a value derived from ad_base (would carry a Jacobian / current values)",
                      facts={"returns": u(r.value), "tainted_locals": sorted(tainted)})
        else:
            n_cur += 1
            ok = isinstance(r.value, ast.Subscript) and u(r.value.value) == "ad_base" and "dofs_of([op])" in u(r.value.slice)
            ctx.check("R5", ok, par, q, r, "current-state variable leaf must be ad_base[equation_system.dofs_of([op])]",
                      facts={"returns": u(r.value)})
    if n_prev < 2 or n_cur < 2:
        raise AnchorError(f"expected two previous and two current variable leaf returns (MixedDimensionalVariable, Variable); found {n_prev}/{n_cur}")
    # ordering contract inside the leaf arm: values of leaves are placed with `dofs_of` (argument order, the order of
    # op.sub_vars); readers with a different ordering contract (get_variable_values: global dof order) permute the
    # values of md-variables whose creation order differs from the grid order.
    used = []
    for b in region:
        for nd in ast.walk(b):
            if isinstance(nd, ast.Attribute) and isinstance(nd.value, ast.Name) and nd.value.id == "equation_system":
                used.append(nd)
    for nd in used:
        if nd.attr in ("dofs_of", "mdg"):
            continue
        if nd.attr in ("get_variable_values", "get_variables", "variables"):
            ctx.check("R5", False, par, q, nd,
                      f"leaf values are read with equation_system.{nd.attr} (global dof order) while the current-state arm indexes with "
                      f"dofs_of([op]) (order of op.sub_vars): the two orders differ when sub-variables were created in another order "
                      f"than the grids", construct=f"leaf arm uses equation_system.{nd.attr}")
        else:
            raise Undecided(f"leaf arm uses equation_system.{nd.attr}: unknown ordering contract")
    ctx.check("R5", True, par, q, region[0], "leaf arms place values only through dofs_of (argument order)",
              construct="leaf arm ordering contract", facts={"uses": sorted({n_.attr for n_ in used})})


def _check_prev_helper(ctx: Ctx, ops) -> None:
    fn = ops.func("_get_previous_time_or_iterate")
    q = "_get_previous_time_or_iterate"
    from ..core.astutil import parent_map
    pm = parent_map(fn)
    seen = set()
    for r in [x for x in walk_local(fn) if isinstance(x, ast.Return)]:
        v = r.value
        if isinstance(v, ast.Call) and isinstance(v.func, ast.Attribute) and v.func.attr in ("previous_timestep", "previous_iteration"):
            # guard polarity
            iff = pm[r]
            while not isinstance(iff, ast.If):
                iff = pm[iff]
            test = iff.test
            pos = any(u(x) == "prev_time" for x in (test.values if isinstance(test, ast.BoolOp) else [test]))
            neg = any(u(x) == "not prev_time" for x in (test.values if isinstance(test, ast.BoolOp) else [test]))
            want_pos = v.func.attr == "previous_timestep"
            cls_ok = ("TimeDependentOperator" in u(test)) if want_pos else ("IterativeOperator" in u(test))
            steps = kwarg(v, "steps") or (v.args[0] if v.args else None)
            ok = (pos if want_pos else neg) and cls_ok and steps is not None and u(steps) == "steps" and u(v.func.value) == "op"
            ctx.check("R5", ok, ops, q, r, f"{v.func.attr} must be dispatched under prev_time={'True' if want_pos else 'False'} "
                      f"for the matching operator class, forwarding steps", facts={"test": u(test), "call": u(v)})
            seen.add(v.func.attr)
    if seen != {"previous_timestep", "previous_iteration"}:
        raise AnchorError(f"{q}: dispatch arms not found")
    # recursive rebuild of children: a recursive call on each element of op.children (comprehension or loop), forwarding
    # prev_time and steps (keyword or positional), collected into the `.children` of the copy
    rec = [c for c in calls_in(fn) if call_name(c) == q]
    params = [p_.arg for p_ in fn.args.args]

    def forwards(c: ast.Call) -> bool:
        got = {}
        for i, a_ in enumerate(c.args):
            if i < len(params):
                got[params[i]] = u(a_)
        for k in c.keywords:
            if k.arg:
                got[k.arg] = u(k.value)
        return got.get("prev_time") == "prev_time" and got.get("steps") == "steps"

    iter_ok = False
    for n_ in walk_local(fn):
        gens = []
        if isinstance(n_, ast.ListComp):
            gens = [(g.target, g.iter, n_.elt) for g in n_.generators[:1]]
        elif isinstance(n_, ast.For):
            calls_ = [c for c in ast.walk(n_) if isinstance(c, ast.Call) and call_name(c) == q]
            gens = [(n_.target, n_.iter, c) for c in calls_]
        for tgt, it, elt in gens:
            if u(it) == "op.children" and isinstance(elt, ast.Call) and call_name(elt) == q and elt.args and u(elt.args[0]) == u(tgt) and forwards(elt):
                iter_ok = True
    cons = None
    for s_ in stmts_local(fn):
        if isinstance(s_, ast.Assign) and any(u(t).endswith(".children") for t in s_.targets):
            cons = s_
    ok = iter_ok and cons is not None and bool(rec) and all(forwards(c) for c in rec)
    ctx.check("R5", ok, ops, q, cons or fn,
              "inner nodes must be copied with children rebuilt by the recursion over op.children forwarding prev_time and steps",
              construct="children rebuilt recursively over op.children" if ok else (u(cons) if cons else "children rebuild missing"))
    # leaves returned unchanged
    leaf_ok = any(isinstance(i, ast.If) and "is_leaf()" in u(i.test) and any(isinstance(x, ast.Return) and x.value is not None and u(x.value) == "op" for x in i.body)
                  for i in walk_local(fn))
    ctx.check("R5", leaf_ok, ops, q, fn, "time/iterate-independent leaves are returned unchanged", construct="leaf arm")


def _m(name, old, new, rule, file=OPS, control=False, count=1):
    return dict(name=name, file=file, old=old, new=new, rule=rule, control=control, count=count)


MUTANTS = [
    _m("revert-fix-cache-cleared-on-success-only", "            # to safely cache some results also between evaluations.\n            self.clear_cache()\n",
       "            # to safely cache some results also between evaluations.\n            pass\n        self.clear_cache()\n", "R10", file=PARSER, control=True),
    _m("revert-fix-empty-like-inherits-state-dtype", "                        ad_base.val if isinstance(ad_base, pp.ad.AdArray) else ad_base,\n                        dtype=float,\n",
       "                        ad_base.val if isinstance(ad_base, pp.ad.AdArray) else ad_base,\n", "R11", file=PARSER),
    _m("seed-md-variable-index-or-default", "        self._time_step_index = -1 if time_indices[0] is None else time_indices[0]\n",
       "        self._time_step_index = time_indices[0] or -1\n", "R8"),
    _m("seed-md-variable-iterate-index-ifexp-truthiness", "            self._iterate_index = -1 if iter_indices[0] is None else iter_indices[0]\n",
       "            self._iterate_index = iter_indices[0] if iter_indices[0] else -1\n", "R8"),
    _m("seed-admethod-late-binding-closure", "            operator_func = partial(self._func, self._bound_to)\n",
       "            def operator_func(*func_args, **func_kwargs):\n                return self._func(self._bound_to, *func_args, **func_kwargs)\n",
       "R9", file=AD_DIR + "/operator_functions.py"),
    _m("admethod-late-binding-lambda", "            operator_func = partial(self._func, self._bound_to)\n",
       "            operator_func = lambda *a, **k: self._func(self._bound_to, *a, **k)\n", "R9", file=AD_DIR + "/operator_functions.py"),
    _m("seed-rpow-unpacked-not-swapped", "        children = self._parse_other(other)\n        # Self is the right operand: swap the children and use the forward operation,\n        # as is done in __rsub__.\n        children = [children[1], children[0]]\n        return Operator(\n            children=children,\n            operation=Operations.pow,",
       "        exponent, base = self._parse_other(other)\n        children = [exponent, base]\n        return Operator(\n            children=children,\n            operation=Operations.pow,", "R2"),
    _m("seed-mdvar-previous-global-order", "                    return vals[np.hstack(dofs, dtype=int)] if dofs else np.array([])",
       "                    return equation_system.get_variable_values([op], time_step_index=op.time_step_index, iterate_index=op.iterate_index)", "R5", file=PARSER),
    _m("revert-fix-reflected-not-swapped", "        children = [children[1], children[0]]\n        return Operator(\n            children=children,\n            operation=Operations.div,",
       "        return Operator(\n            children=children,\n            operation=Operations.div,", "R2", control=True),
    _m("revert-fix-rmatmul-member", "            operation=Operations.matmul,\n            name=\"reverse @ operator\",", "            operation=Operations.rmatmul,\n            name=\"reverse @ operator\",", "R1"),
    _m("revert-fix-array-ufunc", "    __array_ufunc__ = None\n", "    _no_array_ufunc_ = None\n", "R7"),
    _m("parser-drop-pow-case", "case Operations.mul | Operations.div | Operations.pow | Operations.matmul:",
       "case Operations.mul | Operations.div | Operations.matmul:", "R1", file=PARSER, control=True),
    _m("rsub-not-swapped", "        children = [children[1], children[0]]\n        return Operator(children=children, operation=Operations.sub",
       "        children = [children[0], children[1]]\n        return Operator(children=children, operation=Operations.sub", "R2", control=True),
    _m("symbol-matmul-star", 'cls.matmul: "@",', 'cls.matmul: "*",', "R3"),
    _m("symbol-div-star", 'cls.div: "/",', 'cls.div: "*",', "R3"),
    _m("drop-neg-res", "                    return -res\n", "                    return res\n", "R4", file=PARSER),
    _m("flip-for-all-ops", "                    if operation == Operations.mul:\n                        # In the implementation",
       "                    if True:\n                        # In the implementation", "R4", file=PARSER),
    _m("rdiv-forward-dunder", "return child_values[1].__rtruediv__(child_values[0])",
       "return child_values[1].__truediv__(child_values[0])", "R4", file=PARSER),
    _m("rpow-under-div", "return child_values[1].__rtruediv__(child_values[0])",
       "return child_values[1].__rpow__(child_values[0])", "R4", file=PARSER),
    _m("prev-variable-returns-ad-base", "                    return op.parse(equation_system.mdg)\n                # Otherwise use the current",
       "                    return ad_base[equation_system.dofs_of([op])]\n                # Otherwise use the current", "R5", file=PARSER, control=True),
    _m("prev-only-time", "                if op.is_previous_iterate or op.is_previous_time:\n                    return op.parse",
       "                if op.is_previous_time:\n                    return op.parse", "R5", file=PARSER),
    _m("prev-helper-swapped-dispatch", "    if isinstance(op, TimeDependentOperator) and prev_time:", "    if isinstance(op, TimeDependentOperator) and not prev_time:", "R5"),
    _m("prev-helper-drops-steps", "        return op.previous_iteration(steps=steps)", "        return op.previous_iteration()", "R5"),
    _m("prev-helper-no-recursion", "            _get_previous_time_or_iterate(child, prev_time=prev_time, steps=steps)\n", "            child\n", "R5"),
]
