"""C16 - TPSA is invariant under rigid translations: identities of the EXTRACTED assembly.

Tpsa.discretize and the static helpers it calls (_create_numbering, _create_filters, _compute_distances,
_create_cell_to_face_maps, _vector_laplace_matrices) are straight-line numpy / scipy.sparse programs over the half-face
triple of sd.cell_faces.  Their syntax trees are abstractly interpreted (the interpreter of sa.rules.c12: nothing of porepy
is imported or run) on two MODEL MESHES - the incidence patterns of a 2 x 2 Cartesian grid (nd = 2: scalar rotation) and
of a 2 x 1 x 1 Cartesian grid (nd = 3: vector rotation) - with fully SYMBOLIC geometry (normals, centres, areas), a
symbolic shear modulus per cell and every kind of displacement boundary condition on the boundary faces (Dirichlet,
Neumann, per-component mixtures of both, and - in a separate variant - Robin with symbolic weights).  The stored matrices
are sympy terms valid for every geometry / modulus on these patterns.  The translation state is  u = u0 in every cell,
rotation = 0, solid pressure = 0, with boundary data consistent with it (u0 on Dirichlet components, zero traction on
Neumann components).  sympy only normalises the extracted terms.

R1  well-formed assembly   interpreting the assembly on the model meshes raises no index / shape error and the matrices
                           entering the clauses are stored under their keys with the shapes their readers expect
                           (face-major / cell-major nd-numbering on both sides).
R2  stress                 stress @ u + bound_stress @ g = 0 on EVERY face and component: interior rows annihilate
                           constants (+c for one cell, -c for the other, sign from cell_faces), a Dirichlet component has
                           bound coefficient = minus the cell coefficient, a Neumann component has a zero row and sees
                           only its (zero) datum.
R3  rotation and mass      with closed cells (sum of outward normals of a cell = 0, imposed on the symbols) the cell
                           residuals  div (rotation_displacement @ u + bound_rotation_displacement @ g)  and
                           div (solid_mass_displacement @ u + bound_mass_displacement @ g)  vanish, i.e. (u0, 0, 0) solves
                           the full system: the cell-to-face averaging weights sum to one on interior and Neumann
                           faces, are zero on Dirichlet components where the datum enters with weight one, with the
                           same nd-expansion in all factors.
R4  displacement trace     bound_displacement_cell @ u + bound_displacement_face @ g = u0 on every boundary face and
                           component (the reconstruction the models use for the boundary displacement).
R5  Robin data             (Robin variant) a Robin face must admit boundary data, independent of the elastic moduli, for
                           which the translation is stress free (sigma.n + alpha u = g with sigma = 0 gives g = alpha u0).
R6  Robin directions       (Robin variants, 2-d and 3-d, a different symbolic weight per direction) robin_weight[k, k] of a face
                           enters the coefficients of component k of that face and nothing else, and the stress coefficients
                           of component k depend on it: a Robin condition with limit weights is the documented way to get a
                           roller (fixed in one direction, free in another), which a translation along the free direction
                           must leave stress free.  Independent of the known R5 finding.

Not decided: the values of the coefficients (harmonic / arithmetic averages enter both sides of every identity, so a wrong
value that keeps the pairing is invisible - exactly as for the property itself), unique solvability of the system, anything
about a concrete grid or floating point, incidence patterns other than the two models (the assembly is local per half-face;
generality over topologies is an argument, not a verdict), the terms that multiply the rotation and the solid pressure (they
are zero in the translation state).  The data-dependent choice of the scalar Dirichlet filter (argmax of |n|) is resolved
by the model assumption that each face of the Cartesian pattern is closest to its own coordinate axis.
"""
from __future__ import annotations

import ast
from typing import Optional

import numpy as np
import sympy as sp

from ..core.astutil import u
from ..core.loader import AnchorError, Undecided
from ..core.report import Ctx
from .c12 import Mesh, SpM, Interp, World, Obj, Unknown, ModelCrash, is_zero, bad_number, oarr, CONSTS, _short

TPSA = "src/porepy/numerics/fv/tpsa.py"
Q = "Tpsa.discretize"

KEYS = {"stress": "stress_displacement_matrix_key", "bound_stress": "bound_stress_matrix_key",
        "rot": "rotation_displacement_matrix_key", "bound_rot": "bound_rotation_displacement_matrix_key",
        "mass": "mass_displacement_matrix_key", "bound_mass": "bound_mass_displacement_matrix_key",
        "trace_cell": "bound_displacement_cell_matrix_key", "trace_face": "bound_displacement_face_matrix_key"}

D, N_, R = "dir", "neu", "rob"
# boundary condition per boundary face and component.  2 x 2 mesh: faces 0, 3 (x-, sign -1), 2, 5 (x+), 6, 7 (y-, sign -1), 10, 11 (y+).
BC2 = {0: (D, D), 2: (D, D), 3: (N_, N_), 5: (N_, N_), 6: (D, N_), 10: (N_, D), 7: (N_, D), 11: (D, N_)}
BC2_ROB = {**BC2, 7: (R, R), 11: (R, R)}
# 2 x 1 x 1 mesh: x-faces 0, 2; y-faces 3, 4 (sign -1), 5, 6; z-faces 7, 8 (sign -1), 9, 10.
BC3 = {0: (D, D, D), 2: (N_, N_, N_), 3: (D, D, D), 4: (N_, N_, N_), 5: (D, N_, N_), 6: (N_, D, D), 7: (N_, N_, D), 8: (D, D, N_), 9: (D, D, D), 10: (N_, N_, N_)}

BC3_ROB = {**BC3, 9: (R, R, R), 10: (R, R, R), 6: (R, R, R)}

VARIANTS = [("2d", 2, (2, 2), BC2), ("3d", 3, (2, 1, 1), BC3), ("2d Robin", 2, (2, 2), BC2_ROB), ("3d Robin", 3, (2, 1, 1), BC3_ROB)]


class Run:
    def __init__(self, name, world, mesh, nd, bc, stored, crash=None):
        self.name, self.w, self.mesh, self.nd, self.bc, self.stored, self.crash = name, world, mesh, nd, bc, stored, crash
        self.mats: dict = {}
        self.rw: dict = {}

    def node(self, key: str, fn):
        return self.w.store_nodes.get(self.w.selfattrs.get(KEYS[key]), fn)


def tpsa_world(repo) -> World:
    w = World(repo, TPSA, "Tpsa")
    for attr in KEYS.values():
        if not isinstance(w.selfattrs.get(attr), str):
            raise AnchorError(f"{TPSA}: Tpsa.__init__ does not assign a literal to self.{attr}")
    for c in ("PARAMETERS", "DISCRETIZATION_MATRICES"):
        if c not in w.consts:
            raise AnchorError(f"{CONSTS}: constant {c} not found")
    if w.method("discretize") is None:
        raise AnchorError(f"{TPSA}:{Q} not found")
    return w


def interpret_tpsa(repo, name: str, nd: int, shape: tuple, bc: dict) -> Run:
    w = tpsa_world(repo)
    mesh = Mesh(nd, shape)
    if sorted(bc) != mesh.boundary:
        raise AnchorError(f"C16 model: boundary faces {mesh.boundary} do not match the condition table")
    sd = mesh.grid()
    w.oracle = mesh.dominant_axis_oracle
    nf, nc = mesh.nf, mesh.nc
    flags = {k: np.zeros((nd, nf), dtype=bool) for k in (D, N_, R)}
    for f, kinds in bc.items():
        for k, kind in enumerate(kinds):
            flags[kind][k, f] = True
    basis = np.zeros((nd, nd, nf), dtype=int)
    rw = np.empty((nd, nd, nf), dtype=object)
    rw[...] = sp.Integer(0)
    run = Run(name, w, mesh, nd, bc, {})
    for k in range(nd):
        basis[k, k, :] = 1
        for f in range(nf):
            rw[k, k, f] = sp.Integer(1)
            if f in bc and bc[f][k] == R:
                rw[k, k, f] = run.rw[(f, k)] = sp.Symbol(f"RW{k}_{f}", positive=True)
    bnd = Obj("vectorial boundary condition", dict(is_dir=flags[D], is_neu=flags[N_], is_rob=flags[R], basis=basis, robin_weight=rw, num_faces=nf, dim=nd,
                                                    bf=sd.meths["get_all_boundary_faces"](), is_internal=np.zeros(nf, dtype=bool)))
    mu = oarr([sp.Symbol(f"MU_{c}", positive=True) for c in range(nc)])
    lam = oarr([sp.Symbol(f"LAM_{c}", positive=True) for c in range(nc)])
    stiff = Obj("fourth order tensor", dict(mu=mu, lmbda=lam))
    matd: dict = {}
    data = {w.consts["PARAMETERS"]: {"kw": {"fourth_order_tensor": stiff, "bc": bnd}}, w.consts["DISCRETIZATION_MATRICES"]: {"kw": matd}}
    w.matdict = matd
    run.stored = matd
    fn = w.method("discretize")
    try:
        Interp(w, {}, 0, Q).invoke(fn, [sd, data], {}, Obj("self", dict(keyword="kw")), fn)
    except ModelCrash as mc:
        run.crash = mc
    return run


def _shapes(run: Run) -> dict:
    nd, nf, nc = run.nd, run.mesh.nf, run.mesh.nc
    rot = nf if nd == 2 else nd * nf
    return {"stress": (nd * nf, nd * nc), "bound_stress": (nd * nf, nd * nf), "rot": (rot, nd * nc), "bound_rot": (rot, nd * nf),
            "mass": (nf, nd * nc), "bound_mass": (nf, nd * nf), "trace_cell": (nd * nf, nd * nc), "trace_face": (nd * nf, nd * nf)}


def check_wellformed(ctx: Ctx, mod, fn, run: Run) -> bool:
    if run.crash is not None:
        mc = run.crash
        ctx.check("R1", False, mod, Q, mc.node if mc.node is not None else fn,
                  f"[{run.name}] interpreting the assembly on the model mesh ({run.mesh.nf} faces, {run.mesh.nc} cells, {len(run.mesh.half)} half-faces, nd = {run.nd}) fails in "
                  f"{mc.where} with {mc.msg}: arrays of different index spaces (faces / cells / half-faces, scalar / nd-expanded) are combined",
                  construct=f"{mc.where}: `{u(mc.node)[:110] if mc.node is not None else '?'}` raises on the model mesh")
        return False
    ok_all = True
    for key, shape in _shapes(run).items():
        k = run.w.selfattrs[KEYS[key]]
        m = run.stored.get(k)
        if isinstance(m, Unknown):
            raise Undecided(f"{TPSA}:{Q}: the matrix stored under self.{KEYS[key]} depends on a value the interpreter does not model ({m.why})")
        ok = isinstance(m, SpM) and m.shape == shape
        ctx.check("R1", ok, mod, Q, run.node(key, fn),
                  f"[{run.name}] the matrix stored under self.{KEYS[key]} must have shape {shape} on the model mesh; found "
                  f"{'nothing stored' if m is None else (m.shape if isinstance(m, SpM) else type(m).__name__)}", construct=f"store under self.{KEYS[key]} [{run.name}]: shape")
        ok_all = ok_all and ok
        if ok:
            run.mats[key] = m.todict()
            if any(bad_number(v) for v in run.mats[key].values()):
                ctx.check("R1", False, mod, Q, run.node(key, fn), f"[{run.name}] the matrix under self.{KEYS[key]} contains a division by an exact zero",
                          construct=f"store under self.{KEYS[key]} [{run.name}]: division by zero")
                ok_all = False
    return ok_all


def _state(run: Run):
    """cell displacements (cell-major) and boundary data (face-major) of the translation; Robin components get the symbol GR_k_f * u0_k"""
    nd, mesh = run.nd, run.mesh
    U = [sp.Symbol(f"U{k}") for k in range(nd)]
    ucell = {nd * c + k: U[k] for c in range(mesh.nc) for k in range(nd)}
    g = {}
    for f, kinds in run.bc.items():
        for k, kind in enumerate(kinds):
            g[nd * f + k] = U[k] if kind == D else sp.Integer(0) if kind == N_ else sp.Symbol(f"GR{k}_{f}") * U[k]
    return U, ucell, g


def _apply(M: dict, x: dict, nrows: int) -> list:
    out = [sp.Integer(0)] * nrows
    for (i, j), v in M.items():
        xv = x.get(j, sp.Integer(0))
        if xv != 0:
            out[i] = out[i] + v * xv
    return out


def _kinds(run: Run, f: int) -> str:
    return "interior" if f not in run.bc else "/".join(run.bc[f])


def check_stress(ctx: Ctx, mod, fn, run: Run) -> None:
    """R2 (and R5 on Robin components)"""
    nd, mesh = run.nd, run.mesh
    U, ucell, g = _state(run)
    tot = [a + b for a, b in zip(_apply(run.mats["stress"], ucell, nd * mesh.nf), _apply(run.mats["bound_stress"], g, nd * mesh.nf))]
    robin: list = []
    for f in range(mesh.nf):
        for k in range(nd):
            kind = run.bc[f][k] if f in run.bc else "interior"
            val = tot[nd * f + k]
            if kind == R:
                gr = sp.Symbol(f"GR{k}_{f}")
                coef = sp.diff(val, gr)          # val is affine in the datum
                gamma = None if is_zero(coef) else sp.factor_terms(-val.xreplace({gr: sp.Integer(0)}) / coef)
                mus = _depends_on_moduli(gamma) if gamma is not None else []
                robin.append((f, k, gamma, mus, _mass_gamma(run, f, k)))
                continue
            ok = is_zero(val)
            ctx.check("R2", ok, mod, Q, run.node("bound_stress" if f in run.bc else "stress", fn),
                      f"[{run.name}] face {f} ({_kinds(run, f)}), component {k}: a uniform displacement with matching boundary data must give zero stress "
                      f"(stress @ u + bound_stress @ g)" + ("" if ok else f"; found {_short(sp.factor_terms(val))}"),
                      construct=f"translation: zero stress [{run.name}] face {f} ({_kinds(run, f)}) component {k}")
    if robin:
        bad = [t for t in robin if t[2] is None or t[3]]
        ex = bad[0] if bad else None
        ctx.check("R5", not bad, mod, Q, run.node("bound_stress", fn),
                  f"[{run.name}] Robin faces {sorted({t[0] for t in robin})}: the translation u0 must be stress free for boundary data g = gamma * u0 with gamma independent of "
                  f"the elastic moduli (sigma.n + alpha u = g with sigma = 0: gamma = alpha, possibly times the face area)"
                  + ("" if not bad else f"; on face {ex[0]}, component {ex[1]} the stored matrices need gamma = {_short(ex[2]) if ex[2] is not None else 'no solution'}"
                     + (f", which depends on {', '.join(ex[3])}" if ex[3] else "") + f" ({len(bad)} of {len(robin)} Robin components); the solid-mass row of the same face "
                       f"is consistent only for gamma = {_short(ex[4])}, a different datum"),
                  construct=f"Robin data consistent with a translation [{run.name}]", facts={"gamma": [str(t[2]) for t in robin][:4]})


def _mass_gamma(run: Run, f: int, k: int):
    """the Robin datum g = gamma * u0 for which the face displacement entering the solid-mass row (normal . face average) is u0:
    mass[f, (c, k)] + gamma * bound_mass[f, (f, k)] = N_k(f)"""
    nd, mesh = run.nd, run.mesh
    (c, _), = mesh.cells_of[f]
    m, b = run.mats["mass"].get((f, nd * c + k), sp.Integer(0)), run.mats["bound_mass"].get((f, nd * f + k), sp.Integer(0))
    if b == 0:
        return None
    return sp.factor_terms(sp.cancel(sp.together((mesh.N[k, f] - m) / b)))


def check_robin_locality(ctx: Ctx, mod, fn, run: Run) -> None:
    """R6: the Robin weight of direction k of a face enters the rows / columns of component k of that face and nothing else (a Robin condition may emulate a
    roller: fixed in one direction, free in another), and the stress coefficients of component k do depend on it"""
    nd, mesh = run.nd, run.mesh
    vec_rows = ("stress", "bound_stress", "trace_cell", "trace_face")
    for f, kinds in sorted(run.bc.items()):
        if R not in kinds:
            continue
        for k in range(nd):
            own = run.rw[(f, k)]
            foreign = {s_ for key_, s_ in run.rw.items() if key_ != (f, k)}
            bad, seen_own = None, False
            for key in KEYS:
                for (i, j), v in run.mats[key].items():
                    if key in vec_rows:
                        hit = i == nd * f + k
                    else:
                        hit = (j % nd == k) and i // (1 if nd == 2 or key in ("mass", "bound_mass") else nd) == f
                    if not hit:
                        continue
                    fs = sp.sympify(v).free_symbols
                    if key in ("stress", "bound_stress") and own in fs:
                        seen_own = True
                    alien = sorted(str(s_) for s_ in fs & foreign)
                    if alien and bad is None:
                        bad = f"{KEYS[key][:-11]}[{i},{j}] depends on {', '.join(alien)}"
            ok = bad is None and seen_own
            ctx.check("R6", ok, mod, Q, run.node("bound_stress", fn),
                      f"[{run.name}] Robin face {f}, direction {k}: the weight robin_weight[{k},{k}] must enter the coefficients of component {k} of this face and no other "
                      f"component or face" + ("" if ok else f"; {bad if bad else 'the stress coefficients of this component do not depend on it'}"),
                      construct=f"Robin weight enters its own component only [{run.name}] face {f} direction {k}")


def _depends_on_moduli(gamma) -> list:
    """names of the shear moduli the term really depends on (two exact evaluations differing in one modulus refute independence;
    independence itself is only accepted from the normal form)"""
    mus = sorted((s_ for s_ in gamma.free_symbols if str(s_).startswith("MU_")), key=str)
    if not mus:
        return []
    others = sorted(gamma.free_symbols - set(mus), key=str)
    base = {s_: sp.Rational(3 + 2 * i, 2 + (i % 3)) for i, s_ in enumerate(others)}
    out = []
    for m_ in mus:
        v1 = gamma.xreplace({**base, **{t: sp.Integer(2) for t in mus}})
        v2 = gamma.xreplace({**base, **{t: (sp.Integer(5) if t == m_ else sp.Integer(2)) for t in mus}})
        if sp.simplify(v1 - v2) != 0:
            out.append(str(m_))
    if out:
        return out
    left = sp.cancel(sp.together(gamma)).free_symbols
    return sorted(str(s_) for s_ in left if str(s_).startswith("MU_"))


def _closure(run: Run) -> dict:
    """substitution imposing sum_f sign(f, c) N_f = 0 for every cell: the normal of one boundary face of the cell is eliminated"""
    mesh = run.mesh
    sub = {}
    used = set()
    for c in range(mesh.nc):
        faces = [(f, s) for f, c2, s in mesh.half if c2 == c]
        own = [(f, s) for f, s in faces if f in mesh.boundary and f not in used and (f not in run.bc or R not in run.bc[f])]
        if not own:
            raise Undecided("C16 model: no boundary face left to close a cell")
        fb, sb = own[-1]
        used.add(fb)
        for i in range(3):
            sub[mesh.N[i, fb]] = -sb * sum(s * mesh.N[i, f] for f, s in faces if f != fb)
    return sub


def check_cell_residuals(ctx: Ctx, mod, fn, run: Run) -> None:
    """R3"""
    nd, mesh = run.nd, run.mesh
    U, ucell, g = _state(run)
    if any(R in kinds for kinds in run.bc.values()):
        return
    sub = _closure(run)
    rdim = 1 if nd == 2 else nd
    for what, km, kb, comps in (("rotation", "rot", "bound_rot", rdim), ("solid mass", "mass", "bound_mass", 1)):
        nrows = comps * mesh.nf
        face = [a + b for a, b in zip(_apply(run.mats[km], ucell, nrows), _apply(run.mats[kb], g, nrows))]
        for c in range(mesh.nc):
            for q in range(comps):
                res = sum((s * face[comps * f + q] for f, c2, s in mesh.half if c2 == c), sp.Integer(0))
                res = sp.sympify(res).xreplace(sub)
                ok = is_zero(res)
                ctx.check("R3", ok, mod, Q, run.node(kb, fn),
                          f"[{run.name}] cell {c}{', component ' + str(q) if comps > 1 else ''}: with closed cells the {what} residual of the translation state, "
                          f"div ({KEYS[km][:-11]} @ u + {KEYS[kb][:-11]} @ g), must vanish (cell-to-face weights sum to one on interior and Neumann faces, Dirichlet "
                          f"components take the datum with weight one)" + ("" if ok else f"; found {_short(sp.factor_terms(res))}"),
                          construct=f"translation: {what} residual [{run.name}] cell {c} component {q}")


def check_trace(ctx: Ctx, mod, fn, run: Run) -> None:
    """R4"""
    nd, mesh = run.nd, run.mesh
    U, ucell, g = _state(run)
    tot = [a + b for a, b in zip(_apply(run.mats["trace_cell"], ucell, nd * mesh.nf), _apply(run.mats["trace_face"], g, nd * mesh.nf))]
    for f, kinds in sorted(run.bc.items()):
        for k, kind in enumerate(kinds):
            if kind == R:
                continue
            ok = is_zero(tot[nd * f + k] - U[k])
            ctx.check("R4", ok, mod, Q, run.node("trace_face", fn),
                      f"[{run.name}] boundary face {f} ({_kinds(run, f)}), component {k}: the reconstructed boundary displacement of the translation state must be u0 "
                      f"(bound_displacement_cell @ u + bound_displacement_face @ g)" + ("" if ok else f"; found {_short(tot[nd * f + k])}"),
                      construct=f"translation: displacement trace [{run.name}] face {f} ({_kinds(run, f)}) component {k}")


def run(ctx: Ctx) -> None:
    repo = ctx.repo
    w0 = tpsa_world(repo)
    mod, fn = w0.mod, w0.method("discretize")
    for name, nd, shape, bc in VARIANTS:
        r = interpret_tpsa(repo, name, nd, shape, bc)
        if not check_wellformed(ctx, mod, fn, r):
            continue
        if name != "3d Robin":
            check_stress(ctx, mod, fn, r)
        if "Robin" not in name:
            check_cell_residuals(ctx, mod, fn, r)
            check_trace(ctx, mod, fn, r)
        else:
            check_robin_locality(ctx, mod, fn, r)
        ctx.sample({"variant": name, "steps": r.w.steps, "stress[0,0]": _short(r.mats["stress"].get((0, 0)))})


META = {
    "explanation": __doc__,
    "rule_text": "one obligation per (variant, stored matrix) | (variant, face, component) | (variant, cell, equation, component)",
    "trusted_base": ["python ast", "sa.core", "the interpreter and the numpy / scipy.sparse semantics table of sa.rules.c12 (object arrays of sympy terms; compressed / "
                     "coordinate / diagonal sparse storage with explicit zeros, dia -> csr dropping zeros, sps.find in C order without explicit zeros)",
                     "sympy expand / cancel as term normaliser; exact rational evaluation as refutation only",
                     "sparse_array_to_row_col_data (C21-R2), expand_indices_nd (C35-R9), csr_matrix_from_dense_blocks (row-wise blocks, C35), "
                     "Grid.signs_and_cells_of_boundary_faces (C21-R2), Grid.divergence = kron(cell_faces^T, I) (C21-R4)",
                     "matrix keys are the literals Tpsa.__init__ assigns"],
    "assumptions": ["cells are closed (sum of outward face normals = 0): imposed on the symbolic normals in R3",
                    "the assembly is local per half-face, so the two incidence patterns with every boundary kind stand for all grids (argument, not verdict)",
                    "each face normal of the Cartesian model pattern is closest to its own coordinate axis (only used for the argmax in _create_filters)",
                    "boundary flags are one-hot per component (C39); basis is the identity; Robin is not mixed with other kinds on a face (the code raises otherwise)"],
    "accepted_forms": ["any rewrite inside the modelled numpy / scipy subset; helpers of Tpsa (static or not), module-level functions and dataclasses of tpsa.py are "
                       "interpreted with arguments bound by position or keyword (depth <= 6); if-arms with tests that are concrete on the model (nd, flags)",
                       "values the model does not know poison only what they flow into; argmax over |face normals| is answered by the model (dominant axis of each face)",
                       "anything else: exit 2 (undecided), never a finding"],
    "technique": "abstract interpretation of the assembly over symbolic model meshes (extracted-formula identities; sympy as term normaliser)",
    "level_note": "Decides the translation clauses for the two model incidence patterns and ALL geometries / shear moduli on them.  Not decided: coefficient values, "
                  "solvability, other incidence patterns, floating point.",
}
MIN_INSTANCES = {"R1": 32, "R2": 70, "R3": 16, "R4": 40, "R5": 1, "R6": 13}


def _m(name, old, new, rule, control=False, count=1, accept_undecided=False):
    return dict(name=name, file=TPSA, old=old, new=new, rule=rule, control=control, count=count, accept_undecided=accept_undecided)


MUTANTS = [
    # ---- stress: pairing of the cell and the boundary coefficient, sign from cell_faces
    _m("dirichlet-bound-coefficient-sign", "trm_bnd[dir_faces] = trm_nd[dir_faces]", "trm_bnd[dir_faces] = -trm_nd[dir_faces]", "R2", control=True),
    _m("neumann-rows-not-zeroed", "        trm_nd[neu_faces] = 0\n", "", "R2"),
    _m("stress-entries-without-sign", "trm_nd.ravel(\"F\")[numbering.fi_expanded] * numbering.sgn_nd", "trm_nd.ravel(\"F\")[numbering.fi_expanded]", "R2"),
    _m("stress-coefficients-component-major", "trm_nd.ravel(\"F\")[numbering.fi_expanded] * numbering.sgn_nd", "trm_nd.ravel(\"C\")[numbering.fi_expanded] * numbering.sgn_nd", "R2"),
    _m("bound-stress-columns-by-cell", "(numbering.fi_expanded, numbering.fi_expanded),", "(numbering.fi_expanded, numbering.ci_expanded),", "R2"),
    _m("signs-tiled-not-repeated", "sgn_nd = np.repeat(sgn, nd)", "sgn_nd = np.tile(sgn, nd)", "R2"),
    _m("cells-expanded-from-face-index", "ci_expanded = pp.array_operations.expand_indices_nd(ci, nd)", "ci_expanded = pp.array_operations.expand_indices_nd(fi, nd)", "*"),
    _m("shear-modulus-gathered-with-face-index", "mu = stiffness.mu[numbering.ci]", "mu = stiffness.mu[numbering.fi]", "R1"),
    # ---- averaging maps: weights sum to one, Dirichlet components take the datum
    _m("averaging-weights-sum-to-half", "((2 * dist.mu_by_dist_fc_cc, (numbering.fi, numbering.ci)))", "((dist.mu_by_dist_fc_cc, (numbering.fi, numbering.ci)))", "R3"),
    _m("averaging-denominator-without-factor", "weights=np.hstack((2 * mu_by_dist_fc_cc_nd, rob_weights_boundary_faces)),", "weights=np.hstack((mu_by_dist_fc_cc_nd, rob_weights_boundary_faces)),", "R3"),
    _m("averaging-denominator-tiled", "mu_by_dist_fc_cc_nd = np.repeat(mu_by_dist_fc_cc, nd)", "mu_by_dist_fc_cc_nd = np.tile(mu_by_dist_fc_cc, nd)", "R3"),
    _m("dirichlet-rows-of-average-not-zeroed", "        c2f.data[to_zero] = 0\n", "", "R3"),
    _m("dirichlet-rows-found-in-csr-indices", "            @ sps.kron(cell_to_face, sps.eye(nd), format=\"csr\")\n        ).tocsc()", "            @ sps.kron(cell_to_face, sps.eye(nd), format=\"csr\")\n        ).tocsr()", "R3"),
    _m("kron-component-major", "            @ sps.kron(cell_to_face, sps.eye(nd), format=\"csr\")\n        ).tocsc()", "            @ sps.kron(sps.eye(nd), cell_to_face, format=\"csr\")\n        ).tocsc()", "R3"),
    _m("filters-component-major", "is_dir = bnd_disp.is_dir.ravel(\"F\")\n        is_neu = bnd_disp.is_neu.ravel(\"F\")", "is_dir = bnd_disp.is_dir.ravel(\"C\")\n        is_neu = bnd_disp.is_neu.ravel(\"C\")", "*"),
    # ---- boundary terms of the rotation and mass equations
    _m("rotation-dirichlet-datum-sign", "            - filters.dir_pass_nd\n            - c2f_maps.b2f_rob\n", "            + filters.dir_pass_nd\n            - c2f_maps.b2f_rob\n", "R3"),
    _m("mass-dirichlet-datum-dropped", "            + filters.dir_pass_nd\n            + c2f_maps.b2f_rob\n", "            + c2f_maps.b2f_rob\n", "R3"),
    _m("mass-normals-component-major", "        normal_vector_nd = sps.csr_matrix(\n            (\n                n[:nd].ravel(\"F\"),", "        normal_vector_nd = sps.csr_matrix(\n            (\n                n[:nd].ravel(\"C\"),", "R3"),
    # ---- displacement trace
    _m("trace-dirichlet-filter-complemented", "        bound_displacement_face = (\n            filters.dir_pass_nd\n", "        bound_displacement_face = (\n            filters.dir_notpass_nd\n", "R4"),
    _m("trace-cell-part-complement-map", "bound_displacement_cell = filters.neu_rob_pass_nd @ c2f_maps.c2f", "bound_displacement_cell = filters.neu_rob_pass_nd @ c2f_maps.c2f_compl", "R4"),
    # ---- independently seeded changes (all pass the repository's tests)
    _m("seed-robin-z-weight-from-y", "rob_weight = np.vstack((rob_weight, bnd_disp.robin_weight[2, 2]))", "rob_weight = np.vstack((rob_weight, bnd_disp.robin_weight[1, 1]))", "R6"),
    _m("seed-average-zeroed-by-facewise-filter", "dir_nd_face = np.where(filters.dir_notpass_nd.diagonal() == 0)[0]",
       "dir_nd_face = pp.array_operations.expand_indices_nd(\n            np.where(filters.dir_notpass.diagonal() == 0)[0], nd\n        )", "R3", control=True),
    _m("seed-neumann-zeroing-facewise", "        trm_nd[neu_faces] = 0\n", "        trm_nd[:, np.any(neu_faces, axis=0)] = 0\n", "R2"),
    _m("robin-weights-swapped-between-directions", "(bnd_disp.robin_weight[0, 0], bnd_disp.robin_weight[1, 1])", "(bnd_disp.robin_weight[1, 1], bnd_disp.robin_weight[0, 0])", "R6"),
    _m("trace-stored-under-swapped-keys", "        matrix_dictionary[self.bound_displacement_cell_matrix_key] = (\n            bound_displacement_cell\n        )",
       "        matrix_dictionary[self.bound_displacement_cell_matrix_key] = (\n            bound_displacement_face\n        )", "R1"),
]
