"""C30 - distance computations: black-box optimality identities on the extracted kernels.

The functions of geometry/distances.py are array formulas with data-dependent masks.  They are abstractly
interpreted with the interpreter of C32 (statements taken from the AST of the CURRENT source, evaluated over
numpy object arrays of sympy terms; square roots are positive radical symbols; identities are decided by
polynomial reduction - sympy only normalises terms).  Masks / argmin / tolerance tests are resolved along one
path per SCENARIO (an exact rational witness used only for the truth value of such predicates; every arm of
the segment-segment kernel must be exercised by the scenario table, otherwise the check is Undecided).
What is checked is stated on the RETURNED values only (no internal name or formula of the source is compared):

R1  point_pointset / pointset   result**k == sum_axis0 |p - q|**k for k = 1, 2, 3 (inner and outer exponent agree, the sum runs
                                over the coordinate axis); pointset: d[i, j]**2 == |p_i - p_j|**2, zero diagonal resp. twice the row maximum.
R2  points_segments             both loop forms (by points / by segments), every (point, segment) pair, each position of the
                                foot point (before the start, beyond the end, inside): the returned closest point is the start /
                                the end / a point of the carrier line with (p - cp) orthogonal to the segment, and the returned
                                distance is |p - cp| for the SAME cp.
R3  segment_segment_set         for every arm of the algorithm: the two returned points lie on their own carrier lines (first output on
                                the main segment, second on the set segment), the distance is |cp1 - cp2|, and the pair satisfies the
                                Karush-Kuhn-Tucker conditions of the convex problem min |A(s) - B(t)|^2 over [0,1]^2: each parameter is
                                identically 0, identically 1 or stationary (identities, proven), with the right sign of the derivative
                                at an active bound and parameters inside [0, 1] (inequalities, checked at the witness).  KKT is
                                sufficient for a convex problem: on the path the returned pair is the closest pair.
R4  points_polygon              points above the polygon: cp is the orthogonal projection onto the polygon plane (cp - p parallel to the
                                plane normal, cp in the plane - this is the rotate / drop z / rotate BACK round trip with the inverse =
                                transpose of the same matrix) and d = |p - cp|; other points: distance and closest point are taken from
                                the SAME boundary segment (argmin lock-step) of a closed boundary (vertex k to k+1 cyclically) given in the
                                same frame as the points.
R5  segments_polygon            crossing segments: d = 0 and cp lies in the polygon plane and on the segment's carrier line; other segments:
                                (distance, closest point) are updated in lock-step from the same candidate (start point, end point, or the
                                same boundary segment of the closed boundary).
                                In-plane segments with one end point inside: the returned point is the end point the in-polygon test accepted.
                                The matrix returned by project_plane_matrix is an exact rational rotation in the quick tier and the symbolic
                                Cayley rotation (R R^T = I identically) in the thorough tier; the points and the polygon are symbolic in both.
R6  segment_set                 the all-pairs wrapper (segment_segment_set summarised by its R3 contract): every pair is computed, d[i, j] is the
                                kernel's distance of the pair, d is symmetric, cp[i, j] is the kernel's point ON i and cp[j, i] its point ON j
                                (outputs neither swapped nor transposed), d[i, i] = 0 and cp[i, i] lies on segment i; two and three segments.
R8  scale covariance            the kernels without a tolerance parameter (segment_segment_set, points_segments): in every data-dependent comparison
                                evaluated on the scenario paths both sides are homogeneous of the same degree in the coordinates (or one side is
                                zero) - otherwise scaling the input flips the decision and d(k x) != k d(x).
R7  no-effect normalisation     an expression statement that calls a value-returning array method (reshape, ravel, ...) and drops the
                                result normalises nothing (sibling functions bind the result).
Not decided: floating-point accuracy, the tolerance constants (SMALL_TOLERANCE, tol), zero-length segments, which of several
equidistant closest points is returned, point_in_polygon itself, whether segments_polygon's closest point lies on the polygon or on the
segment in the boundary arm (the tests pin both conventions), polygons that are not planar.
"""
from __future__ import annotations

import ast
from typing import Optional

import numpy as np
import sympy as sp

from ..core.astutil import u, dotted, walk_local, call_name, body_nodoc
from ..core.loader import AnchorError, Undecided
from ..core.report import Ctx
from .c32 import (Alg, Interp, Scen, Rec, Raised, ShapeError, SpMat, _group, run_groups, _o, _S, _symarr, _mat_terms, _all_zero, _witness_text, MG)

DI = "src/porepy/geometry/distances.py"

META = {
    "explanation": __doc__,
    "rule_text": "one obligation per (function, scenario, pair, identity)",
    "trusted_base": ["python ast", "sa.core", "the interpreter and term normaliser of sa/rules/c32.py (numpy semantics on object arrays of sympy terms, "
                     "radical symbols, polynomial reduction)", "models of np.ma.less_equal / greater_equal (plain comparisons), np.minimum / np.min / argmin "
                     "(selection at the witness), scipy cdist for the metrics euclidean / sqeuclidean / cityblock",
                     "contracts used as stubs when a kernel calls another one: project_plane_matrix returns an orthogonal matrix (symbolic Cayley "
                     "parametrisation, C32), point_in_polygon returns a boolean per point, points_segments / points_polygon / "
                     "segment_segment_set return (distances, closest points) of the documented shapes (R2 / R4 / R3)",
                     "KKT conditions are sufficient for the convex quadratic segment-segment problem"],
    "assumptions": ["identities are proven per scenario path; every masked store of segment_segment_set is exercised by at least one scenario (checked)",
                    "generic position: segments have positive length, no ties between candidates",
                    "quick tier: the rotation standing for project_plane_matrix is one exact rational rotation matrix; thorough tier: symbolic Cayley rotation"],
    "accepted_forms": ["any formulation the interpreter can execute (renamed locals, temporaries, helper functions, early returns, swapped arms, loops vs "
                       "vectorised masks, np.where vs boolean stores, in-place vs rebinding); an idiom outside the numpy subset is Undecided (exit 2)"],
    "technique": "abstract interpretation of the extracted kernels over symbolic points (radical tower + polynomial reduction as term normaliser), "
                 "path selection by scenario witnesses with arm coverage; black-box optimality (KKT) identities on the returned values; callee contracts",
    "level_note": "Decides, on the listed paths, that the returned closest points lie on their objects, that the distance is the distance between the "
                  "returned points and that the first-order optimality identities hold; nothing about floating point or tolerances.",
}
MIN_INSTANCES = {"R1": 12, "R2": 30, "R3": 100, "R4": 20, "R5": 20, "R6": 8, "R7": 7, "R8": 2}


# ------------------------------------------------------------------------------------------------------
# helpers
# ------------------------------------------------------------------------------------------------------

def _run(rec: Rec, qual: str, label: str, thunk, shape_is_finding: Optional[str] = None, rule: str = ""):
    try:
        return True, thunk()
    except Raised as ex:
        rec.undecided.append(Undecided(f"C30 {qual} [{label}]: the code raises on the scenario input ({ex})"))
    except ShapeError as ex:
        if shape_is_finding:
            rec.check(rule, False, DI, qual, f"{shape_is_finding}: numpy rejects `{ex}` for arrays of the documented shapes - the function raises for every input of "
                      f"this shape [{label}]", f"{qual}: executes on input of the documented shapes [{label}]")
        else:
            rec.undecided.append(Undecided(f"C30 {qual} [{label}]: numpy rejects the shapes: {ex}"))
    except Undecided as ex:
        rec.undecided.append(Undecided(f"C30 {qual} [{label}]: {ex}"))
    return False, None


def _ident(rec: Rec, rule: str, sc: Scen, qual: str, label: str, clause: str, terms, facts=None) -> bool:
    if terms is None:
        return rec.check(rule, False, DI, qual, f"{clause}: the result has the wrong shape [{label}]", f"{qual}: {clause} [{label}]", facts)
    try:
        ok, why = _all_zero(sc.alg, terms, clause)
    except Undecided as ex:
        rec.undecided.append(Undecided(f"{qual} [{label}]: {ex}"))
        return True
    return rec.check(rule, ok, DI, qual, f"{clause} [{label}]" + ("" if ok else f" FAILS - {why}; witness: {_witness_text(sc.alg, [s for s in sorted(sc.alg.numv, key=str) if not str(s).startswith(('lz', 'rad'))][:24])}"),
                     f"{qual}: {clause} [{label}]", facts)


def _num_ok(rec: Rec, rule: str, sc: Scen, qual: str, label: str, clause: str, value, pred, facts=None) -> bool:
    """an inequality, checked at the witness only (a violated one is a concrete failing input)"""
    v = sc.alg.fnum(value)
    ok = bool(pred(v))
    return rec.check(rule, ok, DI, qual, f"{clause} [{label}]" + ("" if ok else f" FAILS at the witness: value {v:.6g}; witness: {_witness_text(sc.alg, [s for s in sorted(sc.alg.numv, key=str) if not str(s).startswith(('lz', 'rad'))][:24])}"),
                     f"{qual}: {clause} [{label}]", facts)


def _wset(arr: np.ndarray, vals) -> dict:
    out = {}
    vals = np.asarray(vals, dtype=object)
    for ix in np.ndindex(*arr.shape):
        out[arr[ix]] = sp.Rational(vals[ix])
    return out


def _cross(a, b):
    a, b = list(a), list(b)
    if len(a) == 2:
        return [a[0] * b[1] - a[1] * b[0]]
    return [a[1] * b[2] - a[2] * b[1], a[2] * b[0] - a[0] * b[2], a[0] * b[1] - a[1] * b[0]]


def _dotp(a, b):
    return sum(sp.sympify(x) * sp.sympify(y) for x, y in zip(a, b))


Q = sp.Rational


def _degree(alg: Alg, term, coords: list):
    """degree of homogeneity of a term in the coordinate symbols, measured at the witness (x -> 2x, 3x); None for a (numerically) vanishing or
    coordinate-free term, 'mixed' if the term is not homogeneous"""
    if isinstance(term, (bool, np.bool_)):
        return None
    t = sp.sympify(term)
    if not t.free_symbols:
        return None if t == 0 else 0
    import math
    v1 = alg.num_at(t, {})
    if not (v1.is_number and v1.is_finite) or abs(v1) < sp.Float(10) ** -30:
        return None
    degs = []
    for lamb in (2, 3):
        v2 = alg.num_at(t, {c: lamb * alg.numv[c] for c in coords if c in alg.numv})
        if not (v2.is_number and v2.is_finite) or v2 == 0:
            return "mixed"
        degs.append(math.log(abs(float(v2 / v1))) / math.log(lamb))
    k = round(degs[0])
    return k if all(abs(x - k) < 1e-9 for x in degs) else "mixed"


def _scale_mismatches(sc: Scen, coords: list) -> list:
    """comparisons evaluated on the path whose two sides depend on the coordinates with different degrees of homogeneity: scaling the input flips them"""
    out = []
    for text, l, r in sc.it.cmp_log:
        la, ra = np.broadcast_arrays(np.asarray(l, dtype=object), np.asarray(r, dtype=object))
        for a, b in zip(la.ravel(), ra.ravel()):
            da, db = _degree(sc.alg, a, coords), _degree(sc.alg, b, coords)
            if da is None or db is None:
                continue            # a zero side: any degree
            if da != db:
                out.append((text, da, db))
                break
    return out


def _closed_boundary(sc: Scen, sa: np.ndarray, ea: np.ndarray, poly: np.ndarray, shift) -> Optional[str]:
    """None if the columns of (sa, ea) are exactly the edges {v_k, v_k+1 (cyclic)} of the polygon, each once, in any order and orientation
    (all shifted by `shift`); otherwise a text saying what is wrong"""
    n = poly.shape[1]
    if sa.shape != ea.shape or sa.shape[0] != poly.shape[0]:
        return f"start / end arrays of shapes {sa.shape} / {ea.shape}"
    if sa.shape[1] != n:
        return f"{sa.shape[1]} boundary segments for {n} vertices"

    def vertex(col):
        hits = []
        for k in range(n):
            if all(sc.alg.is_zero(sp.sympify(col[r]) - poly[r, k] - shift[r], "boundary vertex") for r in range(poly.shape[0])):
                hits.append(k)
        return hits[0] if len(hits) == 1 else None
    edges = []
    for j in range(n):
        a, b = vertex(sa[:, j]), vertex(ea[:, j])
        if a is None or b is None:
            return f"boundary segment {j} does not join two polygon vertices (in the frame of the query points)"
        if (a - b) % n not in (1, n - 1):
            return f"boundary segment {j} joins the vertices {a} and {b}, which are not consecutive"
        edges.append(frozenset((a, b)))
    if len(set(edges)) != n and n > 2:
        return "some polygon edge is missing from the boundary (another one is repeated)"
    return None

# ------------------------------------------------------------------------------------------------------
# R1  point_pointset / pointset
# ------------------------------------------------------------------------------------------------------


def _cdist_stub(it: Interp, args, kw, node):
    names = ["XA", "XB", "metric"]
    b = dict(zip(names, args))
    b.update(kw)
    XA, XB, metric = _o(b["XA"]), _o(b["XB"]), b.get("metric", "euclidean")
    if XA.ndim != 2 or XB.ndim != 2 or XA.shape[1] != XB.shape[1]:
        raise ShapeError(node, "cdist: the two point sets have different dimension")
    out = np.empty((XA.shape[0], XB.shape[0]), dtype=object)
    for i in range(XA.shape[0]):
        for j in range(XB.shape[0]):
            diff = XA[i] - XB[j]
            if metric == "euclidean":
                out[i, j] = it.alg.sqrt(sum(sp.sympify(t) ** 2 for t in diff))
            elif metric == "sqeuclidean":
                out[i, j] = sum(sp.sympify(t) ** 2 for t in diff)
            elif metric in ("cityblock", "chebyshev"):
                out[i, j] = sum(sp.Abs(sp.sympify(t)) for t in diff) if metric == "cityblock" else sp.Max(*[sp.Abs(sp.sympify(t)) for t in diff])
            else:
                raise Undecided(f"C30: cdist metric {metric!r} has no model")
    return out


def _r1(repo, rec: Rec) -> None:
    q = "point_pointset"
    p = _symarr("p", (3,))
    P = _symarr("q", (3, 2))
    wit = {**_wset(p, [Q(1, 2), Q(-2, 3), Q(5, 7)]), **_wset(P, [[Q(3, 2), Q(-1, 5)], [Q(2), Q(1, 3)], [Q(-4, 3), Q(2, 7)]])}
    for k in (2, 1, 3):
        for shape_lab, parg in (("point given as a 1-d array", p), ("point given as a column", p.reshape(3, 1))) if k == 2 else (("point given as a 1-d array", p),):
            sc = Scen(repo, wit, tag="C30")
            lab = f"exponent {k}, {shape_lab}, two points in the set"
            ok, res = _run(rec, q, lab, lambda: sc.call(DI, q, [parg.copy(), P.copy()], {} if k == 2 else {"exponent": k}))
            if not ok:
                continue
            if not (isinstance(res, np.ndarray) and res.shape == (2,)):
                rec.check("R1", False, DI, q, f"the result has shape {getattr(res, 'shape', None)}, expected one distance per point of the set [{lab}]", f"{q}: one distance per point [{lab}]")
                continue
            terms = []
            for j in range(2):
                want = sum((sp.Abs(p[i] - P[i, j]) ** k) for i in range(3))
                lhs = sc.alg.square(res[j]) if k == 2 else sp.sympify(res[j]) ** k
                terms.append(sp.expand(lhs - want) if k != 2 else lhs - want)
            _ident(rec, "R1", sc, q, lab, f"result**{k} = sum over the coordinate axis of |p - q|**{k}", terms)
            _num_ok(rec, "R1", sc, q, lab, "the distance is non-negative", res[0], lambda v: v >= 0)
    # a single point as the set, and the empty set
    sc = Scen(repo, wit, tag="C30")
    ok, res = _run(rec, q, "single point in the set", lambda: sc.call(DI, q, [p.copy(), P[:, 0].copy()]))
    if ok:
        good = isinstance(res, np.ndarray) and res.size == 1
        if good:
            _ident(rec, "R1", sc, q, "the set is a single point given as a 1-d array", "result**2 = |p - q|**2",
                   [sc.alg.square(res.ravel()[0]) - sum((p[i] - P[i, 0]) ** 2 for i in range(3))])
        else:
            rec.check("R1", False, DI, q, "a single point given as a 1-d array must give one distance", f"{q}: single point")
    sc = Scen(repo, wit, tag="C30")
    ok, res = _run(rec, q, "empty set", lambda: sc.call(DI, q, [p.copy(), np.empty((3, 0), dtype=object)]))
    if ok:
        rec.check("R1", isinstance(res, np.ndarray) and res.size == 0, DI, q, "the empty set gives an empty result", f"{q}: empty set")

    q = "pointset"
    X = _symarr("x", (3, 3))
    wit = _wset(X, [[Q(1, 2), Q(3), Q(-2, 3)], [Q(-2, 3), Q(1, 5), Q(2)], [Q(5, 7), Q(-1), Q(1, 4)]])
    for lab, kw in (("default", {}), ("max_diag=True", {"max_diag": True})):
        sc = Scen(repo, wit, {"cdist": _cdist_stub}, tag="C30")
        ok, D = _run(rec, q, lab, lambda: sc.call(DI, q, [X.copy()], kw))
        if not ok:
            continue
        if not (isinstance(D, np.ndarray) and D.shape == (3, 3)):
            rec.check("R1", False, DI, q, f"the result is not a 3 x 3 matrix for three points [{lab}]", f"{q}: shape [{lab}]")
            continue
        terms = [sc.alg.square(D[i, j]) - sum((X[r, i] - X[r, j]) ** 2 for r in range(3)) for i in range(3) for j in range(3) if i != j]
        _ident(rec, "R1", sc, q, lab, "d[i, j]**2 = |p_i - p_j|**2 (points are the columns)", terms)
        if not kw:
            _ident(rec, "R1", sc, q, lab, "zero diagonal", [D[i, i] for i in range(3)])
        else:
            terms = []
            for i in range(3):
                row = [D[i, j] for j in range(3) if j != i]
                big = max(row, key=lambda t: sc.alg.fnum(t))
                terms.append(sp.sympify(D[i, i]) - 2 * big)
            _ident(rec, "R1", sc, q, lab, "the diagonal is twice the row maximum", terms)


# ------------------------------------------------------------------------------------------------------
# R2  points_segments
# ------------------------------------------------------------------------------------------------------

def _r2(repo, rec: Rec, thorough: bool) -> None:
    q = "points_segments"
    configs = []
    # (label, nd, points, segments) - witness coordinates; the position of the foot point is computed from them
    configs.append(("one point, three segments (loop over points), 3-d", 3, [(3, 2, Q(1, 2))],
                    [((4, 2, 1), (9, 3, 2)), ((-3, -1, 0), (1, 1, 1)), ((0, 0, 0), (10, 1, 1))]))
    configs.append(("three points, one segment (loop over segments), 3-d", 3, [(-2, 1, Q(1, 3)), (14, -1, 2), (4, 3, Q(-1, 2))],
                    [((0, 0, 0), (10, 1, 1))]))
    configs.append(("two points, two segments (loop over segments), 2-d", 2, [(-2, 1), (4, 3)], [((0, 0), (10, 1)), ((5, 5), (5, 9))]))
    if thorough:
        configs.append(("one point, three segments (loop over points), 2-d", 2, [(3, 2)], [((4, 2), (9, 3)), ((-3, -1), (1, 1)), ((0, 0), (10, 1))]))
        configs.append(("three points, three segments, 3-d", 3, [(-2, 1, Q(1, 3)), (14, -1, 2), (4, 3, Q(-1, 2))],
                        [((0, 0, 0), (10, 1, 1)), ((1, 1, 1), (2, 5, 3)), ((4, 4, -1), (4, 2, -1))]))
    seen_states = set()
    scale_bad: dict = {}
    for lab, nd, pts, segs in configs:
        npt, ns = len(pts), len(segs)
        P, S, E = _symarr("p", (nd, npt)), _symarr("s", (nd, ns)), _symarr("e", (nd, ns))
        wit = {}
        wit.update(_wset(P, np.array(pts, dtype=object).T))
        wit.update(_wset(S, np.array([a for a, b in segs], dtype=object).T))
        wit.update(_wset(E, np.array([b for a, b in segs], dtype=object).T))
        sc = Scen(repo, wit, tag="C30")
        ok, out = _run(rec, q, lab, lambda: sc.call(DI, q, [P.copy(), S.copy(), E.copy()]))
        if not ok:
            continue
        if not (isinstance(out, tuple) and len(out) == 2):
            raise Undecided(f"C30 {q}: the result is not (distances, closest points)")
        D, CP = out
        if not (isinstance(D, np.ndarray) and D.shape == (npt, ns) and isinstance(CP, np.ndarray) and CP.shape == (npt, ns, nd)):
            rec.check("R2", False, DI, q, f"result shapes {getattr(D, 'shape', None)}, {getattr(CP, 'shape', None)}; documented (num_points, num_segments) and "
                      f"(num_points, num_segments, nd) [{lab}]", f"{q}: shapes [{lab}]")
            continue
        for i in range(npt):
            for j in range(ns):
                p = [P[r, i] for r in range(nd)]
                a = [S[r, j] for r in range(nd)]
                b = [E[r, j] for r in range(nd)]
                line = [y - x for x, y in zip(a, b)]
                tnum = sc.alg.fnum(_dotp([x - y for x, y in zip(p, a)], line) / _dotp(line, line))
                state = "before the start" if tnum < 0 else ("beyond the end" if tnum > 1 else "inside")
                seen_states.add(state)
                cp = [CP[i, j, r] for r in range(nd)]
                pl = f"{lab}; point {i}, segment {j}: foot point {state}"
                if state == "before the start":
                    _ident(rec, "R2", sc, q, pl, "the closest point is the start point of the segment", [x - y for x, y in zip(cp, a)])
                elif state == "beyond the end":
                    _ident(rec, "R2", sc, q, pl, "the closest point is the end point of the segment", [x - y for x, y in zip(cp, b)])
                else:
                    _ident(rec, "R2", sc, q, pl, "the closest point lies on the carrier line of the segment", _cross([x - y for x, y in zip(cp, a)], line))
                    _ident(rec, "R2", sc, q, pl, "p - cp is orthogonal to the segment (foot of the perpendicular)", [_dotp([x - y for x, y in zip(p, cp)], line)])
                _ident(rec, "R2", sc, q, pl, "the distance is |p - cp| for the returned cp", [sc.alg.square(D[i, j]) - sum((x - y) ** 2 for x, y in zip(p, cp))])
                _num_ok(rec, "R2", sc, q, pl, "the distance is non-negative", D[i, j], lambda v: v >= 0)
        for mm in _scale_mismatches(sc, [x for arr in (P, S, E) for x in arr.ravel()]):
            scale_bad.setdefault(mm, lab)
        rec.samples.append({"rule": "R2", "scenario": lab, "decisions": sc.it.decisions[:6]})
    desc = "; ".join(f"`{t}` compares degree {a} with degree {b} [{lab_}]" for (t, a, b), lab_ in list(scale_bad.items())[:4])
    rec.check("R8", not scale_bad, DI, q, "every data-dependent decision is scale covariant (the projection parameter is compared with 0 and 1)" + ("" if not scale_bad else f" FAILS - {desc}"),
              f"{q}: decisions are scale covariant")
    if seen_states != {"before the start", "beyond the end", "inside"}:
        rec.undecided.append(Undecided(f"C30 {q}: the scenario table does not cover all foot-point positions ({sorted(seen_states)})"))


# ------------------------------------------------------------------------------------------------------
# R3  segment_segment_set
# ------------------------------------------------------------------------------------------------------

# (label, A0, A1, B0, B1): one main segment A and one set segment B per scenario; 2-d unless stated
SS_SCENARIOS = [
    ("crossing, both parameters interior", (1, -2), (3, 4), (0, 0), (10, 1)),
    ("s clamped at 0, t interior", (3, 2), (4, 5), (0, 0), (10, Q(1, 2))),
    ("s clamped at 1, t interior", (4, 5), (3, 2), (0, 0), (10, Q(1, 2))),
    ("t clamped at 0, s recomputed interior", (-3, -2), (-1, 4), (0, 0), (10, Q(1, 2))),
    ("t clamped at 0, s recomputed to 0", (-1, 1), (-3, 7), (0, 0), (10, Q(1, 2))),
    ("t clamped at 0, s recomputed to 1", (-3, 7), (-1, 1), (0, 0), (10, Q(1, 2))),
    ("t clamped at 1, s recomputed interior", (-3, -2), (-1, 4), (10, Q(1, 2)), (0, 0)),
    ("t clamped at 1, s recomputed to 0", (-1, 1), (-3, 7), (10, Q(1, 2)), (0, 0)),
    ("t clamped at 1, s recomputed to 1", (-3, 7), (-1, 1), (10, Q(1, 2)), (0, 0)),
    ("t clamped at 1 with equally oriented segments, s recomputed interior", (-3, -2), (-1, 4), (-13, 0), (-3, 0)),
    ("t clamped at 0 with oppositely oriented segments, s recomputed interior", (-3, -2), (-1, 4), (-3, 0), (-13, 0)),
    ("parallel, t interior", (1, 1), (4, 1), (0, 0), (10, 0)),
    ("parallel, t clamped at 0", (-5, 1), (-2, 1), (0, 0), (10, 0)),
    ("parallel, t clamped at 1", (12, 1), (15, 1), (0, 0), (10, 0)),
    ("skew lines in 3-d, both interior", (1, -2, 1), (3, 4, 2), (0, 0, 0), (10, 1, Q(-1, 2))),
    ("3-d, s clamped at 1 and t clamped at 0", (-4, 3, 2), (-1, 1, 1), (0, 0, 0), (10, 1, Q(-1, 2))),
]


def _ss_call(sc: Scen, A0, A1, B0, B1):
    return sc.call(DI, "segment_segment_set", [A0.copy(), A1.copy(), B0.copy(), B1.copy()])


def _r3(repo, rec: Rec, thorough: bool) -> None:
    q = "segment_segment_set"
    exercised: dict = {}
    scale_bad: dict = {}
    table = list(SS_SCENARIOS)
    if thorough:
        # a fixed pseudo-random batch of 2-d configurations (linear congruential sequence; deterministic): more decision boundaries of the arms
        x = 12345
        for k in range(24):
            vals = []
            for _ in range(8):
                x = (1103515245 * x + 12345) % (2 ** 31)
                vals.append(Q((x >> 8) % 41 - 20, 1 + (x >> 4) % 3))
            if (vals[0], vals[1]) == (vals[2], vals[3]) or (vals[4], vals[5]) == (vals[6], vals[7]):
                continue
            cr = (vals[2] - vals[0]) * (vals[7] - vals[5]) - (vals[3] - vals[1]) * (vals[6] - vals[4])
            if cr == 0:
                continue
            table.append((f"pseudo-random configuration {k}", (vals[0], vals[1]), (vals[2], vals[3]), (vals[4], vals[5]), (vals[6], vals[7])))
    for lab, a0, a1, b0, b1 in table:
        nd = len(a0)
        A0, A1 = _symarr("a", (nd,)), _symarr("b", (nd,))
        B0, B1 = _symarr("c", (nd, 1)), _symarr("d", (nd, 1))
        parallel = lab.startswith("parallel")
        wit = {**_wset(A0, list(a0)), **_wset(A1, list(a1)), **_wset(B0, [[x] for x in b0]), **_wset(B1, [[x] for x in b1])}
        if parallel:
            # B is parallel to A by construction: B1 = B0 + lam * (A1 - A0) with a symbolic factor
            lam = _S("lam")
            B1 = np.array([[B0[r, 0] + lam * (A1[r] - A0[r])] for r in range(nd)], dtype=object)
            wit = {**_wset(A0, list(a0)), **_wset(A1, list(a1)), **_wset(B0, [[x] for x in b0])}
            wit[lam] = Q(b1[0] - b0[0]) / Q(a1[0] - a0[0])
        sc = Scen(repo, wit, tag="C30")
        ok, out = _run(rec, q, lab, lambda: _ss_call(sc, A0, A1, B0, B1))
        for k, v in sc.it.masked_stores.items():
            exercised[k] = exercised.get(k, False) or v
        if not ok:
            continue
        if not (isinstance(out, tuple) and len(out) == 3):
            raise Undecided(f"C30 {q}: the result is not (distances, closest points on the main segment, closest points on the set)")
        dist, cp1, cp2 = out
        if not all(isinstance(x, np.ndarray) for x in out) or dist.shape != (1,) or cp1.shape != (nd, 1) or cp2.shape != (nd, 1):
            rec.check("R3", False, DI, q, f"result shapes {[getattr(x, 'shape', None) for x in out]}; documented (n,), (nd, n), (nd, n) [{lab}]", f"{q}: shapes [{lab}]")
            continue
        alg = sc.alg
        uvec = [A1[r] - A0[r] for r in range(nd)]
        vvec = [B1[r, 0] - B0[r, 0] for r in range(nd)]
        c1 = [cp1[r, 0] for r in range(nd)]
        c2 = [cp2[r, 0] for r in range(nd)]
        w1 = [x - A0[r] for r, x in enumerate(c1)]
        w2 = [x - B0[r, 0] for r, x in enumerate(c2)]
        diff = [x - y for x, y in zip(c1, c2)]
        _ident(rec, "R3", sc, q, lab, "the first returned point lies on the carrier line of the MAIN segment", _cross(w1, uvec))
        _ident(rec, "R3", sc, q, lab, "the second returned point lies on the carrier line of the SET segment", _cross(w2, vvec))
        _ident(rec, "R3", sc, q, lab, "the distance is |cp1 - cp2| for the returned points", [alg.square(dist[0]) - sum(x * x for x in diff)])
        s_par = _dotp(w1, uvec) / _dotp(uvec, uvec)
        t_par = _dotp(w2, vvec) / _dotp(vvec, vvec)
        g1, g2 = _dotp(diff, uvec), _dotp(diff, vvec)
        for nm, par, grad, sign in (("s (main segment)", s_par, g1, 1), ("t (set segment)", t_par, g2, -1)):
            pv = alg.fnum(par)
            if abs(pv) < 1e-25:
                _ident(rec, "R3", sc, q, lab, f"parameter {nm} is identically 0 (clamped at the start)", [par])
                _num_ok(rec, "R3", sc, q, lab, f"at the bound {nm} = 0 the squared distance does not decrease into the segment", sign * grad, lambda v: v >= -1e-25)
            elif abs(pv - 1) < 1e-25:
                _ident(rec, "R3", sc, q, lab, f"parameter {nm} is identically 1 (clamped at the end)", [par - 1])
                _num_ok(rec, "R3", sc, q, lab, f"at the bound {nm} = 1 the squared distance does not decrease into the segment", sign * grad, lambda v: v <= 1e-25)
            else:
                _num_ok(rec, "R3", sc, q, lab, f"parameter {nm} lies inside [0, 1] (the point is on the segment)", par, lambda v: 0 < v < 1)
                _ident(rec, "R3", sc, q, lab, f"parameter {nm} is stationary: (cp1 - cp2) is orthogonal to that segment", [grad])
        coords = [x for arr in (A0, A1, B0) for x in arr.ravel()] + ([] if parallel else [x for x in B1.ravel()])
        for mm in _scale_mismatches(sc, coords):
            scale_bad.setdefault(mm, lab)
        rec.samples.append({"rule": "R3", "scenario": lab, "s": str(sp.N(alg.num(s_par), 6)), "t": str(sp.N(alg.num(t_par), 6)),
                            "decisions": [d_ for d_ in sc.it.decisions if "True" in d_[1]][:8]})
    missed = sorted(k[2] for k, v in exercised.items() if not v)
    if missed and not any(not it[1] for it in rec.items):
        raise Undecided(f"C30 {q}: masked stores never exercised by the scenario table (arms not examined): {missed}")
    rec.check("R3", True, DI, q, f"every masked store of the kernel ({len(exercised)}) is exercised by at least one scenario", f"{q}: arm coverage of the scenario table",
              facts={"stores": len(exercised)})
    desc = "; ".join(f"`{t}` compares degree {a} with degree {b} [{lab_}]" for (t, a, b), lab_ in list(scale_bad.items())[:4])
    rec.check("R8", not scale_bad, DI, q, "every data-dependent decision of the kernel is scale covariant (both sides of a comparison are homogeneous of the same degree in the "
              "coordinates, or one side is zero)" + ("" if not scale_bad else f" FAILS - {desc}: scaling the input by a factor flips the decision, so d(k x) != k d(x) for some k"),
              f"{q}: decisions are scale covariant", facts={"mismatches": [list(map(str, k)) for k in scale_bad][:8]})
    # several set segments at once (vectorised form): two set segments in different arms
    A0, A1 = _symarr("a", (2,)), _symarr("b", (2,))
    B0, B1 = _symarr("c", (2, 2)), _symarr("d", (2, 2))
    wit = {**_wset(A0, [1, -2]), **_wset(A1, [3, 4]), **_wset(B0, [[0, 5], [0, 5]]), **_wset(B1, [[10, 9], [1, 6]])}
    sc = Scen(repo, wit, tag="C30")
    lab = "two set segments (crossing / apart) in one call"
    ok, out = _run(rec, q, lab, lambda: _ss_call(sc, A0, A1, B0, B1))
    if ok:
        dist, cp1, cp2 = out
        if not (dist.shape == (2,) and cp1.shape == (2, 2) and cp2.shape == (2, 2)):
            rec.check("R3", False, DI, q, f"result shapes for two set segments: {dist.shape}, {cp1.shape}, {cp2.shape}", f"{q}: shapes [{lab}]")
        else:
            for k in range(2):
                diff = [cp1[r, k] - cp2[r, k] for r in range(2)]
                _ident(rec, "R3", sc, q, f"{lab}, set segment {k}", "column k of the outputs belongs to set segment k (carrier lines, distance)",
                       _cross([cp1[r, k] - A0[r] for r in range(2)], [A1[r] - A0[r] for r in range(2)])
                       + _cross([cp2[r, k] - B0[r, k] for r in range(2)], [B1[r, k] - B0[r, k] for r in range(2)])
                       + [sc.alg.square(dist[k]) - sum(x * x for x in diff)])


# ------------------------------------------------------------------------------------------------------
# R4 / R5  points_polygon, segments_polygon
# ------------------------------------------------------------------------------------------------------

_CAYLEY = {}


def _cayley():
    """a symbolic proper rotation: R = (I + K)^-1 (I - K), K skew in (ca, cb, cc); rational entries, R R^T = I identically"""
    if "R" not in _CAYLEY:
        a, b, c = _S("ca"), _S("cb"), _S("cc")
        K = sp.Matrix([[0, -c, b], [c, 0, -a], [-b, a, 0]])
        R = ((sp.eye(3) + K).inv() * (sp.eye(3) - K)).applyfunc(sp.cancel)
        _CAYLEY["R"] = np.array(R.tolist(), dtype=object).reshape(3, 3)
        _CAYLEY["syms"] = (a, b, c)
    return _CAYLEY["R"].copy(), _CAYLEY["syms"]


_WROT = {"ca": Q(1, 3), "cb": Q(-1, 2), "cc": Q(2, 5)}


def _rotation(symbolic: bool):
    """(R, symbols): the orthogonal matrix standing for the result of project_plane_matrix - the symbolic Cayley form (thorough tier) or its exact
    rational value at the witness (quick tier: an exact rational rotation matrix, R R^T = I holds exactly; the identities stay symbolic in the points)"""
    R, syms = _cayley()
    if symbolic:
        return R, syms
    sub = {s_: _WROT[str(s_)] for s_ in syms}
    Rw = np.empty((3, 3), dtype=object)
    for ix in np.ndindex(3, 3):
        Rw[ix] = sp.sympify(R[ix]).xreplace(sub)
    return Rw, syms


def _rot_stub(log: list, R: np.ndarray):
    def stub(it, args, kw, node):
        log.append(args[0] if args else kw.get("pts"))
        return R.copy()
    return stub


def _r4(repo, rec: Rec, symbolic_rotation: bool) -> None:
    q = "points_polygon"
    R, (ca, cb, cc) = _rotation(symbolic_rotation)
    nrm = [R[2, k] for k in range(3)]          # R^T e_z: the plane normal in the original frame
    poly = _symarr("v", (3, 4))
    P = _symarr("p", (3, 3))
    wbase = {ca: Q(1, 3), cb: Q(-1, 2), cc: Q(2, 5)}
    wbase.update(_wset(poly, [[1, 5, 6, 2], [-1, 3, 7, 4], [8, 9, 11, 10]]))      # a generic first vertex, pairwise different coordinates
    wbase.update(_wset(P, [[2, 9, 3], [2, -3, 1], [7, 1, -4]]))
    for lab, inside in (("first and third point above the polygon, second outside", [True, False, True]), ("all points above the polygon", [True, True, True])):
        calls: list = []
        rotlog: list = []
        wit = dict(wbase)
        nout = inside.count(False)
        DS, CPS = _symarr("D", (max(nout, 1), 4)), _symarr("C", (max(nout, 1), 4, 3))
        wit.update(_wset(DS, [[5, 2, 7, 3]] * max(nout, 1)))
        wit.update({CPS[ix]: Q(1 + ix[1] + 2 * ix[2], 3) for ix in np.ndindex(*CPS.shape)})

        def ps_stub(it, args, kw, node, calls=calls, DS=DS, CPS=CPS):
            calls.append(args)
            n_p, n_s = np.shape(args[0])[1], np.shape(args[1])[1]
            if (n_p, n_s) != DS.shape:
                raise Undecided("C30 points_polygon: points_segments is called with an unexpected number of points / segments")
            return DS.copy(), CPS.copy()

        def pip_stub(it, args, kw, node, inside=inside):
            return np.array(inside, dtype=bool)
        sc = Scen(repo, wit, {"project_plane_matrix": _rot_stub(rotlog, R), "point_in_polygon": pip_stub, "points_segments": ps_stub}, tag="C30")
        ok, out = _run(rec, q, lab, lambda: sc.call(DI, q, [P.copy(), poly.copy()]))
        if not ok:
            continue
        if not (isinstance(out, tuple) and len(out) == 3):
            raise Undecided(f"C30 {q}: the result is not (distances, closest points, in-polygon flags)")
        d, cp, flags = out
        if not (isinstance(d, np.ndarray) and d.shape == (3,) and isinstance(cp, np.ndarray) and cp.shape == (3, 3)):
            rec.check("R4", False, DI, q, f"result shapes {getattr(d, 'shape', None)}, {getattr(cp, 'shape', None)}; documented (num_points,), (nd, num_points) [{lab}]", f"{q}: shapes [{lab}]")
            continue
        centre = [sum(poly[r, k] for k in range(4)) / 4 for r in range(3)]
        if len(rotlog) != 1:
            raise Undecided(f"C30 {q}: project_plane_matrix is called {len(rotlog)} times")
        for i, ins in enumerate(inside):
            p = [P[r, i] for r in range(3)]
            c = [cp[r, i] for r in range(3)]
            if ins:
                pl = f"{lab}; point {i} (above the polygon)"
                _ident(rec, "R4", sc, q, pl, "cp - p is parallel to the plane normal (rotation applied and undone with the transpose of the SAME matrix)", _cross([x - y for x, y in zip(c, p)], nrm))
                _ident(rec, "R4", sc, q, pl, "cp lies in the polygon plane (through the centre of the vertices)", [_dotp([x - y for x, y in zip(c, centre)], nrm)])
                _ident(rec, "R4", sc, q, pl, "the distance is |p - cp|", [sc.alg.square(d[i]) - sum((x - y) ** 2 for x, y in zip(p, c))])
                _num_ok(rec, "R4", sc, q, pl, "the distance is non-negative", d[i], lambda v: v >= 0)
        if nout:
            if len(calls) != 1:
                raise Undecided(f"C30 {q}: points_segments is called {len(calls)} times for the outside points")
            pa, sa, ea = (_o(np.asarray(x)) for x in calls[0][:3])
            outside_idx = [i for i, ins in enumerate(inside) if not ins]
            shift = [pa[r, 0] - P[r, outside_idx[0]] for r in range(3)]
            terms = [pa[r, k] - P[r, i] - shift[r] for k, i in enumerate(outside_idx) for r in range(3)]
            pl = f"{lab}; boundary search"
            terms = [pa[r, k] - P[r, i] - shift[r] for k, i in enumerate(outside_idx) for r in range(3)]
            _ident(rec, "R4", sc, q, pl, "all outside points are passed in one frame (a common translation of the input)", terms)
            try:
                bad = _closed_boundary(sc, sa, ea, poly, shift)
            except Undecided as ex:
                rec.undecided.append(ex)
                bad = None
            rec.check("R4", bad is None, DI, q, "the boundary handed to points_segments is the closed polygon boundary (every edge v_k v_k+1 once, cyclically), in the frame of the "
                      f"points [{lab}]" + ("" if bad is None else f" FAILS - {bad}"), f"{q}: closed boundary in the frame of the points [{lab}]")
            for k, i in enumerate(outside_idx):
                m = int(np.argmin([sc.alg.fnum(DS[k, j]) for j in range(4)]))
                _ident(rec, "R4", sc, q, f"{lab}; point {i} (outside)", "distance and closest point come from the SAME (nearest) boundary segment",
                       [sp.sympify(d[i]) - DS[k, m]] + [cp[r, i] - (CPS[k, m, r] - shift[r]) for r in range(3)])
        rec.check("R4", isinstance(flags, np.ndarray) and flags.dtype == bool and flags.tolist() == inside, DI, q, f"the third output is the in-polygon flag of every point [{lab}]",
                  f"{q}: in-polygon flags [{lab}]")


def _r5(repo, rec: Rec, symbolic_rotation: bool) -> None:
    q = "segments_polygon"
    R, (ca, cb, cc) = _rotation(symbolic_rotation)
    nrm = [R[2, k] for k in range(3)]
    poly = _symarr("v", (3, 4))
    wrot = {ca: Q(1, 3), cb: Q(-1, 2), cc: Q(2, 5)}
    wpoly = [[1, 5, 6, 2], [-1, 3, 7, 4], [8, 9, 11, 10]]      # a generic first vertex, pairwise different coordinates
    Rw = sp.Matrix(3, 3, lambda i, j: sp.sympify(R[i, j]).xreplace(wrot))
    lab_rot = "symbolic rotation" if symbolic_rotation else "exact rational rotation"
    cw = sp.Matrix([sum(Q(x) for x in row) / 4 for row in wpoly])

    def world(local):      # a point given in the rotated frame, as exact rational world coordinates
        return list(cw + Rw.T * sp.Matrix([Q(x) for x in local]))
    centre = [sum(poly[r, k] for k in range(4)) / 4 for r in range(3)]
    # (a) a segment crossing the polygon plane inside the polygon
    S, E = _symarr("s", (3, 1)), _symarr("e", (3, 1))
    wit = {**wrot, **_wset(poly, wpoly), **_wset(S, [[x] for x in world((Q(1, 2), Q(1, 3), -1))]), **_wset(E, [[x] for x in world((Q(-1, 4), 1, 2))])}
    rotlog: list = []
    sc = Scen(repo, wit, {"project_plane_matrix": _rot_stub(rotlog, R), "point_in_polygon": lambda it, a, k, n: np.ones(np.shape(a[1])[1], dtype=bool)}, tag="C30")
    lab = "one segment crossing the polygon"
    ok, out = _run(rec, q, lab, lambda: sc.call(DI, q, [S.copy(), E.copy(), poly.copy()]))
    if ok:
        if not (isinstance(out, tuple) and len(out) == 2 and isinstance(out[0], np.ndarray) and out[0].shape == (1,) and isinstance(out[1], np.ndarray) and out[1].shape == (3, 1)):
            raise Undecided(f"C30 {q}: the result is not (distances (n,), closest points (nd, n))")
        d, cp = out
        c = [cp[r, 0] for r in range(3)]
        _ident(rec, "R5", sc, q, lab, "the distance of a crossing segment is 0", [d[0]])
        _ident(rec, "R5", sc, q, lab, "cp lies in the polygon plane (rotation undone with the transpose of the SAME matrix)", [_dotp([x - y for x, y in zip(c, centre)], nrm)])
        _ident(rec, "R5", sc, q, lab, "cp lies on the carrier line of the segment", _cross([c[r] - S[r, 0] for r in range(3)], [E[r, 0] - S[r, 0] for r in range(3)]))
        tpar = _dotp([c[r] - S[r, 0] for r in range(3)], [E[r, 0] - S[r, 0] for r in range(3)]) / _dotp([E[r, 0] - S[r, 0] for r in range(3)], [E[r, 0] - S[r, 0] for r in range(3)])
        _num_ok(rec, "R5", sc, q, lab, "cp lies between the end points of the segment", tpar, lambda v: 0 <= v <= 1)
    # (c) a segment lying IN the polygon plane with exactly one end point inside the polygon: the returned point must be one the in-polygon test accepted
    for lab, inside_is_end in (("segment in the polygon plane, only the START point inside the polygon", False), ("segment in the polygon plane, only the END point inside the polygon", True)):
        S, E = _symarr("s", (3, 1)), _symarr("e", (3, 1))
        wit = {**wrot, **_wset(poly, wpoly), **_wset(S, [[x] for x in world((3, Q(1, 2), 0))]), **_wset(E, [[x] for x in world((Q(1, 2), Q(1, 3), 0))])}
        inside_pt = E if inside_is_end else S
        loc_in = sp.Matrix([Q(1, 2), Q(1, 3)]) if inside_is_end else sp.Matrix([Q(3), Q(1, 2)])

        def oracle(it, args, kw, node, loc_in=loc_in):
            pts = _o(np.asarray(args[1]))
            pts = pts.reshape(pts.shape[0], -1)
            out = np.zeros(pts.shape[1], dtype=bool)
            for k in range(pts.shape[1]):
                out[k] = all(abs(it.alg.fnum(pts[r, k]) - float(loc_in[r])) < 1e-20 for r in range(2))
            return out

        def forbid(it, args, kw, node):
            raise Undecided("C30 segments_polygon: an intersecting segment is sent to the fallback search")
        sc = Scen(repo, wit, {"project_plane_matrix": _rot_stub([], R), "point_in_polygon": oracle, "points_polygon": forbid, "segment_segment_set": forbid}, tag="C30")
        ok, out = _run(rec, q, lab, lambda: sc.call(DI, q, [S.copy(), E.copy(), poly.copy()]))
        if not ok:
            continue
        d, cp = out
        Rm = _o(R)
        X = np.array([inside_pt[r, 0] - centre[r] for r in range(3)], dtype=object)
        loc = np.dot(Rm, X)
        loc[2] = sp.Integer(0)
        want = np.array(centre, dtype=object) + np.dot(Rm.T, loc)
        _ident(rec, "R5", sc, q, lab, "the distance of a segment that has an end point in the polygon is 0", [d[0]])
        _ident(rec, "R5", sc, q, lab, "the returned point is the end point accepted by the in-polygon test (a point of the polygon)",
               [cp[r, 0] - want[r] for r in range(3)])
    # (b) segments that do not touch the polygon: the candidates are the two end points and the boundary segments
    par = "segment parallel to the polygon plane at height 2 {0} it (the {1} side of the plane normal), end points projecting into the polygon"
    for lab, dvals, sloc, eloc, inpoly in (("start point nearest", (2, 5, [7, 4, 6, 9]), (7, 1, 2), (9, 2, 3), False),
                                           ("end point nearest", (5, 2, [7, 4, 6, 9]), (7, 1, 2), (9, 2, 3), False),
                                           ("a boundary segment nearest", (5, 6, [7, 3, 4, 9]), (7, 1, 2), (9, 2, 3), False),
                                           (par.format("above", "positive"), (2, 5, [7, 4, 6, 9]), (Q(1, 2), Q(1, 3), 2), (Q(-1, 4), 1, 2), True),
                                           (par.format("below", "negative"), (5, 2, [7, 4, 6, 9]), (Q(1, 2), Q(1, 3), -2), (Q(-1, 4), 1, -2), True)):
        S, E = _symarr("s", (3, 1)), _symarr("e", (3, 1))
        wit = {**wrot, **_wset(poly, wpoly), **_wset(S, [[x] for x in world(sloc)]), **_wset(E, [[x] for x in world(eloc)])}
        pp_calls: list = []
        ss_calls: list = []
        syms = {}

        def pp_stub(it, args, kw, node, pp_calls=pp_calls, syms=syms, wit=wit, dvals=dvals):
            k = len(pp_calls)
            pp_calls.append(args)
            n = np.shape(args[0])[1] if np.ndim(args[0]) == 2 else 1
            D, C = _symarr(f"D{k}_", (n,)), _symarr(f"C{k}_", (3, n))
            syms[k] = (D, C)
            for ix in np.ndindex(n):
                it.alg.numv[D[ix]] = Q(dvals[k])
            for ix in np.ndindex(3, n):
                it.alg.numv[C[ix]] = Q(1 + ix[0] + 4 * k, 3)
            return D.copy(), C.copy(), np.zeros(n, dtype=bool)

        def ss_stub(it, args, kw, node, ss_calls=ss_calls, syms=syms, dvals=dvals):
            ss_calls.append(args)
            n = np.shape(args[2])[1]
            D, C1, C2 = _symarr("DS", (n,)), _symarr("CA", (3, n)), _symarr("CB", (3, n))
            syms["ss"] = (D, C1, C2)
            for ix in np.ndindex(n):
                it.alg.numv[D[ix]] = Q(dvals[2][ix[0] % 4])
            for ix in np.ndindex(3, n):
                it.alg.numv[C1[ix]] = Q(2 + ix[0] + 3 * ix[1], 5)
                it.alg.numv[C2[ix]] = Q(-1 - ix[0] - 2 * ix[1], 7)
            return D.copy(), C1.copy(), C2.copy()
        sc = Scen(repo, wit, {"project_plane_matrix": _rot_stub([], R), "point_in_polygon": lambda it, a, k, n, inpoly=inpoly: np.full(np.shape(a[1])[1], inpoly, dtype=bool),
                              "points_polygon": pp_stub, "segment_segment_set": ss_stub}, tag="C30")
        ok, out = _run(rec, q, lab, lambda: sc.call(DI, q, [S.copy(), E.copy(), poly.copy()]))
        if not ok:
            continue
        d, cp = out
        if sloc[2] * eloc[2] > 0:
            height = min(abs(Q(sloc[2])), abs(Q(eloc[2])))
            if not _num_ok(rec, "R5", sc, q, lab, f"the distance is at least the distance {height} of the segment from the polygon plane (both end points on one side)", d[0], lambda v, h=float(height): v >= h - 1e-20):
                continue
        if len(pp_calls) != 2 or len(ss_calls) != 1:
            raise Undecided(f"C30 {q}: expected two point-polygon queries (end points) and one segment-segment query per segment; found {len(pp_calls)}, {len(ss_calls)}")
        # which call received the start points / the end points
        role = {}
        for k, args in enumerate(pp_calls):
            a0 = _o(np.asarray(args[0])).reshape(3, -1)
            try:
                is_s = all(sc.alg.is_zero(a0[r, 0] - S[r, 0]) for r in range(3))
                is_e = all(sc.alg.is_zero(a0[r, 0] - E[r, 0]) for r in range(3))
            except Undecided:
                is_s = is_e = False
            role[k] = "start" if is_s else ("end" if is_e else None)
        if sorted(str(v) for v in role.values()) != ["end", "start"]:
            rec.check("R5", False, DI, q, f"the two point-polygon queries must be made for the start points and for the end points in the original frame (found {role}) [{lab}]",
                      f"{q}: end point queries [{lab}]")
            continue
        cands = []
        for k in (0, 1):
            D, C = syms[k]
            cands.append((sc.alg.fnum(D[0]), f"{role[k]} point", D[0], [[C[r, 0] for r in range(3)]]))
        D, C1, C2 = syms["ss"]
        m = int(np.argmin([sc.alg.fnum(D[j]) for j in range(D.shape[0])]))
        cands.append((sc.alg.fnum(D[m]), f"boundary segment {m}", D[m], [[C1[r, m] for r in range(3)], [C2[r, m] for r in range(3)]]))
        best = min(cands, key=lambda t: t[0])
        _ident(rec, "R5", sc, q, lab, f"the distance is the smallest candidate ({best[1]})", [sp.sympify(d[0]) - best[2]])
        okcp = False
        why = None
        for alt in best[3]:
            try:
                good, why = _all_zero(sc.alg, [cp[r, 0] - alt[r] for r in range(3)], "cp")
            except Undecided:
                good = False
            okcp = okcp or good
        rec.check("R5", okcp, DI, q, f"the closest point is taken from the SAME candidate as the distance ({best[1]}) [{lab}]" + ("" if okcp else f" FAILS - {why}"),
                  f"{q}: distance and closest point updated in lock-step [{lab}]")
        # the boundary handed to the segment-segment query is the closed polygon boundary in the frame of the segment
        a = ss_calls[0]
        s0, e0, ps, pe = (_o(np.asarray(x)).reshape(3, -1) for x in a[:4])
        if lab == "a boundary segment nearest":
            shift = [s0[r, 0] - S[r, 0] for r in range(3)]
            _ident(rec, "R5", sc, q, lab, "the segment handed to the segment-segment query is the input segment (up to a common translation)", [e0[r, 0] - E[r, 0] - shift[r] for r in range(3)])
            try:
                bad = _closed_boundary(sc, ps, pe, poly, shift)
            except Undecided as ex:
                rec.undecided.append(ex)
                bad = None
            rec.check("R5", bad is None, DI, q, "the segment is compared with the closed polygon boundary (every edge v_k v_k+1 once, cyclically), in the frame of the segment"
                      + ("" if bad is None else f" FAILS - {bad}"), f"{q}: closed boundary in the frame of the segment [{lab}]")


# ------------------------------------------------------------------------------------------------------
# R6  segment_set
# ------------------------------------------------------------------------------------------------------

def _r6(repo, rec: Rec) -> None:
    q = "segment_set"
    ns, nd = 3, 3
    S, E = _symarr("s", (nd, ns)), _symarr("e", (nd, ns))
    wit = {**_wset(S, [[0, 1, 0], [0, 0, 1], [0, 0, 0]]), **_wset(E, [[1, 2, 0], [1, 0, 2], [0, 1, 3]])}
    table = {}

    def ss_stub(it, args, kw, node):
        a0, a1, bs, be = (_o(np.asarray(x)) for x in args[:4])
        if bs.shape != be.shape:
            raise ShapeError(node, f"start_set has shape {bs.shape} but end_set has shape {be.shape}")
        bs2, be2 = bs.reshape(nd, -1), be.reshape(nd, -1)
        n = bs2.shape[1]
        # identify the segments by their symbols
        def which(col0, col1):
            for j in range(ns):
                if all(col0[r] == S[r, j] for r in range(nd)) and all(col1[r] == E[r, j] for r in range(nd)):
                    return j
            raise Undecided("C30 segment_set: segment_segment_set is called with something else than (start, end) columns of the input")
        i = which(a0.ravel(), a1.ravel())
        D, C1, C2 = np.empty(n, dtype=object), np.empty((nd, n), dtype=object), np.empty((nd, n), dtype=object)
        for k in range(n):
            j = which(bs2[:, k], be2[:, k])
            D[k] = _S(f"D{min(i, j)}{max(i, j)}")
            it.alg.numv[D[k]] = Q(1 + i + j)
            for r in range(nd):
                C1[r, k], C2[r, k] = _S(f"C{i}on{i}to{j}_{r}"), _S(f"C{j}on{j}to{i}_{r}")
                it.alg.numv[C1[r, k]], it.alg.numv[C2[r, k]] = Q(1 + r + i, 3), Q(2 + r + j, 5)
            table[(i, j)] = (D[k], C1[:, k].copy(), C2[:, k].copy())
        return D, C1, C2
    sc = Scen(repo, wit, {"segment_segment_set": ss_stub}, tag="C30")
    lab = "three symbolic segments"
    ok, out = _run(rec, q, lab, lambda: sc.call(DI, q, [S.copy(), E.copy()]), shape_is_finding="the all-pairs wrapper cannot be executed", rule="R6")
    if not ok:
        return
    if not (isinstance(out, tuple) and len(out) == 2 and isinstance(out[0], np.ndarray) and out[0].shape == (ns, ns) and isinstance(out[1], np.ndarray) and out[1].shape == (ns, ns, nd)):
        rec.check("R6", False, DI, q, "the result is not (distances (n, n), closest points (n, n, nd))", f"{q}: shapes [{lab}]")
        return
    d, cp = out
    t_dist, t_sym, t_cp = [], [], []
    for i in range(ns):
        for j in range(i + 1, ns):
            if (i, j) not in table:
                rec.check("R6", False, DI, q, f"the pair ({i}, {j}) is never handed to segment_segment_set", f"{q}: all pairs are computed [{lab}]")
                return
            D, Ci, Cj = table[(i, j)]
            t_dist += [sp.sympify(d[i, j]) - D]
            t_sym += [sp.sympify(d[i, j]) - sp.sympify(d[j, i])]
            t_cp += [cp[i, j, r] - Ci[r] for r in range(nd)] + [cp[j, i, r] - Cj[r] for r in range(nd)]
    rec.check("R6", True, DI, q, f"every pair (i, j), i < j, is handed to segment_segment_set ({len(table)} pairs)", f"{q}: all pairs are computed [{lab}]")
    _ident(rec, "R6", sc, q, lab, "d[i, j] is the distance segment_segment_set returns for the pair (i, j)", t_dist)
    _ident(rec, "R6", sc, q, lab, "the distance matrix is symmetric", t_sym)
    _ident(rec, "R6", sc, q, lab, "cp[i, j] is the kernel's point ON segment i closest to j, cp[j, i] its point ON segment j (outputs not swapped, not transposed)", t_cp)
    diag = []
    for i in range(ns):
        diag += [d[i, i]] + _cross([cp[i, i, r] - S[r, i] for r in range(nd)], [E[r, i] - S[r, i] for r in range(nd)])
    _ident(rec, "R6", sc, q, lab, "d[i, i] = 0 and cp[i, i] lies on the carrier line of segment i", diag)
    tpar = [_dotp([cp[i, i, r] - S[r, i] for r in range(nd)], [E[r, i] - S[r, i] for r in range(nd)]) / _dotp([E[r, i] - S[r, i] for r in range(nd)], [E[r, i] - S[r, i] for r in range(nd)]) for i in range(ns)]
    for i in range(ns):
        _num_ok(rec, "R6", sc, q, f"{lab}, segment {i}", "cp[i, i] lies between the end points of segment i", tpar[i], lambda v: 0 <= v <= 1)
    # two segments only (the smallest all-pairs case: the tail slices have one column)
    S2, E2 = S[:, :2].copy(), E[:, :2].copy()
    table.clear()
    sc2 = Scen(repo, {k_: v_ for k_, v_ in wit.items()}, {"segment_segment_set": ss_stub}, tag="C30")
    lab2 = "two symbolic segments"
    ok, out = _run(rec, q, lab2, lambda: sc2.call(DI, q, [S2, E2]), shape_is_finding="the all-pairs wrapper cannot be executed", rule="R6")
    if ok and isinstance(out, tuple) and len(out) == 2 and isinstance(out[0], np.ndarray) and out[0].shape == (2, 2) and (0, 1) in table:
        d2, cp2 = out
        D, Ci, Cj = table[(0, 1)]
        _ident(rec, "R6", sc2, q, lab2, "d and cp of the single pair agree with segment_segment_set in both orders",
               [sp.sympify(d2[0, 1]) - D, sp.sympify(d2[1, 0]) - D] + [cp2[0, 1, r] - Ci[r] for r in range(nd)] + [cp2[1, 0, r] - Cj[r] for r in range(nd)])
    elif ok:
        rec.check("R6", False, DI, q, "for two segments the result is not (2 x 2 distances, 2 x 2 x nd points) computed from the one pair", f"{q}: single pair [{lab2}]")


# ------------------------------------------------------------------------------------------------------
# R7  normalisation statements without effect
# ------------------------------------------------------------------------------------------------------

PURE_METHODS = {"reshape", "ravel", "flatten", "transpose", "astype", "squeeze", "swapaxes"}      # shape / type normalisers that return a NEW array


def _r7(ctx: Ctx, rel: str, as_notes: bool = False) -> None:
    mod = ctx.repo.module(rel)
    for qn, fn in mod.functions():
        bad = []
        for st in walk_local(fn):
            if isinstance(st, ast.Expr) and isinstance(st.value, ast.Call) and isinstance(st.value.func, ast.Attribute) and st.value.func.attr in PURE_METHODS:
                recv = st.value.func.value
                if isinstance(recv, (ast.Name, ast.Subscript, ast.Attribute)) and not (dotted(recv) or "").startswith(("np", "self.")):
                    bad.append(st)
        if as_notes:
            for st in bad:
                ctx.note(f"{rel}:{qn}: result of `{u(st)}` is dropped (statement without effect)")
            continue
        if not bad:
            ctx.check("R7", True, mod, qn, fn, "no value-returning array method is called with its result dropped", construct=f"{qn}: no dropped normalisation")
        for st in bad:
            ctx.check("R7", False, mod, qn, st, f"`{u(st)}` returns a new array and the result is dropped: the statement normalises nothing "
                      f"(the sibling functions bind it: `x = x.reshape(...)`)", construct=f"{qn}: dropped result of {u(st)}")


def run(ctx: Ctx) -> None:
    repo = ctx.repo
    thorough = ctx.tier == "thorough"
    groups = [("C30-R1", [(DI, "point_pointset"), (DI, "pointset")], lambda rec: _r1(repo, rec)),
              ("C30-R2" + ("t" if thorough else ""), [(DI, "points_segments")], lambda rec: _r2(repo, rec, thorough)),
              ("C30-R3" + ("t" if thorough else ""), [(DI, "segment_segment_set")], lambda rec: _r3(repo, rec, thorough)),
              ("C30-R4" + ("t" if thorough else ""), [(DI, "points_polygon")], lambda rec: _r4(repo, rec, thorough)),
              ("C30-R5" + ("t" if thorough else ""), [(DI, "segments_polygon")], lambda rec: _r5(repo, rec, thorough)),
              ("C30-R6", [(DI, "segment_set")], lambda rec: _r6(repo, rec))]
    run_groups(ctx, groups)
    _r7(ctx, DI)
    if thorough:
        for rel in repo.all_py("src/porepy/geometry"):
            if rel != DI:
                _r7(ctx, rel, as_notes=True)


def _m(name, old, new, rule, control=False, count=1):
    return dict(name=name, file=DI, old=old, new=new, rule=rule, control=control, count=count)


MUTANTS = [
    # point_pointset / pointset
    _m("pointset-sum-over-points-axis", "        np.sum(np.power(np.abs(pt - pset_copy), exponent), axis=0), 1 / exponent\n", "        np.sum(np.power(np.abs(pt - pset_copy), exponent), axis=1), 1 / exponent\n", "R1"),
    _m("pointset-outer-exponent-fixed", "        np.sum(np.power(np.abs(pt - pset_copy), exponent), axis=0), 1 / exponent\n", "        np.sum(np.power(np.abs(pt - pset_copy), exponent), axis=0), 1 / 2\n", "R1"),
    _m("pointset-sum-of-points", "np.abs(pt - pset_copy)", "np.abs(pt + pset_copy)", "R1"),
    _m("pointset-squared-metric", 'd = scidist.cdist(p.T, p.T, "euclidean")', 'd = scidist.cdist(p.T, p.T, "sqeuclidean")', "R1"),
    _m("pointset-points-as-rows", 'd = scidist.cdist(p.T, p.T, "euclidean")', 'd = scidist.cdist(p, p, "euclidean")', "R1"),
    _m("pointset-diagonal-once", "        d += 2 * np.diag(row_max)\n", "        d += np.diag(row_max)\n", "R1"),
    # points_segments
    _m("points-segments-projection-by-length", "            proj = np.sum(v * line, axis=0) / lengths**2\n", "            proj = np.sum(v * line, axis=0) / lengths\n", "R2"),
    _m("points-segments-distance-to-start-for-end-arm", "            d[pi, above] = point_pointset(p[:, pi], end[:, above])\n", "            d[pi, above] = point_pointset(p[:, pi], start[:, above])\n", "R2"),
    _m("points-segments-cp-end-for-start-arm", "            cp[pi, less, :] = np.swapaxes(start[:, less], 1, 0)\n", "            cp[pi, less, :] = np.swapaxes(end[:, less], 1, 0)\n", "R2"),
    _m("points-segments-second-loop-cp-start-for-end-arm", "            cp[above, ei, :] = end[:, ei]\n", "            cp[above, ei, :] = start[:, ei]\n", "R2"),
    _m("points-segments-second-loop-projection-by-length", "axis=0) / lengths[ei] ** 2\n", "axis=0) / lengths[ei]\n", "R2"),
    _m("points-segments-threshold-half", "np.ma.less_equal(proj, 0)", "np.ma.less_equal(proj, 0.5)", "R2", count=2),
    _m("points-segments-between-cp-unprojected", "            cp[pi, between, :] = np.swapaxes(proj_p, 1, 0)\n", "            cp[pi, between, :] = np.swapaxes(start[:, between], 1, 0)\n", "R2"),
    # segment_segment_set
    _m("segseg-s1-arm-sign", "    tN[s1_visible] = dot_1_2[s1_visible] + dot_2_starts[s1_visible]\n", "    tN[s1_visible] = dot_1_2[s1_visible] - dot_2_starts[s1_visible]\n", "R3"),
    _m("segseg-t0-other-sign", "    sN[other] = -dot_1_starts[other]\n", "    sN[other] = dot_1_starts[other]\n", "R3"),
    _m("segseg-distance-of-other-points", "    dist = d_starts + sc * d1 - tc * d2\n", "    dist = d_starts + sc * d1 + tc * d2\n", "R3"),
    _m("segseg-cp2-with-s", "    cp2 = start_set + d2 * tc\n", "    cp2 = start_set + d2 * sc\n", "R3"),
    _m("segseg-outputs-swapped", "axis=0)), cp1, cp2\n", "axis=0)), cp2, cp1\n", "R3"),
    _m("segseg-case3-sign", "    sN[case_3] = -dot_1_starts[case_3] + dot_1_2[case_3]\n", "    sN[case_3] = -dot_1_starts[case_3] - dot_1_2[case_3]\n", "R3"),
    _m("segseg-parallel-numerator", "    tN[parallel] = dot_2_starts[parallel]\n", "    tN[parallel] = dot_1_starts[parallel]\n", "R3"),
    _m("segseg-t0-end-clamp-to-start", "    sN[dot_1_start_g_dot_1_1] = sD[dot_1_start_g_dot_1_1]\n", "    sN[dot_1_start_g_dot_1_1] = 0\n", "R3"),
    _m("segseg-start-difference-reversed", "    d_starts: np.ndarray = start - start_set\n", "    d_starts: np.ndarray = start_set - start\n", "R3"),
    _m("segseg-discriminant-plus", "    discr = dot_1_1 * dot_2_2 - dot_1_2**2\n", "    discr = dot_1_1 * dot_2_2 + dot_1_2**2\n", "R3"),
    _m("segseg-case1-test-sign", "    case_1 = np.logical_and(t1_visible, (-dot_1_starts + dot_1_2) < 0)\n", "    case_1 = np.logical_and(t1_visible, (-dot_1_starts - dot_1_2) < 0)\n", "R3"),
    _m("segseg-s0-arm-t-numerator", "    tN[s0_visible] = dot_2_starts[s0_visible]\n", "    tN[s0_visible] = dot_1_2[s0_visible]\n", "R3"),
    # points_polygon
    _m("polygon-inverse-rotation-not-transposed", "    irot = rot_p.transpose()\n", "    irot = rot_p\n", "R4", count=2),
    _m("points-polygon-cp-from-first-segment", "        cp[:, pi] = p_outside[i, mi, :]\n", "        cp[:, pi] = p_outside[i, 0, :]\n", "R4"),
    _m("points-polygon-boundary-diagonals", "    end = orig_poly[:, (1 + np.arange(num_vert)) % num_vert]\n", "    end = orig_poly[:, (2 + np.arange(num_vert)) % num_vert]\n", "R4"),
    _m("points-polygon-wrong-height-row", "    d[in_poly] = np.abs(p[2, in_poly])\n", "    d[in_poly] = np.abs(p[1, in_poly])\n", "R4"),
    _m("points-polygon-z-not-dropped", "    cp_inpoly[2, :] = 0\n", "    cp_inpoly[2, :] = cp_inpoly[2, :]\n", "R4"),
    _m("points-polygon-boundary-in-rotated-frame", "    d_outside, p_outside = points_segments(orig_p[:, outside_poly], start, end)\n", "    d_outside, p_outside = points_segments(p[:, outside_poly], start, end)\n", "R4"),
    # segments_polygon
    _m("segments-polygon-end-candidate-keeps-start-cp", "            cp_l = cp_e_p[:, si]\n", "            cp_l = cp_s_p[:, si]\n", "R5"),
    _m("segments-polygon-cp-from-first-boundary-segment", "            cp_l = cp_s[:, min_seg]\n", "            cp_l = cp_s[:, 0]\n", "R5"),
    _m("segments-polygon-boundary-diagonals", "        poly_end = np.roll(poly, -1, axis=1)\n", "        poly_end = np.roll(poly, -2, axis=1)\n", "R5"),
    _m("segments-polygon-crossing-parameter-sign", "    t[non_zero_incline] = -start[2, non_zero_incline] / dz[non_zero_incline]\n", "    t[non_zero_incline] = start[2, non_zero_incline] / dz[non_zero_incline]\n", "R5"),
    _m("segments-polygon-end-query-uses-start", "    d_end_poly, cp_e_p, _ = points_polygon(end, poly)\n", "    d_end_poly, cp_e_p, _ = points_polygon(start, poly)\n", "R5"),
    _m("segments-polygon-distance-not-updated", "            md = ds[min_seg]\n", "            pass\n", "R5"),
    # independently seeded changes (campaign; seed 1 is the edit of `segseg-parallel-numerator`)
    _m("seed-segments-polygon-in-plane-test-one-sided", "        np.abs(start[2]) < tol, np.logical_not(non_zero_incline)\n", "        start[2] < tol, np.logical_not(non_zero_incline)\n", "R5"),
    _m("seed-segments-polygon-roll-without-axis", "        poly_end = np.roll(poly, -1, axis=1)\n", "        poly_end = np.roll(poly, -1)\n", "R5"),
    # R7
    _m("segments-polygon-start-reshape-dropped", "    if start.size < 4:\n        start = start.reshape((-1, 1))\n    if end.size < 4:\n        end = end.reshape((-1, 1))\n\n    num_p = start.shape[1]\n",
       "    if start.size < 4:\n        start.reshape((-1, 1))\n    if end.size < 4:\n        end = end.reshape((-1, 1))\n\n    num_p = start.shape[1]\n", "R7"),
    # reverted fixes (94afe82ca, 140734d17, 1ed349282)
    _m("revert-fix-points-polygon-reshape-dropped", "    if p.size < 4:\n        p = p.reshape((-1, 1))\n\n    num_p = p.shape[1]\n    num_vert = poly.shape[1]\n",
       "    if p.size < 4:\n        p.reshape((-1, 1))\n\n    num_p = p.shape[1]\n    num_vert = poly.shape[1]\n", "R7", control=True),
    _m("revert-fix-segment-set", "        if i == ns - 1:\n            # No segments left to compare with.\n            break\n", "", "R6", control=True,
       ) | {"edits": [dict(file=DI, old="        if i == ns - 1:\n            # No segments left to compare with.\n            break\n", new="", count=1),
                      dict(file=DI, old="start[:, i + 1 :], end[:, i + 1 :]\n", new="start[:, i + 1 :], end[:, i + 1]\n", count=1),
                      dict(file=DI, old="        d[i, i + 1 :] = dl\n        d[i + 1 :, i] = dl\n        cp[i, i + 1 :] = cpi.T\n        cp[i + 1 :, i] = cpj.T\n",
                           new="        dl[i, i + 1 :] = dl\n        dl[i + 1 :, i] = dl\n        cp[i, i + 1 :] = cpi\n        cp[i + 1 :, i] = cpj\n", count=1)]},
    _m("revert-fix-segments-polygon-in-plane-start-point", "    x0[:, use_end] = end[:, use_end]\n", "", "R5", control=True),
    # segment_set
    _m("segment-set-end-single-column", "start[:, i + 1 :], end[:, i + 1 :]\n", "start[:, i + 1 :], end[:, i + 1]\n", "R6"),
    _m("segment-set-result-into-kernel-output", "        d[i, i + 1 :] = dl\n        d[i + 1 :, i] = dl\n", "        dl[i, i + 1 :] = dl\n        dl[i + 1 :, i] = dl\n", "R6"),
    _m("segment-set-points-swapped", "        cp[i, i + 1 :] = cpi.T\n        cp[i + 1 :, i] = cpj.T\n", "        cp[i, i + 1 :] = cpj.T\n        cp[i + 1 :, i] = cpi.T\n", "R6"),
    _m("segment-set-not-symmetric", "        d[i + 1 :, i] = dl\n", "", "R6"),
    _m("segment-set-diagonal-point-off-segment", "        cp[i, i, :] = start[:, i] + 0.5 * (end[:, i] - start[:, i])\n", "        cp[i, i, :] = start[:, i] + 1.5 * (end[:, i] - start[:, i])\n", "R6"),
    _m("segment-set-last-pair-skipped", "        if i == ns - 1:\n", "        if i >= ns - 2:\n", "R6"),
]
