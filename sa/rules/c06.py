"""C06 - restricted assembly is a slice of the full system: order determinism and lock-step.

R1 no unordered iteration   in assemble / _parse_equations / _parse_single_equation / _gridbased_equation_complement /
                            set_equation / AdParser.evaluate no set-typed value is iterated, listed, returned or passed on:
                            sets may only be used for membership, difference, size and error messages.
R2 order sources            _parse_equations returns a dict filled by iterating self._equations (insertion order);
                            restricted row indices are gathered by iterating the equation's image-space composition (not the
                            user's grid list); set_equation lays the per-grid row blocks out subdomains-then-interfaces with a
                            running offset read before it is advanced.
R3 lock-step                in assemble, Jacobian rows and residual entries are appended pairwise from the same AdArray with the
                            same row selector; names / rows / evaluated operators are zipped from the same parsed dict;
                            assembled_equation_indices is a running contiguous range whose length is the length of the block
                            just appended; the residual-only arm uses the same selectors, the same operator list and state,
                            and the same final sign as the full arm; AdParser.evaluate returns results in argument order.
R4 column slicing           the returned matrix is vstack(blocks) * projection_to(<variables argument>).transpose().
"""
from __future__ import annotations

import ast
from typing import Optional

from ..core.astutil import (u, walk_local, call_name, kwarg, methods, parent_map, subst, body_nodoc,
                            inline_locals, enclosing_stmt)
from ..core.loader import AnchorError, Undecided
from ..core.report import Ctx

ES = "src/porepy/numerics/ad/equation_system.py"
PARSER = "src/porepy/numerics/ad/_ad_parser.py"
CLS = "EquationSystem"

META = {
    "explanation": (
        "Static order/lock-step analysis of EquationSystem.assemble and its parsers. Decided: (R1) a small set-type "
        "inference (set()/frozenset()/set literals/comprehensions, set algebra, names bound only to those) shows that in "
        "the functions that determine row order no set is ever iterated, converted to a sequence, returned or handed to "
        "another call - sets occur only in membership/difference/len tests and error messages. (R2) the dict returned by "
        "_parse_equations is filled only inside a loop over self._equations keyed by the loop variable (or is a "
        "comprehension over it); the restricted row block of an equation is concatenated from img_info[grid] while "
        "iterating img_info itself; set_equation builds img_info over mdg.subdomains() then mdg.interfaces() with "
        "block = arange(n) + offset evaluated before offset += n. (R3) every branch of the assembly loop appends "
        "<ad>.jac[sel] and <ad>.val[sel] with the same sel (the zipped row selector under `row is not None`, nothing "
        "otherwise); the three zipped sequences derive from the one dict returned by _parse_equations; block_length is "
        "the length of the residual block just appended; indices are arange(block_length)+ind_start, ind_start moves "
        "to one past the block and the index dict is reset before the loop; the residual-only arm evaluates the same operators on the same state, applies the same "
        "selectors and returns the same sign (-rhs). (R4) columns are sliced by right-multiplying with "
        "projection_to(variables).transpose(). NOT decided: numerical equality of the slices with the full system, that "
        "operators evaluate rows grid-by-grid in mdg order (documented assumption of set_equation), duplicate entries in "
        "the `variables` argument (projection_to does not uniquify)."),
    "rule_text": "one obligation per (function / set-typed use | return of the parser | append pair | zip argument | index bookkeeping clause | return)",
    "trusted_base": ["python ast", "sa.core (loader, astutil)", "dict preserves insertion order; set iteration order is unspecified",
                     "zip pairs by position; scipy sparse `*` is the matrix product"],
    "assumptions": ["AD evaluation orders the rows of one equation by grid in mdg.subdomains()/interfaces() order (set_equation docstring)",
                    "self._equations is only filled by set_equation (insertion order == order the equations were set)",
                    "projection_to sorts its indices (C05 R3)"],
    "accepted_forms": ["_parse_equations: loop+insert, dict/generator comprehension or dict.fromkeys over self._equations",
                       "restricted rows: loop+append or list comprehension over the image-space dict (keys or items), inline or in one private helper",
                       "assemble loops: zip of names/rows/results in any order, (name,row) pairs from <dict>.items(), list comprehensions over the parsed dict; "
                       "the loop body is interpreted once per case (row selector given / absent): if/else in either polarity, conditional expressions, "
                       "temporaries assigned per branch and appended after the branch; len(x)/x.size/len(rhs[-1]) lengths; start advanced by += length or "
                       "last index + 1; early return of the residual-only arm with its own concatenation"],
    "technique": "set-type inference with use-site classification + dataflow/shape matching of the parser loops and of the lock-step appends",
}
MIN_INSTANCES = {"R1": 8, "R2": 10, "R3": 16, "R4": 5}

SET_CTORS = {"set", "frozenset"}
SET_METHODS_RET_SET = {"difference", "union", "intersection", "symmetric_difference", "copy"}
SET_METHODS_OK = SET_METHODS_RET_SET | {"issubset", "issuperset", "isdisjoint", "add", "update", "discard", "remove",
                                        "difference_update", "intersection_update", "clear", "__contains__"}
ORDER_FREE_CALLS = {"len", "set", "frozenset", "sorted", "any", "all", "sum", "min", "max", "bool", "isinstance"}
SEQ_CALLS = {"list", "tuple", "array", "asarray", "fromiter", "enumerate", "zip", "iter", "next", "join", "concatenate",
             "hstack", "vstack", "dict"}


# ----------------------------------------------------------------------------------------------
# R1: set-type inference
# ----------------------------------------------------------------------------------------------

def _stores(fn: ast.AST, name: str) -> list[ast.AST]:
    out = []
    for s in walk_local(fn):
        if isinstance(s, ast.Assign):
            for t in s.targets:
                for n in ast.walk(t):
                    if isinstance(n, ast.Name) and n.id == name and isinstance(n.ctx, ast.Store):
                        out.append(s)
        elif isinstance(s, (ast.AnnAssign, ast.AugAssign)) and isinstance(s.target, ast.Name) and s.target.id == name:
            if not (isinstance(s, ast.AnnAssign) and s.value is None):
                out.append(s)
        elif isinstance(s, (ast.For, ast.comprehension)):
            for n in ast.walk(s.target):
                if isinstance(n, ast.Name) and n.id == name and isinstance(n.ctx, ast.Store):
                    out.append(s)
        elif isinstance(s, ast.NamedExpr) and s.target.id == name:
            out.append(s)
        elif isinstance(s, ast.With):
            for it in s.items:
                if it.optional_vars is not None and any(isinstance(n, ast.Name) and n.id == name for n in ast.walk(it.optional_vars)):
                    out.append(s)
    return out


def set_typed(fn: ast.AST) -> tuple[set[str], list[ast.expr]]:
    """(names bound only to set-valued expressions, all set-typed expression nodes in fn)."""
    names: set[str] = set()

    def is_set(e: ast.AST) -> bool:
        if isinstance(e, (ast.Set, ast.SetComp)):
            return True
        if isinstance(e, ast.Call):
            if isinstance(e.func, ast.Name) and e.func.id in SET_CTORS:
                return True
            if isinstance(e.func, ast.Attribute) and e.func.attr in SET_METHODS_RET_SET and is_set(e.func.value):
                return True
        if isinstance(e, ast.BinOp) and isinstance(e.op, (ast.BitOr, ast.BitAnd, ast.Sub, ast.BitXor)):
            return is_set(e.left) and is_set(e.right)
        if isinstance(e, ast.Name):
            return e.id in names
        return False

    changed = True
    while changed:
        changed = False
        cands: dict[str, list[ast.AST]] = {}
        for s in walk_local(fn):
            if isinstance(s, ast.Assign) and len(s.targets) == 1 and isinstance(s.targets[0], ast.Name):
                cands.setdefault(s.targets[0].id, []).append(s.value)
            elif isinstance(s, ast.AnnAssign) and isinstance(s.target, ast.Name) and s.value is not None:
                cands.setdefault(s.target.id, []).append(s.value)
        for nm, vals in cands.items():
            if nm in names:
                continue
            if all(is_set(v) for v in vals) and len(_stores(fn, nm)) == len(vals):
                names.add(nm)
                changed = True
    nodes = [n for n in walk_local(fn) if isinstance(n, ast.expr) and is_set(n)
             and not (isinstance(n, ast.Name) and not isinstance(n.ctx, ast.Load))]
    return names, nodes


def classify_set_use(pm: dict, e: ast.expr) -> tuple[str, str]:
    """('ok'|'leak'|'unknown', description) for one occurrence of a set-typed expression."""
    par = pm.get(e)
    if isinstance(par, (ast.Assign, ast.AnnAssign)) and getattr(par, "value", None) is e:
        return "ok", "bound to a name (tracked)"
    if isinstance(par, ast.Attribute) and par.value is e:
        call = pm.get(par)
        if isinstance(call, ast.Call) and call.func is par:
            if par.attr in SET_METHODS_OK:
                return "ok", f".{par.attr}()"
            if par.attr == "pop":
                return "leak", ".pop() removes an arbitrary element"
        return "unknown", f"attribute .{par.attr}"
    if isinstance(par, ast.Call) and e in par.args:
        cn = call_name(par)
        if isinstance(par.func, ast.Attribute) and par.func.attr in SET_METHODS_OK:
            return "ok", f"argument of .{par.func.attr}()"
        if cn in ORDER_FREE_CALLS:
            return "ok", f"{cn}()"
        if cn in SEQ_CALLS:
            return "leak", f"{cn}(<set>) fixes an arbitrary order"
        return "unknown", f"passed to {u(par.func)}()"
    if isinstance(par, ast.Compare):
        if e in par.comparators and all(isinstance(o, (ast.In, ast.NotIn, ast.Eq, ast.NotEq, ast.LtE, ast.GtE, ast.Lt, ast.Gt)) for o in par.ops):
            return "ok", "membership/equality test"
        if par.left is e and all(isinstance(o, (ast.Eq, ast.NotEq, ast.LtE, ast.GtE, ast.Lt, ast.Gt)) for o in par.ops):
            return "ok", "set comparison"
    if isinstance(par, ast.BinOp) and isinstance(par.op, (ast.BitOr, ast.BitAnd, ast.Sub, ast.BitXor)):
        return "ok", "set algebra"
    if isinstance(par, (ast.FormattedValue,)):
        return "ok", "interpolated into a message"
    if isinstance(par, (ast.If, ast.While, ast.IfExp, ast.Assert)) and getattr(par, "test", None) is e:
        return "ok", "truth test"
    if isinstance(par, ast.UnaryOp) and isinstance(par.op, ast.Not):
        return "ok", "truth test"
    if isinstance(par, ast.BoolOp):
        return "ok", "truth test"
    if isinstance(par, ast.For) and par.iter is e:
        return "leak", "for loop over a set: iteration order is arbitrary"
    if isinstance(par, ast.comprehension) and par.iter is e:
        comp = pm.get(par)
        if isinstance(comp, ast.SetComp):
            return "ok", "set comprehension"
        outer = pm.get(comp)
        if isinstance(outer, ast.Call) and call_name(outer) in ORDER_FREE_CALLS and comp in outer.args:
            return "ok", f"{call_name(outer)}(<generator over set>)"
        return "leak", "comprehension over a set: element order is arbitrary"
    if isinstance(par, ast.Return):
        return "leak", "a set is returned to callers that may iterate it"
    if isinstance(par, ast.Starred):
        return "leak", "unpacking a set"
    if isinstance(par, ast.Expr):
        return "ok", "discarded"
    return "unknown", type(par).__name__


def _check_sets(ctx: Ctx, rel: str, qual: str, fn: ast.FunctionDef, judge: bool) -> None:
    pm = parent_map(fn)
    _, nodes = set_typed(fn)
    leaks = 0
    for e in nodes:
        kind, why = classify_set_use(pm, e)
        if not judge:
            if kind != "ok":
                ctx.note(f"[sweep, not judged] {rel}:{qual}:{e.lineno}: set-typed `{u(e)[:60]}` -> {why}")
            continue
        if kind == "unknown":
            raise Undecided(f"{qual}: cannot classify use of set-typed expression `{u(e)[:60]}` ({why})")
        leaks += kind == "leak"
        ctx.check("R1", kind == "ok", rel, qual, e,
                  f"set-typed value `{u(e)[:60]}` feeds an order: {why}", construct=f"{u(e)[:80]} :: {why}",
                  desc=f"set-typed `{u(e)[:50]}` used order-insensitively ({why})", facts={"use": why})
    if judge:
        ctx.check("R1", leaks == 0, rel, qual, fn, f"{leaks} order-leaking use(s) of sets in a function that fixes row/column order",
                  construct=f"{qual}: order-leaking set uses", desc=f"{qual}: {len(nodes)} set-typed expressions, none leaks order",
                  facts={"set_expressions": len(nodes)})


# ----------------------------------------------------------------------------------------------
# helpers
# ----------------------------------------------------------------------------------------------

def _is_self_attr(e: ast.AST, attr: str) -> bool:
    return isinstance(e, ast.Attribute) and e.attr == attr and isinstance(e.value, ast.Name) and e.value.id == "self"


def _strip_keys(e: ast.expr) -> ast.expr:
    """x.keys() / list(x) / list(x.keys()) -> x"""
    while True:
        if isinstance(e, ast.Call) and call_name(e) in ("list", "tuple", "iter") and len(e.args) == 1 and not e.keywords:
            e = e.args[0]
        elif isinstance(e, ast.Call) and isinstance(e.func, ast.Attribute) and e.func.attr == "keys" and not e.args:
            e = e.func.value
        else:
            return e


def _params(fn: ast.FunctionDef) -> list[str]:
    return [a.arg for a in fn.args.posonlyargs + fn.args.args + fn.args.kwonlyargs]


def _dict_inserts(fn: ast.AST, name: str) -> list[tuple[ast.stmt, Optional[ast.expr], Optional[ast.expr]]]:
    """Insertions into local dict `name`: (stmt, key, value); key None for a bulk update(other)."""
    out = []
    for s in walk_local(fn):
        if isinstance(s, ast.Assign) and len(s.targets) == 1 and isinstance(s.targets[0], ast.Subscript) \
                and u(s.targets[0].value) == name:
            out.append((s, s.targets[0].slice, s.value))
        elif isinstance(s, ast.Expr) and isinstance(s.value, ast.Call) and isinstance(s.value.func, ast.Attribute) \
                and u(s.value.func.value) == name and s.value.func.attr in ("update", "setdefault"):
            c = s.value
            if c.func.attr == "update" and len(c.args) == 1 and isinstance(c.args[0], ast.Dict) and len(c.args[0].keys) == 1 \
                    and c.args[0].keys[0] is not None:
                out.append((s, c.args[0].keys[0], c.args[0].values[0]))
            elif c.func.attr == "setdefault" and c.args:
                out.append((s, c.args[0], c.args[1] if len(c.args) > 1 else None))
            else:
                out.append((s, None, c.args[0] if c.args else None))
    return out


def _enclosing_loops(pm: dict, n: ast.AST, stop: ast.AST) -> list[ast.AST]:
    out = []
    while n in pm and pm[n] is not stop:
        n = pm[n]
        if isinstance(n, (ast.For, ast.While)):
            out.append(n)
    return out


def _empty_dict(e: Optional[ast.expr]) -> bool:
    return e is not None and ((isinstance(e, ast.Dict) and not e.keys) or (isinstance(e, ast.Call) and u(e.func) == "dict" and not e.args and not e.keywords))


def _empty_list(e: Optional[ast.expr]) -> bool:
    return e is not None and ((isinstance(e, ast.List) and not e.elts) or (isinstance(e, ast.Call) and u(e.func) == "list" and not e.args and not e.keywords))


def _single_value(fn: ast.AST, name: str) -> Optional[ast.expr]:
    st = _stores(fn, name)
    if len(st) == 1 and isinstance(st[0], (ast.Assign, ast.AnnAssign)) and st[0].value is not None:
        tg = st[0].targets[0] if isinstance(st[0], ast.Assign) else st[0].target
        if isinstance(tg, ast.Name):
            return st[0].value
    return None


def _user_ordered(fn: ast.FunctionDef, e: ast.expr, depth: int = 0) -> Optional[str]:
    """Why `e` is in an order chosen by the caller / by sorting / by a set (None = cannot tell)."""
    b = _strip_keys(e)
    if isinstance(b, ast.Call) and isinstance(b.func, ast.Attribute) and b.func.attr in ("items", "values") and not b.args:
        b = b.func.value
    if isinstance(b, ast.Call) and call_name(b) in ("sorted", "reversed"):
        return f"{call_name(b)}(...) re-orders"
    if isinstance(b, ast.Call) and call_name(b) in SET_CTORS or isinstance(b, (ast.Set, ast.SetComp)):
        return "a set has no defined order"
    if isinstance(b, ast.Name):
        if b.id in _params(fn):
            return f"'{b.id}' is an argument: its order is the caller's"
        names, _ = set_typed(fn)
        if b.id in names:
            return f"'{b.id}' is a set"
        if depth < 3:
            # a local dict/list filled inside a loop over something user-ordered
            srcs = []
            pm = parent_map(fn)
            for s, k, v in _dict_inserts(fn, b.id):
                for lp in _enclosing_loops(pm, s, fn):
                    if isinstance(lp, ast.For):
                        srcs.append(_user_ordered(fn, lp.iter, depth + 1))
            for c in walk_local(fn):
                if isinstance(c, ast.Call) and isinstance(c.func, ast.Attribute) and c.func.attr == "append" and u(c.func.value) == b.id:
                    for lp in _enclosing_loops(pm, c, fn):
                        if isinstance(lp, ast.For):
                            srcs.append(_user_ordered(fn, lp.iter, depth + 1))
            srcs = [s for s in srcs if s]
            if srcs:
                return f"'{b.id}' is filled in an order where {srcs[0]}"
            v = _single_value(fn, b.id)
            if v is not None and not _empty_dict(v) and not _empty_list(v):
                return _user_ordered(fn, v, depth + 1)
    return None


# ----------------------------------------------------------------------------------------------
# R2
# ----------------------------------------------------------------------------------------------

def _check_parse_equations(ctx: Ctx, rel: str, fn: ast.FunctionDef) -> None:
    q = f"{CLS}._parse_equations"
    pm = parent_map(fn)
    rets = [r for r in walk_local(fn) if isinstance(r, ast.Return)]
    if len(rets) < 1:
        raise AnchorError(f"{q}: no return")
    for r in rets:
        v = r.value
        if v is None:
            raise Undecided(f"{q}: bare return")
        # comprehension forms
        comp = None
        if isinstance(v, ast.DictComp):
            comp = v
        elif isinstance(v, ast.Call) and u(v.func) == "dict" and len(v.args) == 1 and isinstance(v.args[0], (ast.GeneratorExp, ast.ListComp)):
            comp = v.args[0]
        if isinstance(v, ast.Call) and u(v.func) == "dict.fromkeys" and 1 <= len(v.args) <= 2:
            src = _strip_keys(v.args[0])
            ok = _is_self_attr(src, "_equations")
            why = "insertion order of self._equations"
            if not ok:
                why = _user_ordered(fn, v.args[0])
                if why is None:
                    raise Undecided(f"{q}: dict.fromkeys over {u(v.args[0])}")
            ctx.check("R2", ok, rel, q, r,
                      f"row blocks must come in the order the equations were set (iterate self._equations): {why}",
                      construct=f"return dict over {u(v.args[0])}", facts={"source": u(v.args[0])})
            continue
        if comp is not None:
            gen = comp.generators[0]
            src = _strip_keys(gen.iter)
            ok = len(comp.generators) == 1 and _is_self_attr(src, "_equations")
            if not ok:
                why = _user_ordered(fn, gen.iter)
                if why is None:
                    raise Undecided(f"{q}: returned comprehension iterates {u(gen.iter)}")
            else:
                why = "insertion order of self._equations"
            key = comp.key if isinstance(comp, ast.DictComp) else (comp.elt.elts[0] if isinstance(comp.elt, ast.Tuple) and comp.elt.elts else None)
            ok = ok and key is not None and u(key) == u(gen.target)
            ctx.check("R2", ok, rel, q, r,
                      f"row blocks must come in the order the equations were set (iterate self._equations): {why}",
                      construct=f"return dict over {u(gen.iter)}", facts={"source": u(gen.iter)})
            continue
        if not isinstance(v, ast.Name):
            raise Undecided(f"{q}: unrecognised return value {u(v)[:60]}")
        D = v.id
        init = [s for s in _stores(fn, D)]
        if len(init) != 1 or not _empty_dict(getattr(init[0], "value", None)):
            raise Undecided(f"{q}: returned dict {D} is not a local initialised empty exactly once")
        ins = _dict_inserts(fn, D)
        if not ins:
            raise Undecided(f"{q}: nothing is inserted into the returned dict {D}")
        ok_all, whys = True, []
        for s, key, val in ins:
            loops = _enclosing_loops(pm, s, fn)
            if len(loops) == 1 and isinstance(loops[0], ast.For) and _is_self_attr(_strip_keys(loops[0].iter), "_equations") \
                    and key is not None and u(key) == u(loops[0].target):
                whys.append("keyed by the loop variable of `for ... in self._equations`")
                # value looked up under the same key
                if not (isinstance(val, ast.Subscript) and u(val.slice) == u(key)) and not (isinstance(val, ast.Constant) and val.value is None):
                    raise Undecided(f"{q}: value inserted for {u(key)} is not a lookup under the same key: {u(val) if val is not None else None}")
                continue
            why = None
            if loops and isinstance(loops[0], ast.For):
                why = _user_ordered(fn, loops[0].iter)
            elif not loops and key is None and val is not None:
                why = _user_ordered(fn, val)
            if why is None:
                raise Undecided(f"{q}: insertion `{u(s)[:70]}` into the returned dict happens in an unclassified order")
            ok_all = False
            whys.append(why)
        ctx.check("R2", ok_all, rel, q, r,
                  f"the returned dict must be filled while iterating self._equations (order the equations were set); found: {whys}",
                  construct=f"return {D}; filled: {whys}", facts={"dict": D, "fill": whys})
    ctx.sample({"rule": "R2", "function": "_parse_equations", "returns": [u(r.value)[:80] for r in rets if r.value is not None]})


def _private_helpers_called(fn: ast.AST, meths: dict) -> list[tuple[ast.Call, ast.FunctionDef]]:
    out = []
    for c in walk_local(fn):
        if isinstance(c, ast.Call) and isinstance(c.func, ast.Attribute) and isinstance(c.func.value, ast.Name) and c.func.value.id == "self" \
                and c.func.attr.startswith("_") and c.func.attr in meths and meths[c.func.attr] is not fn:
            out.append((c, meths[c.func.attr]))
    return out


def _check_parse_single(ctx: Ctx, rel: str, fn0: ast.FunctionDef, meths: dict) -> Optional[tuple[str, ast.FunctionDef]]:
    """Returns (name, def) of a private helper the row gathering was followed into (one level), else None."""
    q = f"{CLS}._parse_single_equation"

    def cats_of(f):
        return [c for c in walk_local(f) if isinstance(c, ast.Call) and call_name(c) in ("concatenate", "hstack") and c.args
                and isinstance(c.args[0], ast.Name)]

    fn, outer_call, followed = fn0, None, None
    cats = cats_of(fn0)
    if not cats:
        hs = [(c, h) for c, h in _private_helpers_called(fn0, meths) if cats_of(h)]
        if len(hs) == 1:
            outer_call, fn = hs[0]
            followed = (fn.name, fn)
            q = f"{CLS}.{fn.name}"
            cats = cats_of(fn)
    pm = parent_map(fn)
    if len(cats) != 1:
        raise Undecided(f"{q}: expected one concatenate(<list of index blocks>), found {len(cats)}")
    L = cats[0].args[0].id
    apps = [c for c in walk_local(fn) if isinstance(c, ast.Call) and isinstance(c.func, ast.Attribute) and u(c.func.value) == L
            and c.func.attr in ("append", "extend", "insert")]
    lst = [x for x in _stores(fn, L) if isinstance(x, (ast.Assign, ast.AnnAssign)) and x.value is not None]
    if not apps and len(lst) == 1 and isinstance(lst[0].value, ast.ListComp) and len(lst[0].value.generators) == 1:
        comp = lst[0].value
        gen = comp.generators[0]
        loop = ast.For(target=gen.target, iter=gen.iter, body=[], orelse=[])
        ast.copy_location(loop, comp)
        app_node, app_val = comp, comp.elt
    else:
        if len(apps) != 1 or apps[0].func.attr != "append" or len(apps[0].args) != 1:  # type: ignore[union-attr]
            raise Undecided(f"{q}: expected a single append to {L}")
        loops = _enclosing_loops(pm, apps[0], fn)
        if not loops or not isinstance(loops[0], ast.For):
            raise Undecided(f"{q}: index blocks are not appended in a for loop")
        loop = loops[0]
        app_node, app_val = apps[0], apps[0].args[0]
    it_ = loop.iter
    key_t, val_t = loop.target, None
    if isinstance(it_, ast.Call) and isinstance(it_.func, ast.Attribute) and it_.func.attr == "items" and not it_.args \
            and isinstance(loop.target, ast.Tuple) and len(loop.target.elts) == 2:
        it_, key_t, val_t = it_.func.value, loop.target.elts[0], loop.target.elts[1]
    src = inline_locals(fn, _strip_keys(it_))

    def is_img(e: ast.AST) -> bool:
        return isinstance(e, ast.Subscript) and _is_self_attr(e.value, "_equation_image_space_composition")

    ok_src = is_img(src)
    why = "image-space composition of the equation (order fixed by set_equation)"
    if not ok_src:
        why = _user_ordered(fn, loop.iter)
        if why is None:
            # names bound by unpacking the argument's items are the caller's
            names_from_param = set()
            for lp in [n for n in walk_local(fn) if isinstance(n, ast.For)]:
                b = lp.iter.func.value if isinstance(lp.iter, ast.Call) and isinstance(lp.iter.func, ast.Attribute) else lp.iter
                if isinstance(b, ast.Name) and b.id in _params(fn):
                    names_from_param |= {n.id for n in ast.walk(lp.target) if isinstance(n, ast.Name)}
            b = _strip_keys(loop.iter)
            if isinstance(b, ast.Name) and b.id in names_from_param:
                why = f"'{b.id}' is the grid list passed by the caller"
        if why is None:
            raise Undecided(f"{q}: cannot classify the iteration source {u(loop.iter)}")
    ctx.check("R2", ok_src, rel, q, loop,
              f"restricted row indices must be gathered in the order of the equation's image space, not the caller's grid order: {why}",
              construct=f"for ... in {u(loop.iter)} -> {u(src)[:70]}", facts={"source": u(src)})
    stop_t = [n.id for n in ast.walk(loop.target) if isinstance(n, ast.Name)]
    val = inline_locals(fn, app_val, stop=stop_t)
    ok_val = (isinstance(val, ast.Subscript) and is_img(val.value) and u(val.slice) == u(key_t)
              and (not ok_src or u(val.value) == u(src))) or (ok_src and val_t is not None and u(val) == u(val_t))
    ctx.check("R2", ok_val, rel, q, app_node, "the block appended for a grid is the image-space index array of that same grid",
              construct=f"append {u(val)[:80]}")
    # the equation name used for the lookup is the one the result is stored under
    def returned_dict_inserts(f):
        return [(s_, k, v) for D in {u(s_.value) for s_ in walk_local(f) if isinstance(s_, ast.Return) and isinstance(s_.value, ast.Name)}
                for (s_, k, v) in _dict_inserts(f, D)]

    carrier = cats[0] if outer_call is None else outer_call
    keyed = [(s_, k) for s_, k, v in returned_dict_inserts(fn0) if v is not None and k is not None and any(n is carrier for n in ast.walk(v))]
    if len(keyed) != 1:
        raise Undecided(f"{CLS}._parse_single_equation: the restricted block is not stored in the returned dict under a key")
    ok_key = True
    if ok_src:
        name_used = src.slice  # type: ignore[union-attr]
        if outer_call is not None:
            hp = [a_.arg for a_ in fn.args.args if a_.arg != "self"]
            bind = {p_: a_ for p_, a_ in zip(hp, outer_call.args)}
            bind.update({k_.arg: k_.value for k_ in outer_call.keywords if k_.arg})
            name_used = subst(name_used, bind)
        ok_key = u(name_used) == u(keyed[0][1])
    ctx.check("R2", bool(ok_key), rel, f"{CLS}._parse_single_equation", keyed[0][0],
              "the restricted block is stored under the name whose image space was consulted",
              construct=f"store under {u(keyed[0][1])}")
    return followed


def _grid_kind(e: ast.expr) -> Optional[str]:
    if isinstance(e, ast.Call) and isinstance(e.func, ast.Attribute) and e.func.attr in ("subdomains", "interfaces") \
            and u(e.func.value).split(".")[-1] == "mdg":
        if e.args or e.keywords:
            raise Undecided(f"grid listing with arguments: {u(e)}")
        return "sd" if e.func.attr == "subdomains" else "intf"
    return None


def _check_set_equation(ctx: Ctx, rel: str, fn: ast.FunctionDef) -> None:
    q = f"{CLS}.set_equation"
    pm = parent_map(fn)
    loops = [(n, _grid_kind(n.iter)) for n in walk_local(fn) if isinstance(n, ast.For)]
    loops = sorted([(n, k) for n, k in loops if k], key=lambda t: t[0].lineno)
    seq = [k for _, k in loops]
    if not loops:
        raise AnchorError(f"{q}: no loop over mdg grids")
    top = body_nodoc(fn)
    if not all(l in top for l, _ in loops):
        raise Undecided(f"{q}: grid loops are not top-level statements")
    ctx.check("R2", seq == ["sd", "intf"], rel, q, loops[0][0],
              f"row blocks of an equation are laid out over all subdomains, then all interfaces (mdg order); found {seq}",
              construct=f"grid loop sequence {seq}")
    D = O = None
    for loop, kind in loops:
        g = u(loop.target)
        # image_info.update({g: block}) / image_info[g] = block
        ins = []
        for s in walk_local(loop):
            if isinstance(s, ast.Assign) and len(s.targets) == 1 and isinstance(s.targets[0], ast.Subscript) and isinstance(s.targets[0].value, ast.Name):
                ins.append((s, s.targets[0].value.id, s.targets[0].slice, s.value))
            elif isinstance(s, ast.Expr) and isinstance(s.value, ast.Call) and isinstance(s.value.func, ast.Attribute) and s.value.func.attr == "update" \
                    and isinstance(s.value.func.value, ast.Name) and len(s.value.args) == 1 and isinstance(s.value.args[0], ast.Dict) and len(s.value.args[0].keys) == 1:
                ins.append((s, s.value.func.value.id, s.value.args[0].keys[0], s.value.args[0].values[0]))
        if len(ins) != 1:
            raise Undecided(f"{q}: [{kind}] expected one insertion into the image-space dict, found {len(ins)}")
        st, dn, key, val = ins[0]
        if D is None:
            D = dn
        block = _block(pm, st)
        env: dict[str, ast.AST] = {}
        order: dict[str, int] = {}
        incs = []
        for i, s in enumerate(block):
            if isinstance(s, ast.Assign) and len(s.targets) == 1 and isinstance(s.targets[0], ast.Name):
                env[s.targets[0].id] = s.value
                order[s.targets[0].id] = i
            if isinstance(s, ast.AugAssign) and isinstance(s.target, ast.Name):
                incs.append((i, s))
        ctx.check("R2", u(key) == g and dn == D, rel, q, st, f"the index block is stored for the grid being iterated ({g})",
                  construct=f"[{kind}] {dn}[{u(key)}]")
        bval = env.get(val.id) if isinstance(val, ast.Name) else val
        if not (isinstance(bval, ast.BinOp) and isinstance(bval.op, ast.Add)):
            raise Undecided(f"{q}: [{kind}] index block is not `arange(n) + offset`: {u(bval) if bval is not None else None}")
        ar, off = (bval.left, bval.right) if isinstance(bval.left, ast.Call) else (bval.right, bval.left)
        if not (isinstance(ar, ast.Call) and call_name(ar) == "arange" and ar.args and isinstance(off, ast.Name)):
            raise Undecided(f"{q}: [{kind}] index block is not `arange(n) + offset`: {u(bval)}")
        if O is None:
            O = off.id
        n_txt = u(ar.args[0])
        bi = order.get(val.id, block.index(st)) if isinstance(val, ast.Name) else block.index(st)
        my_inc = [(i, s) for i, s in incs if s.target.id == off.id]
        ok_inc = len(my_inc) == 1 and isinstance(my_inc[0][1].op, ast.Add) and u(my_inc[0][1].value) == n_txt and off.id == O
        ctx.check("R2", ok_inc, rel, q, my_inc[0][1] if my_inc else st,
                  f"the running offset advances once per grid by the size of the block just laid out ({n_txt})",
                  construct=f"[{kind}] {[u(s) for _, s in my_inc]} vs arange({n_txt})")
        ctx.check("R2", bool(my_inc) and my_inc[0][0] > bi, rel, q, st,
                  "the block must be computed from the offset BEFORE the offset is advanced (otherwise every block is shifted by its own length)",
                  construct=f"[{kind}] block at stmt {bi}, increment at {[i for i, _ in my_inc]}")
    # the composition is stored under the equation's name
    stores = [s for s in walk_local(fn) if isinstance(s, ast.Expr) and isinstance(s.value, ast.Call)
              and isinstance(s.value.func, ast.Attribute) and s.value.func.attr == "update"
              and _is_self_attr(s.value.func.value, "_equation_image_space_composition")]
    stores = [s for s in stores if top and s in top]
    ok = len(stores) == 1 and isinstance(stores[0].value.args[0], ast.Dict) and u(stores[0].value.args[0].values[0]) == D
    ctx.check("R2", ok, rel, q, stores[0] if stores else fn, "the composition built in the loops is what gets stored for the equation",
              construct=f"_equation_image_space_composition <- {D}")


def _block(pm: dict, stmt: ast.AST) -> list[ast.stmt]:
    par = pm[stmt]
    for fld in ("body", "orelse", "finalbody"):
        b = getattr(par, fld, None)
        if isinstance(b, list) and any(s is stmt for s in b):
            return b
    raise Undecided("statement without enclosing block")


# ----------------------------------------------------------------------------------------------
# R3 / R4: assemble
# ----------------------------------------------------------------------------------------------

def _norm_sel(e: ast.expr) -> tuple[ast.expr, Optional[ast.expr]]:
    """strip format conversions / asarray; X[sel] -> (X, sel)."""
    def strip(x):
        while True:
            if isinstance(x, ast.Call) and isinstance(x.func, ast.Attribute) and x.func.attr in ("tocsr", "tocsc", "copy") and not x.args:
                x = x.func.value
            elif isinstance(x, ast.Call) and call_name(x) in ("asarray", "atleast_1d", "array") and len(x.args) == 1:
                x = x.args[0]
            else:
                return x
    e = strip(e)
    if isinstance(e, ast.Subscript):
        return strip(e.value), e.slice
    return e, None


def _check_assemble(ctx: Ctx, rel: str, fn: ast.FunctionDef, cls_methods: dict) -> None:
    q = f"{CLS}.assemble"
    pm = parent_map(fn)
    params = _params(fn)
    rets = [r for r in walk_local(fn) if isinstance(r, ast.Return) and r.value is not None]
    full = [r for r in rets if isinstance(r.value, ast.Tuple) and len(r.value.elts) == 2]
    resid = [r for r in rets if not isinstance(r.value, ast.Tuple)]
    if len(full) != 1 or len(resid) != 1:
        raise Undecided(f"{q}: expected one (matrix, rhs) return and one residual-only return, found {len(full)}/{len(resid)}")

    def signed(e: ast.expr) -> tuple[int, ast.expr]:
        s = 1
        while isinstance(e, ast.UnaryOp) and isinstance(e.op, (ast.USub, ast.UAdd)):
            s = -s if isinstance(e.op, ast.USub) else s
            e = e.operand
        if isinstance(e, ast.BinOp) and isinstance(e.op, ast.Mult):
            for a, b in ((e.left, e.right), (e.right, e.left)):
                if isinstance(a, ast.Constant) and a.value in (1, -1, 1.0, -1.0):
                    s2, e2 = signed(b)
                    return s * int(a.value) * s2, e2
                if isinstance(a, ast.UnaryOp) and isinstance(a.op, ast.USub) and isinstance(a.operand, ast.Constant) and a.operand.value in (1, 1.0):
                    s2, e2 = signed(b)
                    return -s * s2, e2
        return s, e

    def cat_lists(name: str) -> set[str]:
        """Lists whose concatenation `name` holds ('<empty>' for an explicit empty vector)."""
        out: set[str] = set()

        def one(v: ast.expr) -> None:
            if isinstance(v, ast.IfExp):
                one(v.body)
                one(v.orelse)
            elif isinstance(v, ast.Call) and call_name(v) in ("concatenate", "hstack") and v.args and isinstance(v.args[0], ast.Name):
                out.add(v.args[0].id)
            elif isinstance(v, ast.Call) and call_name(v) in ("empty", "zeros", "array"):
                out.add("<empty>")
            else:
                raise Undecided(f"{q}: '{name}' is not a concatenation of per-equation blocks: {u(v)[:60]}")

        st = [x for x in _stores(fn, name) if isinstance(x, (ast.Assign, ast.AnnAssign)) and x.value is not None]
        if not st:
            raise Undecided(f"{q}: returned vector '{name}' has no definition")
        for x in st:
            one(x.value)
        return out

    sF, rF = signed(full[0].value.elts[1])  # type: ignore[union-attr]
    sR, rR = signed(resid[0].value)
    if not isinstance(rF, ast.Name):
        raise Undecided(f"{q}: rhs of the full return is not a (signed) name: {u(full[0].value)}")
    R = rF.id
    ctx.check("R3", sF == -1, rel, q, full[0], "the full arm returns the residual moved to the right-hand side (-rhs)",
              construct=f"full return rhs sign {sF:+d}")
    if not (isinstance(rR, ast.Name)):
        raise Undecided(f"{q}: residual-only return is not a (signed) name: {u(resid[0].value)}")
    listsF, listsR = cat_lists(R) - {"<empty>"}, cat_lists(rR.id) - {"<empty>"}
    if len(listsF) != 1:
        raise Undecided(f"{q}: {R} is not concatenate(<one list>)")
    Lr = next(iter(listsF))
    ctx.check("R3", listsR == listsF and sR == sF, rel, q, resid[0],
              "the residual-only arm must return the same vector with the same sign as the full arm",
              construct=f"residual-only return sign {sR:+d} on concatenate({sorted(listsR)}) (full arm: {sF:+d} on concatenate({sorted(listsF)}))")
    ctx.check("R4", True, rel, q, full[0], "the residual is the concatenation of the per-equation blocks (or empty)",
              construct=f"{R} <- concatenate({Lr})")
    prod = full[0].value.elts[0]  # type: ignore[union-attr]
    prod_i = inline_locals(fn, prod, stop=params)
    if not (isinstance(prod, ast.BinOp) and isinstance(prod.op, (ast.Mult, ast.MatMult))):
        raise Undecided(f"{q}: returned matrix is not a product: {u(prod)}")
    Aexp, Pexp = prod.left, inline_locals(fn, prod.right, stop=params)
    if not isinstance(Aexp, ast.Name):
        Aexp, Pexp = inline_locals(fn, prod.left, stop=params), prod.right
    # projection side
    def is_proj_T(e: ast.AST) -> Optional[ast.Call]:
        if isinstance(e, ast.Call) and isinstance(e.func, ast.Attribute) and e.func.attr == "transpose" and not e.args:
            e = e.func.value
        elif isinstance(e, ast.Attribute) and e.attr == "T":
            e = e.value
        else:
            return None
        if isinstance(e, ast.Call) and isinstance(e.func, ast.Attribute) and e.func.attr == "projection_to" and u(e.func.value) == "self":
            return e
        return None

    pc = is_proj_T(Pexp)
    left_is_A = isinstance(prod.left, ast.Name)
    if pc is None:
        # maybe un-transposed or on the wrong side
        other = inline_locals(fn, prod.left, stop=params)
        if is_proj_T(other) is not None:
            ctx.check("R4", False, rel, q, full[0], "columns are sliced by RIGHT-multiplying with the transposed projection",
                      construct=f"return {u(prod_i)[:90]}")
            return
        if isinstance(Pexp, ast.Call) and isinstance(Pexp.func, ast.Attribute) and Pexp.func.attr == "projection_to":
            ctx.check("R4", False, rel, q, full[0], "the projection must be transposed to act on columns",
                      construct=f"return {u(prod_i)[:90]}")
            return
        raise Undecided(f"{q}: right factor of the returned matrix is not projection_to(...).transpose(): {u(Pexp)[:80]}")
    ctx.check("R4", left_is_A, rel, q, full[0], "returned matrix is <row-stacked Jacobian> * projection_to(variables).transpose()",
              construct=f"return {u(prod_i)[:90]}")
    varg = pc.args[0] if pc.args else kwarg(pc, "variables")
    ok_v = isinstance(varg, ast.Name) and varg.id in params
    if ok_v:
        # the argument may only be defaulted, never replaced
        for s in _stores(fn, varg.id):  # type: ignore[union-attr]
            par = pm.get(s)
            if not (isinstance(par, ast.If) and isinstance(par.test, ast.Compare) and u(par.test.left) == varg.id  # type: ignore[union-attr]
                    and isinstance(par.test.ops[0], ast.Is) and u(par.test.comparators[0]) == "None"):
                ok_v = False
    ctx.check("R4", bool(ok_v), rel, q, pc, "the column projection is built for the caller's `variables` argument (defaulted only when None)",
              construct=f"projection_to({u(varg) if varg is not None else ''})")
    if not isinstance(Aexp, ast.Name):
        raise Undecided(f"{q}: matrix factor is not a name")
    A = Aexp.id
    a_defs = [s for s in _stores(fn, A) if isinstance(s, ast.Assign)]
    def unfmt(x: ast.expr) -> ast.expr:  # strip sparse format conversions
        while isinstance(x, ast.Call) and isinstance(x.func, ast.Attribute) and x.func.attr in ("tocsr", "tocsc", "tocoo", "asformat") :
            x = x.func.value
        return x

    vst = [s for s in a_defs if isinstance(unfmt(s.value), ast.Call) and call_name(unfmt(s.value)) in ("vstack", "bmat") and unfmt(s.value).args
           and isinstance(unfmt(s.value).args[0], ast.Name)]
    if len(vst) != 1:
        bad = [s for s in a_defs if isinstance(unfmt(s.value), ast.Call) and call_name(unfmt(s.value)) in ("hstack", "block_diag")]
        if bad:
            ctx.check("R4", False, rel, q, bad[0], "equation blocks must be stacked row-wise (vstack)", construct=u(bad[0].value)[:80])
            return
        raise Undecided(f"{q}: {A} is not vstack(<list>)")
    Lm = unfmt(vst[0].value).args[0].id
    ctx.check("R4", True, rel, q, vst[0], "equation blocks are stacked row-wise", construct=f"{A} <- vstack({Lm})")
    empt = [s for s in a_defs if s is not vst[0]]
    ok_e = all(isinstance(s.value, ast.Call) and call_name(s.value) in ("csr_matrix", "csc_matrix", "coo_matrix", "csr_array") and s.value.args
               and isinstance(s.value.args[0], ast.Tuple) and len(s.value.args[0].elts) == 2 and u(s.value.args[0].elts[1]) == "self.num_dofs()"
               for s in empt)
    ctx.check("R4", ok_e, rel, q, empt[0] if empt else vst[0], "the empty system still has num_dofs columns (so the column projection applies)",
              construct=f"empty {A} <- {[u(s.value) for s in empt]}")

    # ---- parsed dict D and the zipped loops -----------------------------------------------------
    # every for loop is a candidate; a loop that does not zip at all pairs its blocks with nothing (handled in zip_roles)
    loops = [n for n in walk_local(fn) if isinstance(n, ast.For)]

    def appends_to(loop, L):
        return [c for c in walk_local(loop) if isinstance(c, ast.Call) and isinstance(c.func, ast.Attribute) and c.func.attr == "append"
                and u(c.func.value) == L]

    full_loops = [l for l in loops if appends_to(l, Lm)]
    res_loops = [l for l in loops if appends_to(l, Lr) and not appends_to(l, Lm)]
    if len(full_loops) != 1 or len(res_loops) != 1:
        # appends outside zipped loops?
        raise Undecided(f"{q}: expected one loop filling {Lm}+{Lr} and one filling only {Lr}; found {len(full_loops)}/{len(res_loops)}")

    Dname: list[str] = []
    # do not inline through the parsed dict itself
    stop_names = list(params)
    for s_ in walk_local(fn):
        if isinstance(s_, (ast.Assign, ast.AnnAssign)) and s_.value is not None and isinstance(s_.value, ast.Call) \
                and isinstance(s_.value.func, ast.Attribute) and s_.value.func.attr == "_parse_equations":
            tg_ = s_.targets[0] if isinstance(s_, ast.Assign) else s_.target
            if isinstance(tg_, ast.Name):
                stop_names.append(tg_.id)

    def classify_zip_arg(e: ast.expr) -> tuple[str, str]:
        """role of a zip argument and the dict it derives from: ('names'|'rows'|'results'|'bad', D)"""
        x = inline_locals(fn, e, stop=stop_names)
        b = _strip_keys(x)
        if isinstance(b, ast.Call) and isinstance(b.func, ast.Attribute) and b.func.attr == "values" and isinstance(b.func.value, ast.Name):
            return "rows", b.func.value.id
        if isinstance(b, ast.Call) and isinstance(b.func, ast.Attribute) and b.func.attr == "evaluate" and u(b.func.value) == "self":
            ops = b.args[0] if b.args else kwarg(b, "operator")
            if isinstance(ops, ast.ListComp) and len(ops.generators) == 1 and not ops.generators[0].ifs:
                gen = ops.generators[0]
                src = _strip_keys(gen.iter)
                if isinstance(ops.elt, ast.Subscript) and _is_self_attr(ops.elt.value, "_equations") and u(ops.elt.slice) == u(gen.target) \
                        and isinstance(src, ast.Name):
                    return "results", src.id
                if isinstance(src, ast.Call) and call_name(src) in SET_CTORS | {"sorted", "reversed"}:
                    return "bad", f"operators listed from {u(src)[:40]}"
            raise Undecided(f"{q}: operator list passed to evaluate is not [self._equations[n] for n in <parsed dict>]: {u(ops)[:80] if ops is not None else None}")
        if isinstance(b, ast.ListComp) and len(b.generators) == 1 and not b.generators[0].ifs:
            g_ = b.generators[0]
            src_ = _strip_keys(g_.iter)
            if isinstance(src_, ast.Name):
                if u(b.elt) == u(g_.target):
                    return "names", src_.id
                if isinstance(b.elt, ast.Subscript) and u(b.elt.value) == src_.id and u(b.elt.slice) == u(g_.target):
                    return "rows", src_.id
            if isinstance(src_, ast.Call) and isinstance(src_.func, ast.Attribute) and src_.func.attr == "items" and isinstance(src_.func.value, ast.Name) \
                    and isinstance(g_.target, ast.Tuple) and len(g_.target.elts) == 2:
                if u(b.elt) == u(g_.target.elts[0]):
                    return "names", src_.func.value.id
                if u(b.elt) == u(g_.target.elts[1]):
                    return "rows", src_.func.value.id
        if isinstance(b, ast.Name):
            return "names", b.id
        if _is_self_attr(b, "_equations"):
            return "bad", "self._equations lists ALL equations; misaligned with the parsed subset"
        if isinstance(b, ast.Call) and call_name(b) in SET_CTORS | {"sorted", "reversed"}:
            return "bad", f"{u(b)[:40]} re-orders"
        if isinstance(b, ast.Subscript) and isinstance(b.slice, ast.Slice):
            return "bad", f"{u(b)[:40]} re-orders/offsets"
        raise Undecided(f"{q}: cannot classify zip argument {u(e)} = {u(x)[:60]}")

    def zip_roles(loop: ast.For) -> dict[str, str]:
        z = loop.iter
        tg = loop.target
        if isinstance(z, ast.Call) and call_name(z) == "zip":
            if not isinstance(tg, ast.Tuple) or len(tg.elts) != len(z.args) or z.keywords:
                raise Undecided(f"{q}: zip targets/arguments mismatch")
            pairs = list(zip(tg.elts, z.args))
        elif isinstance(tg, ast.Name):
            pairs = [(tg, z)]  # a plain loop over one sequence: nothing is paired with it
        else:
            raise Undecided(f"{q}: block loop is neither a zip nor a loop over one sequence: {u(z)[:60]}")
        roles = {}
        for t, a in pairs:
            ai = inline_locals(fn, a, stop=stop_names)
            ai = ai.args[0] if isinstance(ai, ast.Call) and call_name(ai) in ("list", "tuple") and len(ai.args) == 1 else ai
            if isinstance(ai, ast.Call) and isinstance(ai.func, ast.Attribute) and ai.func.attr == "items" and not ai.args \
                    and isinstance(ai.func.value, ast.Name) and isinstance(t, ast.Tuple) and len(t.elts) == 2:
                # (name, row) pairs of the parsed dict: two roles from one sequence
                d = ai.func.value.id
                Dname.append(d)
                ctx.check("R3", d == Dname[0], rel, q, a,
                          f"zipped sequence {u(a)} must derive from the one dict returned by _parse_equations",
                          construct=f"zip arg {u(a)} -> names+rows({d})", facts={"role": "names+rows", "source": d})
                roles["names"], roles["rows"] = u(t.elts[0]), u(t.elts[1])
                continue
            role, d = classify_zip_arg(a)
            ok = role != "bad"
            if ok:
                Dname.append(d)
            ctx.check("R3", ok and (not Dname or d == Dname[0]), rel, q, a,
                      f"zipped sequence {u(a)} must derive from the one dict returned by _parse_equations (names, row selectors and "
                      f"evaluated operators pair by position){'' if ok else ': ' + d}",
                      construct=f"zip arg {u(a)} -> {role}({d})", facts={"role": role, "source": d})
            if ok:
                roles[role] = u(t)
        return roles

    rolesF = zip_roles(full_loops[0])
    rolesR = zip_roles(res_loops[0])
    if not Dname:
        return
    D = Dname[0]
    dval = _single_value(fn, D)
    ok_d = isinstance(dval, ast.Call) and isinstance(dval.func, ast.Attribute) and dval.func.attr == "_parse_equations" and u(dval.func.value) == "self" \
        and dval.args and isinstance(dval.args[0], ast.Name) and dval.args[0].id in params
    ctx.check("R3", bool(ok_d), rel, q, dval if dval is not None else fn, "row blocks come from self._parse_equations(<equations argument>)",
              construct=f"{D} <- {u(dval) if dval is not None else None}")
    for need, roles, nm in (({"rows", "results", "names"}, rolesF, "full"), ({"rows", "results"}, rolesR, "residual-only")):
        if not need <= set(roles):
            missing = sorted(need - set(roles))
            msg = f"{nm} loop must pair {sorted(need)} by position; found only {sorted(roles)}"
            if "rows" in missing and nm == "residual-only":
                msg = ("residual-only arm must apply the same row selectors as the full arm: its loop does not pair the row "
                       f"selectors of the parsed dict with the evaluated operators (found only {sorted(roles)}), so a grid "
                       "restriction is ignored when evaluate_jacobian=False")
            elif "rows" in missing:
                msg = f"full arm does not pair the row selectors with the evaluated operators (found only {sorted(roles)})"
            ctx.check("R3", False, rel, q, full_loops[0] if nm == "full" else res_loops[0], msg,
                      construct=f"{nm} loop pairs {sorted(roles)}; missing {missing}")
            return
    # same operator list + same state in both evaluate calls
    evs = [c for c in walk_local(fn) if isinstance(c, ast.Call) and isinstance(c.func, ast.Attribute) and c.func.attr == "evaluate" and u(c.func.value) == "self"]
    if len(evs) == 2:
        def ev_args(c):
            ops = c.args[0] if c.args else kwarg(c, "operator")
            st = c.args[2] if len(c.args) > 2 else kwarg(c, "state")
            return (u(ops) if ops is not None else None, u(st) if st is not None else None)
        a0, a1 = ev_args(evs[0]), ev_args(evs[1])
        ctx.check("R3", a0 == a1 and a0[1] in params, rel, q, evs[1], "both arms evaluate the same operator list on the same state argument",
                  construct=f"evaluate args {a0} / {a1}")
    else:
        raise Undecided(f"{q}: expected two self.evaluate calls (with and without derivative)")

    # ---- lock-step, decided per case (row selector given / absent) by interpreting the loop body ------------------
    def none_test(t: ast.expr, row: str) -> Optional[bool]:
        """True if `t` holds exactly when the row selector is given, False if exactly when it is None."""
        if isinstance(t, ast.UnaryOp) and isinstance(t.op, ast.Not):
            r_ = none_test(t.operand, row)
            return None if r_ is None else (not r_)
        if isinstance(t, ast.Compare) and len(t.ops) == 1 and u(t.left) == row and u(t.comparators[0]) == "None":
            if isinstance(t.ops[0], ast.IsNot):
                return True
            if isinstance(t.ops[0], ast.Is):
                return False
        return None

    def resolve(e: ast.expr, env: dict, row: str, given: bool) -> ast.expr:
        import copy

        class Pick(ast.NodeTransformer):
            def visit_IfExp(self_, n: ast.IfExp):
                pos = none_test(n.test, row)
                if pos is None:
                    return self_.generic_visit(n)
                return self_.visit(n.body if pos == given else n.orelse)
        return Pick().visit(copy.deepcopy(subst(e, env)))

    def run_case(stmts: list, row: str, given: bool, env: dict, events: list, guard: Optional[ast.expr], lists: tuple) -> None:
        for st_ in stmts:
            if isinstance(st_, ast.If):
                pos = none_test(st_.test, row)
                if pos is not None:
                    run_case(st_.body if pos == given else st_.orelse, row, given, env, events, guard, lists)
                else:
                    g_ = resolve(st_.test, env, row, given)
                    run_case(st_.body, row, given, dict(env), events, g_, lists)
                    run_case(st_.orelse, row, given, dict(env), events, ast.UnaryOp(op=ast.Not(), operand=g_), lists)
                    for n_ in ast.walk(st_):
                        if isinstance(n_, ast.Name) and isinstance(n_.ctx, ast.Store):
                            env.pop(n_.id, None)
                continue
            if isinstance(st_, (ast.Assign, ast.AnnAssign)) and st_.value is not None:
                tg_ = st_.targets[0] if isinstance(st_, ast.Assign) else st_.target
                if isinstance(tg_, ast.Name):
                    v_ = resolve(st_.value, env, row, given)
                    env[tg_.id] = v_
                    events.append(("assign", tg_.id, v_, st_, guard))
                    continue
                if isinstance(tg_, ast.Subscript) and _is_self_attr(tg_.value, "assembled_equation_indices"):
                    events.append(("index", resolve(tg_.slice, env, row, given), resolve(st_.value, env, row, given), st_, guard))
                    continue
            if isinstance(st_, ast.AugAssign) and isinstance(st_.target, ast.Name):
                events.append(("aug", st_.target.id, (st_.op, resolve(st_.value, env, row, given)), st_, guard))
                env.pop(st_.target.id, None)
                continue
            if isinstance(st_, ast.Expr) and isinstance(st_.value, ast.Call) and isinstance(st_.value.func, ast.Attribute):
                c_ = st_.value
                if c_.func.attr == "append" and u(c_.func.value) in lists and len(c_.args) == 1:
                    if guard is not None:
                        raise Undecided(f"{q}: block appended under an unrecognised condition {u(guard)[:50]}")
                    events.append(("append", u(c_.func.value), resolve(c_.args[0], env, row, given), c_, guard))
                    continue
                if c_.func.attr == "update" and _is_self_attr(c_.func.value, "assembled_equation_indices") and len(c_.args) == 1 \
                        and isinstance(c_.args[0], ast.Dict) and len(c_.args[0].keys) == 1 and c_.args[0].keys[0] is not None:
                    events.append(("index", resolve(c_.args[0].keys[0], env, row, given), resolve(c_.args[0].values[0], env, row, given), st_, guard))
                    continue
            # anything else must not touch the block lists or the index dict
            for n_ in ast.walk(st_):
                if (isinstance(n_, ast.Name) and n_.id in lists) or _is_self_attr(n_, "assembled_equation_indices"):
                    raise Undecided(f"{q}: unrecognised statement touching the block lists: {u(st_)[:70]}")

    def length_arg(e: ast.expr, last_rhs: Optional[ast.expr]) -> Optional[ast.expr]:
        """E if e is len(E) / E.size / E.shape[0]; `<rhs list>[-1]` is resolved to the block appended last."""
        inner = None
        if isinstance(e, ast.Call) and u(e.func) == "len" and len(e.args) == 1:
            inner = e.args[0]
        elif isinstance(e, ast.Attribute) and e.attr == "size":
            inner = e.value
        elif isinstance(e, ast.Subscript) and isinstance(e.value, ast.Attribute) and e.value.attr == "shape" and u(e.slice) == "0":
            inner = e.value.value
        if inner is None:
            return None
        if isinstance(inner, ast.Subscript) and u(inner.value) == Lr and u(inner.slice) == "-1":
            return last_rhs
        return inner

    def check_case(loop: ast.For, roles: dict, with_mat: bool, tag: str, given: bool) -> tuple:
        row, res = roles["rows"], roles["results"]
        events: list = []
        run_case(loop.body, row, given, {}, events, None, (Lr, Lm))
        apps_r = [e_ for e_ in events if e_[0] == "append" and e_[1] == Lr]
        apps_m = [e_ for e_ in events if e_[0] == "append" and e_[1] == Lm]
        node = (apps_r + apps_m)[0][3] if (apps_r + apps_m) else loop
        if len(apps_r) != 1 or (with_mat and len(apps_m) != 1) or (not with_mat and apps_m):
            ctx.check("R3", False, rel, q, node,
                      f"[{tag}] with the row selector {'given' if given else 'absent'} exactly one residual block" +
                      (" and one Jacobian block" if with_mat else "") + " must be appended per equation",
                      construct=f"[{tag}] row given={given}: appends rhs x{len(apps_r)}, mat x{len(apps_m)}")
            return None, events
        r_arg = apps_r[0][2]
        rb, rs = _norm_sel(r_arg)
        want_r = f"{res}.val" if with_mat else res
        if u(rb) != want_r:
            raise Undecided(f"{q}: [{tag}] residual block is not derived from the evaluated operator: {u(r_arg)}")
        want_sel = row if given else None
        got_r = u(rs) if rs is not None else None
        ctx.check("R3", got_r == want_sel, rel, q, apps_r[0][3],
                  f"[{tag}] with the row selector {'given' if given else 'absent'} the residual block must be "
                  f"{want_r}{'[' + row + ']' if given else ''}",
                  construct=f"[{tag}] row given={given}: rhs.append({u(r_arg)})")
        if with_mat:
            m_arg = apps_m[0][2]
            mb, ms = _norm_sel(m_arg)
            if u(mb) != f"{res}.jac":
                if u(mb).endswith(".jac") or u(mb).endswith(".val"):
                    ctx.check("R3", False, rel, q, apps_m[0][3], f"[{tag}] Jacobian block must be {res}.jac of the same evaluated operator",
                              construct=f"[{tag}] mat.append({u(m_arg)})")
                    return r_arg, events
                raise Undecided(f"{q}: [{tag}] Jacobian block is not <result>.jac: {u(m_arg)}")
            got_m = u(ms) if ms is not None else None
            ctx.check("R3", got_m == got_r and got_m == want_sel, rel, q, apps_m[0][3],
                      f"[{tag}] Jacobian rows and residual entries must be selected with the same row selector "
                      f"(mat: {got_m}, rhs: {got_r})",
                      construct=f"[{tag}] row given={given}: mat.append({u(m_arg)}) / rhs.append({u(r_arg)})")
        return r_arg, events

    loop = full_loops[0]
    top_stmt = _top_in(pm, loop, fn) if pm[loop] is not fn else loop
    # the index dict is reset before the Jacobian blocks are recorded
    resets = []
    for s_ in walk_local(fn):
        if isinstance(s_, (ast.Assign, ast.AnnAssign)) and s_.value is not None:
            tg_ = s_.targets[0] if isinstance(s_, ast.Assign) else s_.target
            if _is_self_attr(tg_, "assembled_equation_indices"):
                resets.append(s_)
    body_ = list(fn.body)
    ok_reset = False
    for s_ in resets:
        v_ = s_.value
        empty_ = (isinstance(v_, ast.Dict) and not v_.keys) or (isinstance(v_, ast.Call) and u(v_.func) == "dict" and not v_.args and not v_.keywords)
        t_ = s_ if pm[s_] is fn else _top_in(pm, s_, fn)
        par_ = pm[s_]
        guarded_ok = par_ is fn or (isinstance(par_, ast.If) and pm[par_] is fn and s_ in par_.body and isinstance(par_.test, ast.Name)
                                     and par_.test.id in params)
        if empty_ and guarded_ok and body_.index(t_) <= body_.index(top_stmt) and s_.lineno < loop.lineno:
            ok_reset = True
    ctx.check("R3", ok_reset, rel, q, resets[0] if resets else loop,
              "assembled_equation_indices must be reset to an empty dict before the Jacobian blocks are recorded "
              "(otherwise names from an earlier, different assembly survive)",
              construct=f"reset assembled_equation_indices: {[u(s_) for s_ in resets]}")
    S_names: set[str] = set()
    sel_sample = {}
    for given in (True, False):
        r_arg, events = check_case(loop, rolesF, True, "full", given)
        sel_sample[f"full/{given}"] = u(r_arg) if r_arg is not None else None
        if r_arg is None:
            continue
        idx = [e_ for e_ in events if e_[0] == "index"]
        if len(idx) != 1 or idx[0][4] is not None:
            raise Undecided(f"{q}: expected one unconditional update of assembled_equation_indices per equation")
        _, key, val, st, _g = idx[0]
        ctx.check("R3", u(key) == rolesF["names"], rel, q, st, "indices are recorded under the equation name zipped with this block",
                  construct=f"row given={given}: assembled_equation_indices[{u(key)}]")
        if not (isinstance(val, ast.BinOp) and isinstance(val.op, ast.Add)):
            raise Undecided(f"{q}: recorded indices are not `arange(n) + start`: {u(val)[:80]}")
        ar, start = (val.left, val.right) if isinstance(val.left, ast.Call) else (val.right, val.left)
        if not (isinstance(ar, ast.Call) and call_name(ar) == "arange" and len(ar.args) >= 1 and isinstance(start, ast.Name)):
            raise Undecided(f"{q}: recorded indices are not `arange(<length>) + <start name>`: {u(val)[:80]}")
        S = start.id
        S_names.add(S)
        # the rhs block appended before the length was taken
        order = [e_[3] for e_ in events]
        X = length_arg(ar.args[0], r_arg)
        if X is None:
            raise Undecided(f"{q}: unrecognised block length {u(ar.args[0])[:60]}")
        ctx.check("R3", _norm_pair(X) == _norm_pair(r_arg), rel, q, st,
                  "the recorded block length must be the length of the residual block just appended (restricted blocks are shorter than the equation)",
                  construct=f"row given={given}: length of {u(X)} vs appended {u(r_arg)}")
        # advance of the start: one past the block
        advs = [e_ for e_ in events if (e_[0] == "aug" and e_[1] == S) or (e_[0] == "assign" and e_[1] == S)]
        if len(advs) != 1:
            ctx.check("R3", False, rel, q, loop, f"'{S}' must be advanced exactly once per block",
                      construct=f"row given={given}: {S} advances {[u(e_[3]) for e_ in advs]}")
            continue
        a_ = advs[0]
        ok = None
        if order.index(a_[3]) < order.index(st):
            ok = False  # moved before the indices of this block were recorded
        elif a_[0] == "aug":
            op_, v_ = a_[2]
            Xa = length_arg(v_, r_arg)
            if isinstance(op_, ast.Add) and Xa is not None:
                ok = _norm_pair(Xa) == _norm_pair(r_arg) and a_[4] is None
        else:
            e = a_[2]
            if isinstance(e, ast.BinOp) and isinstance(e.op, ast.Add):
                parts = [e.left, e.right]
                names_ = [x for x in parts if isinstance(x, ast.Name) and x.id == S]
                lens_ = [length_arg(x, r_arg) for x in parts]
                if names_ and any(l_ is not None for l_ in lens_):
                    Xa = [l_ for l_ in lens_ if l_ is not None][0]
                    ok = _norm_pair(Xa) == _norm_pair(r_arg) and a_[4] is None
                else:
                    last = [x for x in parts if isinstance(x, ast.Subscript) and u(x.slice) == "-1" and u(x.value) == u(val)]
                    one = [x for x in parts if isinstance(x, ast.Constant)]
                    if last and one:
                        ok = one[0].value == 1
            elif isinstance(e, ast.Subscript) and u(e.slice) == "-1" and u(e.value) == u(val):
                ok = False
        if ok is None:
            raise Undecided(f"{q}: unrecognised advance of '{S}': {u(a_[3])}")
        ctx.check("R3", bool(ok), rel, q, a_[3], f"'{S}' must move to one past the last index of the block just recorded",
                  construct=f"row given={given}: advance {u(a_[3])}")
    for given in (True, False):
        r_arg, _ev = check_case(res_loops[0], rolesR, False, "residual-only", given)
        sel_sample[f"residual-only/{given}"] = u(r_arg) if r_arg is not None else None
    ctx.sample({"rule": "R3", "appended_residual_blocks (arm/row given)": sel_sample})
    for S in sorted(S_names):
        init = [x for x in _stores(fn, S) if not _within(pm, x, loop)]
        ok_init = len(init) == 1 and isinstance(init[0], ast.Assign) and isinstance(init[0].value, ast.Constant) and init[0].value.value == 0 \
            and init[0].lineno < loop.lineno
        ctx.check("R3", ok_init, rel, q, init[0] if init else loop, "row index bookkeeping starts at 0", construct=f"{S} init {[u(x) for x in init]}")


def _env_before(block: list[ast.stmt], stmt: ast.AST) -> dict[str, ast.AST]:
    """temporaries (`name = expr`) bound earlier in the same block, substituted transitively."""
    env: dict[str, ast.AST] = {}
    for s in block:
        if s is stmt:
            break
        if isinstance(s, ast.Assign) and len(s.targets) == 1 and isinstance(s.targets[0], ast.Name):
            if s.targets[0].id in {n.id for n in ast.walk(s.value) if isinstance(n, ast.Name)}:
                continue  # re-binding such as val = np.asarray(val) keeps the name
            env[s.targets[0].id] = subst(s.value, env)
    return env


def _norm_pair(e: ast.expr) -> tuple[str, Optional[str]]:
    b, s = _norm_sel(e)
    return u(b), (u(s) if s is not None else None)


def _within(pm: dict, n: ast.AST, anc: ast.AST) -> bool:
    while n in pm:
        n = pm[n]
        if n is anc:
            return True
    return False


def _top_in(pm: dict, n: ast.AST, loop: ast.AST) -> ast.AST:
    while pm[n] is not loop:
        n = pm[n]
    return n


def _check_parser_evaluate(ctx: Ctx, par_mod) -> None:
    fn = par_mod.func("AdParser.evaluate")
    q = "AdParser.evaluate"
    params = _params(fn)
    op = params[1] if len(params) > 1 else None
    rets = [r for r in walk_local(fn) if isinstance(r, ast.Return) and r.value is not None]
    comps = [n for n in walk_local(fn) if isinstance(n, ast.ListComp) and len(n.generators) == 1 and u(n.generators[0].iter) == op
             and isinstance(n.elt, ast.Call) and call_name(n.elt) == "_evaluate_single" and n.elt.args and u(n.elt.args[0]) == u(n.generators[0].target)
             and not n.generators[0].ifs]
    if len(comps) != 1:
        raise Undecided(f"{PARSER}:{q}: results are not built by one comprehension over the operator list")
    pm = parent_map(fn)
    st = enclosing_stmt(pm, comps[0])
    if not (isinstance(st, ast.Assign) and isinstance(st.targets[0], ast.Name)):
        raise Undecided(f"{PARSER}:{q}: result list not bound to a name")
    L = st.targets[0].id
    list_rets = [r for r in rets if u(r.value) == L]
    reorder = [c for c in walk_local(fn) if isinstance(c, ast.Call) and isinstance(c.func, ast.Attribute) and u(c.func.value) == L
               and c.func.attr in ("sort", "reverse", "insert", "pop", "remove", "append", "extend")]
    ctx.check("R3", bool(list_rets) and not reorder, par_mod, q, comps[0],
              "a list of operators is evaluated element by element and returned in argument order (assemble zips the results with names and row selectors)",
              construct=f"{L} = {u(comps[0])[:70]}; returned; reordering calls: {[u(c)[:30] for c in reorder]}")


# ----------------------------------------------------------------------------------------------

ANCHORED = ("assemble", "_parse_equations", "_parse_single_equation", "_gridbased_equation_complement", "set_equation")


def run(ctx: Ctx) -> None:
    mod = ctx.repo.module(ES)
    cls = mod.cls(CLS)
    meths = methods(cls)
    for need in ANCHORED:
        if need not in meths:
            raise AnchorError(f"{ES}:{CLS}.{need} not found")
    par_mod = ctx.repo.module(PARSER)
    # R1
    for name in ANCHORED:
        _check_sets(ctx, mod.rel, f"{CLS}.{name}", meths[name], judge=True)
    _check_sets(ctx, par_mod.rel, "AdParser.evaluate", par_mod.func("AdParser.evaluate"), judge=True)
    # R2
    _check_parse_equations(ctx, mod.rel, meths["_parse_equations"])
    followed = _check_parse_single(ctx, mod.rel, meths["_parse_single_equation"], meths)
    if followed is not None:  # sets used in a helper the row gathering was moved into are judged as well
        _check_sets(ctx, mod.rel, f"{CLS}.{followed[0]}", followed[1], judge=True)
    _check_set_equation(ctx, mod.rel, meths["set_equation"])
    # R3 / R4
    _check_assemble(ctx, mod.rel, meths["assemble"], meths)
    _check_parser_evaluate(ctx, par_mod)
    # thorough: sweep the other methods of the class for order-leaking set uses (notes only)
    if ctx.tier == "thorough":
        for name, fn in meths.items():
            if name in ANCHORED or name == "assemble_schur_complement_system":  # the latter is judged by C07 R3
                continue
            _check_sets(ctx, mod.rel, f"{CLS}.{name}", fn, judge=False)


# ----------------------------------------------------------------------------------------------

def _m(name, old, new, rule, control=False, count=1, file=ES):
    return dict(name=name, file=file, old=old, new=new, rule=rule, control=control, count=count)


MUTANTS = [
    _m("order-by-requested-blocks",
       "        for equation in self._equations:\n            # By now, all equations are contained in requested_row_blocks.\n            if equation in requested_row_blocks:\n",
       "        for equation in requested_row_blocks:\n            # By now, all equations are contained in requested_row_blocks.\n            if equation in self._equations:\n",
       "R2", control=True),
    _m("return-unordered-request", "        return ordered_blocks\n", "        return requested_row_blocks\n", "R2"),
    _m("default-order-sorted", "return dict((name, None) for name in self._equations)", "return dict((name, None) for name in sorted(self._equations))", "R2"),
    _m("restricted-rows-in-user-grid-order", "                for grid in img_info:\n                    if grid in grids:\n",
       "                for grid in grids:\n                    if grid in img_info:\n", "R2"),
    _m("iterate-set-of-equations",
       "        for equation in self._equations:\n            # By now, all equations are contained in requested_row_blocks.\n",
       "        for equation in set(self._equations):\n            # By now, all equations are contained in requested_row_blocks.\n", "R1"),
    _m("operators-from-set", "eqs: list[pp.ad.Operator] = [self._equations[name] for name in equ_blocks]",
       "eqs: list[pp.ad.Operator] = [self._equations[name] for name in set(equ_blocks)]", "R1"),
    _m("set-equation-offset-advanced-first",
       "                block_idx = np.arange(num_equ_per_grid, dtype=int) + total_num_equ\n                # Cumulate total number of equations.\n                total_num_equ += num_equ_per_grid\n                # Store block idx per grid\n",
       "                total_num_equ += num_equ_per_grid\n                block_idx = np.arange(num_equ_per_grid, dtype=int) + total_num_equ\n                # Store block idx per grid\n", "R2"),
    _m("set-equation-interfaces-first", "        for sd in self.mdg.subdomains():\n            if sd in grids:\n                # Equations on subdomains",
       "        for sd in self.mdg.interfaces():\n            if sd in grids:\n                # Equations on subdomains", "R2"),
    _m("rhs-not-sliced", "                    rhs.append(ad.val[row])\n", "                    rhs.append(ad.val)\n", "R3", control=True),
    _m("mat-not-sliced", "                    mat.append(ad.jac.tocsr()[row])\n", "                    mat.append(ad.jac.tocsr())\n", "R3"),
    _m("residual-arm-not-sliced", "                    rhs.append(val[row])\n", "                    rhs.append(val)\n", "R3"),
    _m("seed-residual-arm-drops-row-restriction",
       "            for row, val in zip(rows, values):\n                # The residual of individual equations can be a scalar or an array.\n"
       "                # Forcing to array to ensure consistent handling.\n                val = np.asarray(val)\n"
       "                if row is not None:\n                    rhs.append(val[row])\n                else:\n                    rhs.append(val)\n",
       "            for val in values:\n                # The residual of individual equations can be a scalar or an array.\n"
       "                # Forcing to array to ensure consistent handling.\n                rhs.append(np.asarray(val))\n", "R3"),
    _m("residual-arm-sign", "        if not evaluate_jacobian:\n            return -rhs_cat\n", "        if not evaluate_jacobian:\n            return rhs_cat\n", "R3", control=True),
    _m("names-zipped-from-all-equations", "for row, equ_name, ad in zip(rows, equ_blocks, ad_list):", "for row, equ_name, ad in zip(rows, self._equations, ad_list):", "R3"),
    _m("rows-reversed", "        rows = list(equ_blocks.values())\n", "        rows = list(equ_blocks.values())[::-1]\n", "R3"),
    _m("block-length-of-whole-equation", "                    block_length = len(rhs[-1])\n", "                    block_length = len(ad.val)\n", "R3"),
    _m("indices-not-reset", "        if evaluate_jacobian:\n            self.assembled_equation_indices = dict()\n", "        if evaluate_jacobian:\n            pass\n", "R3"),
    _m("index-start-overlaps", "                    ind_start = block_indices[-1] + 1\n", "                    ind_start = block_indices[-1]\n", "R3"),
    _m("index-start-not-advanced", "                if block_length > 0:\n                    ind_start = block_indices[-1] + 1\n", "", "R3"),
    _m("residual-arm-other-state", "            values = self.evaluate(eqs, derivative=False, state=state)\n", "            values = self.evaluate(eqs, derivative=False, state=None)\n", "R3"),
    _m("projection-ignores-variables", "column_projection = self.projection_to(variables).transpose()", "column_projection = self.projection_to(self.variables).transpose()", "R4"),
    _m("parser-evaluate-reversed", "            if isinstance(op, list):\n                result_list = [\n                    self._evaluate_single(o, ad_base, equation_system) for o in op\n                ]\n",
       "            if isinstance(op, list):\n                result_list = [\n                    self._evaluate_single(o, ad_base, equation_system) for o in op\n                ]\n                result_list.reverse()\n",
       "R3", file=PARSER),
]
